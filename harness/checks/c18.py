"""
C18 - the subscription manager owns exactly what it created and removes
exactly that.

Spec:   SubMgr.tla (requirement machine: truth about who created what; owned
        lists and complete server content judged after every call),
        SubMgrOwn.tla (design model of Name-based discovery: regex vs string
        equality over all ID pairs, create/discover/remove interleavings of two
        managers; the unescaped legacy pattern must fail Isolation and
        AddServerTotal), SubMgrTrace.tla.
Binding: seeded histories of 1-3 real WBEMSubscriptionManager objects (IDs
        drawn from strings with regex metacharacters / prefixes of each other)
        against 1-2 mock WBEM servers (tests' WbemServerMock + subscription
        providers): add/remove destination, filter, subscription (owned and
        permanent, duplicates, removal while referenced), remove_server,
        remove_all_servers, context exit, client restart (new manager, same ID),
        foreign instances; TLC judges every event.
"""
import copy
import os
import sys

import pywbem
from pywbem import CIMError

import vlib
import mockrepo

INTEROP = "interop"
IDS = ["abc", "a.c", "ab", "abcd", "abc*", "a(c", ".*", "a+", "[abc]", "a{2}", "a?c",
       "ABC", "a c", "a\\c", "x$", "^a"]
URLS = {"u1": "http://host1:5000", "u2": "https://host2:5001"}
_TEMPLATES = {}


def server_template(sv):
    """One template per server: the servers need different URLs (the URL is
    the subscription manager's server id)."""
    if sv not in _TEMPLATES:
        root = os.path.dirname(os.path.dirname(os.path.abspath(
            pywbem.__file__)))
        if root not in sys.path:
            sys.path.insert(0, root)
        from tests.unittest.utils.wbemserver_mock import WbemServerMock
        cwd = os.getcwd()
        os.chdir(root)
        try:
            import io
            import contextlib
            with contextlib.redirect_stdout(io.StringIO()):
                m = WbemServerMock(interop_ns=INTEROP,
                                   url="http://FakedServer%d:5988" % sv)
        finally:
            os.chdir(cwd)
        conn = m.wbem_server.conn
        conn.install_subscription_providers(
            INTEROP, schema_pragma_file=mockrepo.schema_pragma_file())
        _TEMPLATES[sv] = conn
    return _TEMPLATES[sv]


def fresh_server(sv):
    return copy.deepcopy(server_template(sv))


class World:
    def __init__(self, rng, nservers):
        self.rng = rng
        self.conns = {sv: fresh_server(sv) for sv in range(1, nservers + 1)}
        self.mgrs = {}       # m -> (WBEMSubscriptionManager, id)
        self.sids = {}       # (m, sv) -> server_id
        self.events = []
        self.info = []
        self.n = 0
        self.sub_creator = {}   # (sv, "f|d") -> manager id or "" (permanent)
        self.creator_at = []

    # -- observation ---------------------------------------------------------
    def content(self):
        out = []
        for sv in (1, 2):
            conn = self.conns.get(sv)
            if conn is None:
                out.append(dict(sv=sv, d=[], f=[], s=[]))
                continue
            d = [i["Name"] for i in conn.EnumerateInstances(
                "CIM_ListenerDestinationCIMXML", namespace=INTEROP)]
            f = [i["Name"] for i in conn.EnumerateInstances(
                "CIM_IndicationFilter", namespace=INTEROP)]
            s = ["%s|%s" % (i.path["Filter"]["Name"], i.path["Handler"]["Name"])
                 for i in conn.EnumerateInstances(
                     "CIM_IndicationSubscription", namespace=INTEROP)]
            out.append(dict(sv=sv, d=sorted(d), f=sorted(f), s=sorted(s)))
        return out

    def owned_lists(self):
        out = []
        for (m, sv), sid in sorted(self.sids.items()):
            mgr = self.mgrs[m][0]
            try:
                d = [i["Name"] for i in mgr.get_owned_destinations(sid)]
                f = [i["Name"] for i in mgr.get_owned_filters(sid)]
                s = ["%s|%s" % (i.path["Filter"]["Name"],
                                i.path["Handler"]["Name"])
                     for i in mgr.get_owned_subscriptions(sid)]
            except Exception as exc:  # noqa
                d, f, s = ["UNCLASSIFIED:" + type(exc).__name__], [], []
            out.append(dict(m=m, sv=sv, d=d, f=f, s=s))
        return out

    def record(self, ev, res, code=0, what=""):
        base = dict(op="", m=0, sv=1, id="", owned=True, xid="", name="",
                    url="", badargs=False, fname="", dname="", kind="")
        base.update(ev)
        base.update(res=res, code=code, content=self.content(),
                    owned_lists=self.owned_lists())
        self.events.append(base)
        self.info.append(what or ev["op"])
        # who created which subscription, as of this event (signatures of
        # findings are computed for the event, not for the end of the history)
        self.creator_at.append(dict(self.sub_creator))

    @staticmethod
    def classify(exc):
        if isinstance(exc, CIMError):
            return "CIMError", int(exc.status_code)
        return type(exc).__name__, 0

    # -- operations -------------------------------------------------------------
    def new_manager(self, m, mid):
        try:
            mgr = pywbem.WBEMSubscriptionManager(mid)
        except Exception as exc:  # noqa
            return False
        for key in [k for k in self.sids if k[0] == m]:
            del self.sids[key]
        self.mgrs[m] = (mgr, mid)
        self.record(dict(op="new_manager", m=m, id=mid), "ok",
                    what="WBEMSubscriptionManager(%r)" % mid)
        return True

    def add_server(self, m, sv):
        mgr, mid = self.mgrs[m]
        try:
            sid = mgr.add_server(pywbem.WBEMServer(self.conns[sv]))
            self.sids[(m, sv)] = sid
            res, code = "ok", 0
        except Exception as exc:  # noqa
            res, code = self.classify(exc)
        self.record(dict(op="add_server", m=m, sv=sv, id=mid), res, code,
                    what="mgr(%r).add_server(server %d)" % (mid, sv))

    def _paths(self, sv, cls, name):
        for i in self.conns[sv].EnumerateInstances(cls, namespace=INTEROP):
            if i["Name"] == name:
                return i.path
        return None

    def add_destination(self, m, sv, url, owned, xid, name, badargs):
        mgr, mid = self.mgrs[m]
        sid = self.sids[(m, sv)]
        kw = dict(owned=owned)
        if owned:
            kw["destination_id"] = None if badargs else xid
        else:
            kw["name"] = None if badargs else name
        before = set(x["Name"] for x in mgr.get_owned_destinations(sid))
        try:
            inst = mgr.add_destination(sid, URLS[url], **kw)
            expect = "pywbemdestination:%s:%s" % (mid, xid) if owned else name
            res = "ok" if inst["Name"] == expect and \
                inst["Name"] not in before else "existing"
            code = 0
        except Exception as exc:  # noqa
            res, code = self.classify(exc)
        self.record(dict(op="add_destination", m=m, sv=sv, url=url,
                         owned=owned, xid=xid, name=name, badargs=badargs),
                    res, code, what="mgr(%r).add_destination(%s, %s)" %
                    (mid, URLS[url], kw))

    def add_filter(self, m, sv, owned, xid, name, badargs):
        mgr, mid = self.mgrs[m]
        sid = self.sids[(m, sv)]
        kw = dict(owned=owned, query_language="WQL")
        if owned:
            kw["filter_id"] = None if badargs else xid
        else:
            kw["name"] = None if badargs else name
        try:
            mgr.add_filter(sid, "root/cimv2",
                           "SELECT * FROM CIM_AlertIndication", **kw)
            res, code = "ok", 0
        except Exception as exc:  # noqa
            res, code = self.classify(exc)
        self.record(dict(op="add_filter", m=m, sv=sv, owned=owned, xid=xid,
                         name=name, badargs=badargs), res, code,
                    what="mgr(%r).add_filter(%s)" % (mid, kw))

    def add_subscription(self, m, sv, fname, dname, owned):
        mgr, mid = self.mgrs[m]
        sid = self.sids[(m, sv)]
        fp = self._paths(sv, "CIM_IndicationFilter", fname)
        dp = self._paths(sv, "CIM_ListenerDestinationCIMXML", dname)
        if fp is None or dp is None:
            return
        before = set(str(x.path) for x in mgr.get_owned_subscriptions(sid))
        try:
            insts = mgr.add_subscriptions(sid, fp, dp, owned=owned)
            res = "existing" if owned and str(insts[0].path) in before \
                else "ok"
            code = 0
            if res == "ok":
                self.sub_creator[(sv, "%s|%s" % (fname, dname))] = \
                    mid if owned else ""
        except Exception as exc:  # noqa
            res, code = self.classify(exc)
        self.record(dict(op="add_subscription", m=m, sv=sv, fname=fname,
                         dname=dname, owned=owned), res, code,
                    what="mgr(%r).add_subscriptions(%s, %s, owned=%s)" %
                    (mid, fname, dname, owned))

    def remove(self, kind, m, sv, fname="", dname=""):
        mgr, mid = self.mgrs[m]
        sid = self.sids[(m, sv)]
        try:
            if kind == "destination":
                p = self._paths(sv, "CIM_ListenerDestinationCIMXML", dname)
                if p is None:
                    return
                mgr.remove_destinations(sid, p)
            elif kind == "filter":
                p = self._paths(sv, "CIM_IndicationFilter", fname)
                if p is None:
                    return
                mgr.remove_filter(sid, p)
            else:
                sp = None
                for i in self.conns[sv].EnumerateInstances(
                        "CIM_IndicationSubscription", namespace=INTEROP):
                    if i.path["Filter"]["Name"] == fname and \
                            i.path["Handler"]["Name"] == dname:
                        sp = i.path
                if sp is None:
                    return
                mgr.remove_subscriptions(sid, sp)
            res, code = "ok", 0
        except Exception as exc:  # noqa
            res, code = self.classify(exc)
        self.record(dict(op="remove_" + kind, m=m, sv=sv, fname=fname,
                         dname=dname), res, code,
                    what="mgr(%r).remove_%s(%s %s)" % (mid, kind, fname, dname))

    def remove_server(self, m, sv):
        mgr, mid = self.mgrs[m]
        sid = self.sids[(m, sv)]
        try:
            mgr.remove_server(sid)
            del self.sids[(m, sv)]
            res, code = "ok", 0
        except Exception as exc:  # noqa
            res, code = self.classify(exc)
        self.record(dict(op="remove_server", m=m, sv=sv), res, code,
                    what="mgr(%r).remove_server(server %d)" % (mid, sv))

    def remove_all(self, m, via_exit):
        mgr, mid = self.mgrs[m]
        try:
            if via_exit == "raise":
                # the with-block is left through an exception of its body:
                # the clean-up must happen all the same and the body's
                # exception must come out
                class _Body(Exception):
                    pass
                try:
                    with mgr:
                        raise _Body()
                except _Body:
                    pass
            elif via_exit:
                with mgr:
                    pass
            else:
                mgr.remove_all_servers()
            for key in [k for k in self.sids if k[0] == m]:
                del self.sids[key]
            res, code = "ok", 0
        except Exception as exc:  # noqa
            res, code = self.classify(exc)
        self.record(dict(op="remove_all_servers", m=m), res, code,
                    what="mgr(%r) %s" % (mid, "context exit" if via_exit
                                         else "remove_all_servers()") +
                    (" through an exception of the with body"
                     if via_exit == "raise" else ""))

    def foreign(self, sv, kind, name, url):
        conn = self.conns[sv]
        cls = "CIM_ListenerDestinationCIMXML" if kind == "d" \
            else "CIM_IndicationFilter"
        inst = pywbem.CIMInstance(cls)
        inst["CreationClassName"] = cls
        inst["SystemCreationClassName"] = "CIM_ComputerSystem"
        inst["SystemName"] = "static"
        inst["Name"] = name
        if kind == "d":
            inst["Destination"] = URLS[url]
            inst["PersistenceType"] = pywbem.Uint16(2)
        else:
            inst["Query"] = "SELECT * FROM CIM_AlertIndication"
            inst["QueryLanguage"] = "WQL"
            inst["SourceNamespaces"] = ["root/cimv2"]
        try:
            conn.CreateInstance(inst, namespace=INTEROP)
        except CIMError:
            return
        self.record(dict(op="foreign_create", sv=sv, kind=kind, name=name,
                         url=url if kind == "d" else ""), "ok",
                    what="foreign CreateInstance %s %s" % (cls, name))


def run_history(rng, nops):
    nsv = rng.choice([1, 1, 2])
    w = World(rng, nsv)
    # related IDs so that the regex readings matter
    pool = rng.sample(IDS, 3)
    if rng.random() < 0.7:
        rel = rng.choice(["a.c", "ab", "abcd", "abc*", ".*", "[abc]", "ABC"])
        third = [i for i in pool if i not in ("abc", rel)]
        pool = ["abc", rel, third[0]]
    nm = rng.randint(1, 3)
    for m in range(1, nm + 1):
        w.new_manager(m, pool[m - 1])
        for sv in range(1, nsv + 1):
            if rng.random() < 0.85:
                w.add_server(m, sv)
    for _ in range(nops):
        regs = sorted(w.sids)
        x = rng.random()
        if not regs or x < 0.06:
            m = rng.randint(1, nm)
            if m not in w.mgrs:
                continue
            sv = rng.randint(1, nsv)
            if (m, sv) not in w.sids:
                w.add_server(m, sv)
            continue
        m, sv = rng.choice(regs)
        mid = w.mgrs[m][1]
        content = {c["sv"]: c for c in w.content()}[sv]
        own_d = [n for n in content["d"]
                 if n.startswith("pywbemdestination:%s:" % mid)]
        own_f = [n for n in content["f"]
                 if n.startswith("pywbemfilter:%s:" % mid)]
        perm_d = [n for n in content["d"] if not n.startswith("pywbem")]
        perm_f = [n for n in content["f"] if not n.startswith("pywbem")]
        if x < 0.22:
            owned = rng.random() < 0.7
            w.add_destination(m, sv, rng.choice(["u1", "u2"]), owned,
                              rng.choice(["d1", "d2"]),
                              "perm-d%d" % rng.randint(1, 2),
                              rng.random() < 0.05)
        elif x < 0.38:
            owned = rng.random() < 0.7
            w.add_filter(m, sv, owned, rng.choice(["f1", "f2"]),
                         "perm-f%d" % rng.randint(1, 2), rng.random() < 0.05)
        elif x < 0.58:
            fs, ds = own_f + perm_f, own_d + perm_d
            if fs and ds:
                w.add_subscription(m, sv, rng.choice(fs), rng.choice(ds),
                                   rng.random() < 0.65)
        elif x < 0.66:
            if own_d + perm_d:
                w.remove("destination", m, sv, dname=rng.choice(own_d + perm_d))
        elif x < 0.74:
            if own_f + perm_f:
                w.remove("filter", m, sv, fname=rng.choice(own_f + perm_f))
        elif x < 0.80:
            mine = [s for s in content["s"]
                    if w.sub_creator.get((sv, s), "") in ("", mid)]
            if mine:
                f, d = rng.choice(mine).split("|")
                w.remove("subscription", m, sv, fname=f, dname=d)
        elif x < 0.86:
            w.remove_server(m, sv)
        elif x < 0.90:
            w.remove_all(m, rng.choice([False, True, "raise"]))
        elif x < 0.96:
            # client restart: new manager object with the same ID
            w.new_manager(m, mid)
            for s2 in range(1, nsv + 1):
                w.add_server(m, s2)
        else:
            w.foreign(sv, rng.choice(["d", "f"]),
                      "static-%d" % rng.randint(1, 3), "u1")
    return w


def directed_histories(rng):
    """Fixed histories that every run exercises (regex-like IDs next to the ID
    they would match; an owned subscription between permanent ends followed by
    a client restart - the listed known finding)."""
    out = []
    for other in ("a.c", "abc*", ".*", "[abc]", "a(c", "ab"):
        w = World(rng, 1)
        w.new_manager(1, "abc")
        w.add_server(1, 1)
        w.add_destination(1, 1, "u1", True, "d1", "", False)
        w.add_filter(1, 1, True, "f1", "", False)
        w.add_subscription(1, 1, "pywbemfilter:abc:f1",
                           "pywbemdestination:abc:d1", True)
        w.new_manager(2, other)
        w.add_server(2, 1)
        if (2, 1) in w.sids:
            w.add_filter(2, 1, True, "f1", "", False)
            w.remove_server(2, 1)
        w.new_manager(1, "abc")          # restart of the first client
        w.add_server(1, 1)
        w.remove_all(1, True if other != "ab" else "raise")
        out.append(w)
    w = World(rng, 1)
    w.new_manager(1, "abc")
    w.add_server(1, 1)
    w.add_destination(1, 1, "u1", False, "", "perm-d1", False)
    w.add_filter(1, 1, False, "", "perm-f1", False)
    w.add_subscription(1, 1, "perm-f1", "perm-d1", True)
    w.new_manager(1, "abc")
    w.add_server(1, 1)
    out.append(w)
    return out


def signature(ev, clauses, w, i=None):
    creator = w.creator_at[i] if i is not None and i < len(w.creator_at) \
        else w.sub_creator
    s = "%s:%s" % (ev["op"], "+".join(sorted(clauses)))
    if ev["res"] not in ("ok", "existing"):
        s += ":" + ev["res"]
    if ev["op"] == "add_server" and clauses == ["OwnedLists.Subscriptions"]:
        # which owned subscriptions were not rediscovered?
        mid = ev["id"]
        listed = set()
        for o in ev["owned_lists"]:
            if o["m"] == ev["m"] and o["sv"] == ev["sv"]:
                listed = set(o["s"])
        missing = [k[1] for k, c in creator.items()
                   if k[0] == ev["sv"] and c == mid and k[1] not in listed]
        pre = ("pywbemfilter:%s:" % mid, "pywbemdestination:%s:" % mid)
        if missing and all(not m.split("|")[0].startswith(pre[0]) and
                           not m.split("|")[1].startswith(pre[1])
                           for m in missing) and not \
                (listed - set(k[1] for k, c in creator.items()
                              if c == mid)):
            s += ":owned-subscription-between-unowned-filter-and-destination"
    return s


def run(ctx):
    quick = ctx.tier == "quick"
    ctx.tlc("SubMgrOwn", "SubMgrOwn.cfg",
            label="escaped discovery pattern == ID equality, all ID pairs up "
            "to length 3 over {a,b,dot,star,paren}, two managers")
    sens = []
    for cfg, what in (("SubMgrOwnLegacy.cfg", "unescaped ID: add_server "
                       "crashes on non-compilable IDs"),
                      ("SubMgrOwnLegacyIso.cfg", "unescaped ID: a manager "
                       "adopts another manager's instances")):
        r = ctx.tlc("SubMgrOwn", cfg, must_pass=False, count=False,
                    label="must fail: " + what)
        if r.violated is None:
            raise vlib.MachineryError("%s did not fail" % cfg)
        sens.append("%s violates %s as required (%s)" % (cfg, r.violated, what))
    ctx.extra["sensitivity"] = sens
    nh = 120 if quick else 2500
    worlds = directed_histories(ctx.rng)
    worlds += [run_history(ctx.rng, ctx.rng.randint(6, 22)) for _ in range(nh)]
    verdicts = ctx.validate_traces("SubMgrTrace", "SubMgrTrace.cfg",
                                   [w.events for w in worlds])
    ops = {}
    for w in worlds:
        for e in w.events:
            k = e["op"] + ("" if e["res"] in ("ok", "existing")
                           else ":" + e["res"])
            ops[k] = ops.get(k, 0) + 1
    ctx.actions_bound = ops
    for w, v in zip(worlds, verdicts):
        if v["ok"]:
            continue
        i = v["at"] - 1
        ev = w.events[i]
        ctx.report(signature(ev, v["clauses"], w, i),
                   "%s -> %s%s violates %s (manager IDs %s)" % (
                       w.info[i], ev["res"], ev["code"] or "",
                       ", ".join(v["clauses"]),
                       sorted(x[1] for x in w.mgrs.values())),
                   {"history": w.info[:i + 1], "event": ev,
                    "clauses": v["clauses"]})
    for w in worlds[:2]:
        ctx.sample({"history": w.info[:10],
                    "last_content": w.events[-1]["content"] if w.events
                    else None})
    ctx.assumptions += [
        "server = tests' WbemServerMock + pywbem_mock subscription providers "
        "(deep-copied per history)",
        "a manager only subscribes its own or permanent filters/destinations "
        "(cross-manager subscriptions are not generated)",
        "client restart replaces the manager object; stale manager objects "
        "are not observed",
        "listener URLs: two fixed forms (http with port, https with port)",
    ]


def replay(rep):
    print(rep["what"])
    for h in rep["case"]["history"]:
        print("  ", h)
    return 0
