"""
X02 (extension) - lifecycle of pywbem.WBEMListener beyond C16: start() that
fails (port in use, unusable certificate), start() twice, stop() twice /
without start, restart, context manager, add_callback while indications are
being delivered, the read-only properties and the logger in every state.

Spec:   ListenerLifeReq.tla   requirement machine (event style); its header
                              lists the clauses with their documentation source
        ListenerLife.tla      PlusCal design model: the main thread runs every
                              program of API calls, beside the callback thread
                              and the senders/handlers of Listener.tla; every
                              observable step is judged by the requirement
                              machine on the fly (invariants StartFailHolds /
                              OtherHolds), MainTerminates under fairness
        ListenerLifeImplOps   sequential code-shaped prediction (drift only)
        ListenerLifeTrace     trace validation (TraceKit)
Binding: the REAL listener under harness/sched.py's serialising scheduler
        (harness/listenerlife_h.py extends it: one in-process server per port,
        EADDRINUSE from make_server, real ssl on a real certificate file that
        the environment swaps); programs + thread orders come from TLC
        simulation of ListenerLife.tla and from seeded random / PCT choosers;
        a second tier runs sequential programs on real loopback sockets (real
        bind conflicts, real TLS).  Every recorded event is judged by TLC.
"""
import copy
import json
import os
import random
import re
import shutil

import vlib
import listenerlife_h as H

PORTS = {"http": 50999, "https": 50998}


def cfg_name(ports):
    return "both" if len(ports) == 2 else list(ports)[0]


# -- programs ------------------------------------------------------------------

def concretise(rng, ops, ports):
    """Abstract program (start/stop/add_callback from TLC or the random
    generator) -> concrete program: stop is stop() or __exit__(), reads of the
    properties and __enter__() are sprinkled in (they must change nothing)."""
    prog = []
    for o in ops:
        if rng.random() < 0.25:
            prog.append(dict(op=rng.choice(["enter", "props"])))
        o = dict(o)
        if o["op"] == "stop" and rng.random() < 0.4:
            o["op"] = "exit"
        if o["op"] == "start":
            env = dict(H.NOENV)
            env.update(o.get("env") or {})
            # an environment flag for a port that is not configured is void
            for name in ("http", "https"):
                if name not in ports:
                    env["busy_" + name] = False
            if "https" not in ports:
                env["bad_cert"] = False
            o["env"] = env
        prog.append(o)
    if not prog or prog[-1]["op"] not in ("stop", "exit"):
        prog.append(dict(op=rng.choice(["stop", "exit"])))
    return prog


def random_ops(rng, ports, quiet):
    """quiet: avoid the environments that run into the known deviations of the
    pinned tree, so that the rest of the lifecycle is judged to the end."""
    envs = [dict()] * 3
    if "http" in ports:
        envs.append(dict(busy_http=True))
    if "https" in ports:
        if not (quiet and "http" in ports):
            envs.append(dict(busy_https=True))
        if not quiet:
            envs.append(dict(bad_cert=True))
            envs.append(dict(bad_cert=True, busy_https=rng.random() < 0.3,
                             busy_http=rng.random() < 0.2))
    ops = []
    running = False         # as far as the generator can tell
    for _ in range(rng.randint(2, 7)):
        r = rng.random()
        if r < (0.08 if running else 0.6):
            env = rng.choice(envs)
            ops.append(dict(op="start", env=env))
            running = running or not env
        elif r < (0.55 if running else 0.75):
            ops.append(dict(op="stop"))
            running = False
        else:
            ops.append(dict(op="add_callback", c=rng.randint(1, 3)))
    return ops


def run_controlled(rseed, ports, prog, chooser_kind, order=None, senders=None,
                   nind=2, maxq=1, init_cbs=(1,), slow=1, raising=0,
                   str_ports=False, workdir=None):
    rng = random.Random(rseed + 1)          # the chooser's
    senders = senders if senders is not None else {"s1": "http", "s2": "https"}
    sc = H.LifeScenario(ports, prog, senders, nind, maxq, list(init_cbs),
                        workdir, random.Random(rseed), slow_steps=slow,
                        raising_cb=raising, str_ports=str_ports)
    if chooser_kind == "guided":
        ch = H.GuidedChooser(rng, order or [])
    elif chooser_kind == "replay":
        ch = H.ReplayChooser(rng, order or [])
    elif chooser_kind == "pct":
        ch = H.PctChooser(rng)
    else:
        ch = lambda rd, s: rng.choice(rd)  # noqa
    outcome = sc.run(ch)
    return dict(
        params=dict(rseed=rseed, ports=ports, prog=prog, senders=senders,
                    nind=nind, maxq=maxq, init_cbs=list(init_cbs), slow=slow,
                    raising=raising, str_ports=str_ports),
        chooser=chooser_kind, outcome=outcome,
        events=H.norm(sc.sched.events), schedule=sc.sched.trace)


# -- TLC behaviours -> programs + thread orders --------------------------------

_RE_ACT = re.compile(r'^\\\* <(\w+)(?:\("?([^")]*)"?\))? line')


def simulate_programs(ctx, cfg, num, depth, label):
    d = os.path.join(ctx.work, "lifesim%d" % (ctx._tlc_n + 1))
    shutil.rmtree(d, ignore_errors=True)
    os.makedirs(d)
    ctx.tlc("ListenerLife", cfg, workers=1,
            simulate="file=%s/tr,num=%d" % (d, num), depth=depth,
            extra=["-seed", str(ctx.seed)], label=label, timeout=600)
    out = []
    for fn in sorted(os.listdir(d)):
        with open(os.path.join(d, fn)) as f:
            txt = f.read()
        ops, order = [], []
        for block in txt.split("\n\n"):
            m = None
            for line in block.splitlines():
                m = _RE_ACT.match(line)
                if m:
                    break
            if not m or m.group(1) == "Init":
                continue
            name, arg = m.group(1), m.group(2) or ""
            if arg in ("s1", "s2"):
                order.append(arg)
            elif name[0] == "C":
                order.append("cb")
            else:
                order.append("main")
            if name == "MB":
                op = re.search(r'/\\ op = "(\w+)"', block).group(1)
                carg = int(re.search(r"/\\ carg = (\d+)", block).group(1))
                j = block.index("/\\ env = ") + len("/\\ env = ")
                env = vlib.parse_tla_value(block, j)
                ops.append(dict(op=op, c=carg, env=env))
        out.append((ops, order))
    shutil.rmtree(d, ignore_errors=True)
    return out


# -- real-socket programs --------------------------------------------------------

def real_program(rng, ports, quiet):
    ops = random_ops(rng, ports, quiet)
    prog = []
    for o in concretise(rng, ops, ports):
        prog.append(o)
        if rng.random() < 0.6:
            prog.append(dict(op="send", via=rng.choice(sorted(ports))))
    return prog


# -- verdicts -----------------------------------------------------------------------

def signature(run, ev, clauses):
    cl = "+".join(sorted(clauses))
    if ev["ev"] == "ret":
        s = "ret:%s:%s:%s" % (ev["op"], cfg_name(run["params"]["ports"]), cl)
        if ev["op"] == "start" or ev["exc"]:
            s += ":" + ev["exc"]
        return s
    if ev["ev"] == "resp":
        return "resp:%s:%s" % (ev["kind"], cl)
    return "%s:%s" % (ev["ev"], cl)


def brief(ev):
    return {k: v for k, v in ev.items()
            if k == "ev" or v not in ("", 0, False, -1, "none", True)}


def must_fail(ctx, cfg, inv, clause, what, sens):
    r = ctx.tlc("ListenerLife", cfg, must_pass=False, count=False,
                label="must fail: " + what)
    if r.violated != inv:
        raise vlib.MachineryError("%s: expected %s to be violated, got %s\n%s"
                                  % (cfg, inv, r.violated, r.out[-2000:]))
    bad = re.findall(r"bad \|-> \{([^}]*)\}", r.out)
    if not bad or clause not in bad[-1]:
        raise vlib.MachineryError("%s: clause %s not in the counterexample "
                                  "(%s)" % (cfg, clause, bad[-1:] or ""))
    sens.append("%s refuted by TLC: %s, clauses {%s} (%s)" %
                (cfg, inv, bad[-1], what))


def canned_trace():
    snap0 = dict(http_port=50999, https_port=-1)
    up = dict(snap0, http_started=True, up_http=True, cb_threads=1,
              srv_threads=1, open_srv=1)
    evs = [dict(ev="init", arg_http=50999, arg_https=-1, **snap0),
           dict(ev="begin", op="add_callback", c=1),
           dict(ev="ret", op="add_callback", c=1, **snap0),
           dict(ev="begin", op="start"), dict(ev="ret", op="start", **up),
           dict(ev="req", s="s1", n=1),
           dict(ev="resp", s="s1", n=1, kind="ok"),
           dict(ev="deliver", c=1, s="s1", n=1, th=1),
           dict(ev="begin", op="stop"), dict(ev="ret", op="stop", **snap0),
           dict(ev="end", outcome="done")]
    return H.norm(evs)


def self_test(ctx, runs, verdicts):
    """The binding must bite: corrupt single fields of an accepted recorded
    execution and require TLC to reject each corrupted trace."""
    base = None
    for r, v in zip(runs, verdicts):
        evs = r["events"]
        # an accepted execution in which callback 1 is registered before the
        # first start, nothing raised (so the contract was never left and no
        # indication is exempt), callback 1 got a delivery, and a stop follows
        if v["ok"] and not any(e["exc"] for e in evs) and \
                len(evs) > 3 and evs[1]["op"] == "add_callback" and \
                evs[1]["c"] == 1 and \
                any(e["ev"] == "deliver" and e["c"] == 1 for e in evs) and \
                any(e["ev"] == "ret" and e["op"] in ("stop", "exit")
                    for e in evs):
            base = evs
            break
    if base is None:
        # (a tree on which no execution is accepted: the deviations are
        # reported anyway; the self test then works on a canned execution)
        base = canned_trace()
        ok = ctx.validate_traces("ListenerLifeTrace", "ListenerLifeTrace.cfg",
                                 [base], label="self test: canned trace")[0]
        ctx.traces -= 1
        ctx.events -= len(base)
        if not ok["ok"]:
            raise vlib.MachineryError("self test: canned trace rejected: %s"
                                      % ok)
    last_stop = max(i for i, e in enumerate(base)
                    if e["ev"] == "ret" and e["op"] in ("stop", "exit"))
    first_del = min(i for i, e in enumerate(base)
                    if e["ev"] == "deliver" and e["c"] == 1)
    t1 = copy.deepcopy(base)
    t1[last_stop]["cb_threads"] = 1
    t2 = copy.deepcopy(base)
    del t2[first_del]
    t3 = copy.deepcopy(base)
    t3[last_stop]["http_port"] = 1
    t3[last_stop]["consts_ok"] = False
    t4 = copy.deepcopy(base)
    t4.insert(last_stop + 1, dict(base[first_del]))
    want = ["Stop.ThreadsStopped", None, "Props.PortsAsConfigured", None]
    vs = ctx.validate_traces("ListenerLifeTrace", "ListenerLifeTrace.cfg",
                             [t1, t2, t3, t4],
                             label="self test: corrupted recorded traces")
    ctx.traces -= 4
    ctx.events -= sum(len(t) for t in (t1, t2, t3, t4))
    res = []
    for i, (v, w) in enumerate(zip(vs, want)):
        if v["ok"] or (w and w not in v["clauses"]):
            raise vlib.MachineryError(
                "self test %d: corrupted trace not rejected as expected: %s"
                % (i + 1, v))
        res.append("+".join(v["clauses"]))
    ctx.extra["self_test"] = (
        "4 single-field corruptions of an accepted execution (thread count "
        "after stop, one delivery removed, port property, one delivery "
        "repeated after stop) rejected by TLC with " + "; ".join(res))


def collect_drift(ctx, runs):
    for fn in sorted(os.listdir(ctx.work)):
        if not re.match(r"tlc\d+\.out$", fn):
            continue
        with open(os.path.join(ctx.work, fn)) as f:
            txt = f.read()
        if "ListenerLifeTrace" not in txt[:2000]:
            continue
        for m in re.finditer(r'<<"D", (\d+), (\d+), (\{[^}]*\})>>', txt):
            ctx.note_drift("real listener differs from the sequential "
                           "code-shaped prediction: %s" % m.group(3))


def observed_table(runs):
    """What the code does where the documentation is silent (evidence only)."""
    tab = {}
    for r in runs:
        running = False
        for e in r["events"]:
            if e["ev"] != "ret":
                continue
            if e["op"] == "start":
                k = "start() on a %s listener -> %s" % (
                    "RUNNING" if running else "stopped", e["exc"] or "returns")
                if running:
                    tab[k] = tab.get(k, 0) + 1
                if not e["exc"]:
                    running = True
                elif not running:
                    running = False
            elif e["op"] in ("stop", "exit"):
                running = False
    return tab


def run(ctx):
    import logging
    logging.disable(logging.CRITICAL)
    quick = ctx.tier == "quick"
    work = ctx.work

    # ---- TLC: the design model against the requirement -----------------------
    ctx.tlc("ListenerLife", "ListenerLife.cfg", coverage=False,
            label="pinned code shape, HTTP only: all programs of 3 start(env)/"
            "stop calls + stop x all interleavings (1 sender x 2 indications, "
            "queue bound 1): requirement + termination")
    ctx.tlc("ListenerLife", "ListenerLifeAddCb.cfg",
            label="pinned code shape, HTTP only: add_callback (new/duplicate) "
            "anywhere in programs of 2 calls + stop, also while delivering")
    ctx.tlc("ListenerLife", "ListenerLifeHttps.cfg",
            label="pinned code shape, HTTPS only (port in use / free)")
    ctx.tlc("ListenerLife", "ListenerLifeBothFixed.cfg",
            label="repaired start() (X02_fix_start_cleanup.diff), HTTP+HTTPS, "
            "all four environments")
    ctx.exhaustive = True
    sens = []
    must_fail(ctx, "ListenerLifeAsIsHttpsBusy.cfg", "StartFailHolds",
              "StartFail.ListenerThreadsCleanedUp",
              "PINNED TREE: HTTPS port in use leaves the HTTP server running",
              sens)
    must_fail(ctx, "ListenerLifeAsIsCert.cfg", "StartFailHolds",
              "StartFail.PortsFreed",
              "PINNED TREE: certificate failure leaves the HTTPS socket bound",
              sens)
    must_fail(ctx, "ListenerLifeAsIsRace.cfg", "StartFailHolds",
              "StartFail.DocumentedException",
              "PINNED TREE: discard loop races with the callback thread, "
              "start() raises queue.Empty", sens)
    must_fail(ctx, "ListenerLifeNoGuard.cfg", "OtherHolds", "Stop.NoException",
              "regression: stop() without the server guards", sens)
    must_fail(ctx, "ListenerLifeNoDupCheck.cfg", "OtherHolds",
              "Deliver.NeverTwice",
              "regression: add_callback() without duplicate check", sens)
    must_fail(ctx, "ListenerLifeLegacyFail.cfg", "StartFailHolds",
              "StartFail.CallbackThreadCleanedUp",
              "regression: start() without the outer cleanup handler", sens)
    ctx.extra["sensitivity"] = sens
    if not quick:
        ctx.tlc("ListenerLife", "ListenerLifeMid.cfg", timeout=3000,
                label="pinned code shape, HTTP only, programs of 3 calls "
                "including add_callback")
        ctx.tlc("ListenerLife", "ListenerLifeBig.cfg", timeout=3000,
                label="pinned code shape, HTTP only, 2 senders")
        ctx.tlc("ListenerLife", "ListenerLifeBothFixedBig.cfg", timeout=3000,
                label="repaired start(), HTTP+HTTPS, 2 senders")
    ctx.extra["constants"] = {
        "ListenerLife.cfg": "Cfg={http} Envs={free, http busy} Senders={s1} "
        "NInd=2 MaxQ=1 MaxOps=3 InitCbs=<<1>> AddCbs={}",
        "ListenerLifeAddCb.cfg": "as before with MaxOps=2 AddCbs={1,2}",
        "ListenerLifeHttps.cfg": "Cfg={https} Envs={free, https busy} "
        "Senders={s2} NInd=1 MaxOps=2 AddCbs={1}",
        "ListenerLifeBothFixed.cfg": "Cfg={http,https} Envs={free, http "
        "busy, https busy, bad cert} Senders={s1} NInd=2 MaxOps=2",
    }

    # ---- spec -> code: TLC behaviours as programs + schedules ----------------
    runs = []
    nsim = 25 if quick else 200
    for cfg, ports in (("ListenerLifeSim.cfg", PORTS),
                       ("ListenerLifeSimHttp.cfg", {"http": PORTS["http"]})):
        behs = simulate_programs(ctx, cfg, nsim, 160,
                                 "programs and schedules from TLC behaviours")
        for ops, order in behs:
            rseed = ctx.rng.randrange(2 ** 30)
            prog = concretise(random.Random(rseed), ops, ports)
            senders = {"s1": "http", "s2": "https" if "https" in ports
                       else "http"}
            runs.append(run_controlled(
                rseed, ports, prog, "guided", order, senders=senders,
                nind=2, maxq=1, workdir=work,
                str_ports=ctx.rng.random() < 0.3))
    ctx.extra["tlc_behaviours_replayed"] = len(runs)

    # ---- code -> spec: seeded random histories under the scheduler -----------
    nrand = 220 if quick else 2500
    for i in range(nrand):
        rseed = ctx.rng.randrange(2 ** 30)
        rng = random.Random(rseed)
        ports = rng.choice([{"http": PORTS["http"]}, {"https": PORTS["https"]},
                            dict(PORTS), dict(PORTS)])
        prog = concretise(rng, random_ops(rng, ports, rng.random() < 0.6),
                          ports)
        names = sorted(ports)
        senders = {"s%d" % (k + 1): rng.choice(names)
                   for k in range(rng.randint(1, 3))}
        runs.append(run_controlled(
            rseed, ports, prog, "pct" if i % 2 else "random", senders=senders,
            nind=rng.randint(1, 3), maxq=rng.choice([0, 0, 1, 2]),
            init_cbs=rng.choice([(1,), (1, 2), ()]),
            slow=rng.choice([1, 1, 2, 3]),
            raising=rng.choice([0, 0, 1, 2]), workdir=work,
            str_ports=rng.random() < 0.3))
    # the race of the discard loop needs indications while the certificate
    # fails: a directed family (random schedules)
    for i in range(40 if quick else 300):
        rseed = ctx.rng.randrange(2 ** 30)
        prog = [dict(op="start", env=dict(H.NOENV, bad_cert=True)),
                dict(op="start", env=dict(H.NOENV)), dict(op="stop")]
        runs.append(run_controlled(
            rseed, dict(PORTS), prog, "pct" if i % 2 else "random",
            senders={"s1": "http"}, nind=2, maxq=0, workdir=work))
    mach = [r for r in runs if str(r["outcome"]).startswith("machinery")]
    if mach:
        raise vlib.MachineryError("scheduler failure: %s" % mach[0]["outcome"])

    # ---- real sockets, OS scheduling ------------------------------------------
    nreal = 8 if quick else 40
    tries = 0
    done = 0
    while done < nreal and tries < nreal * 3:
        tries += 1
        rseed = ctx.rng.randrange(2 ** 30)
        rng = random.Random(rseed)
        ports = rng.choice([["http"], ["https"], ["http", "https"]])
        prog = real_program(rng, ports, rng.random() < 0.5)
        evs = H.run_real(prog, ports, [1], work, rng)
        # a loopback port taken by another process between probing and use is
        # the machinery's problem, not the listener's
        # (after a certificate failure the listener's own unclosed socket
        # can be what holds the port: that is the listener's problem)
        spurious = leak = False
        for e in evs:
            if e["ev"] == "ret" and e["op"] == "start":
                if e["exc"] == "ListenerPortError" and not leak and \
                        not (e["busy_http"] or e["busy_https"]):
                    spurious = True
                leak = leak or e["exc"] == "ListenerCertificateError"
        if spurious:
            continue
        done += 1
        runs.append(dict(params=dict(rseed=rseed, ports={p: 0 for p in ports},
                                     prog=prog),
                         chooser="os", outcome="done", events=evs,
                         schedule=[]))
    if done < nreal:
        raise vlib.MachineryError("no free loopback ports for the real tier")

    # ---- TLC judges every recorded execution ------------------------------------
    verdicts = ctx.validate_traces("ListenerLifeTrace", "ListenerLifeTrace.cfg",
                                   [r["events"] for r in runs])
    collect_drift(ctx, runs)

    kinds, evcount, steps, full = {}, {}, 0, 0
    for r, v in zip(runs, verdicts):
        kinds[r["chooser"]] = kinds.get(r["chooser"], 0) + 1
        steps += len(r["schedule"])
        full += 1 if v["ok"] else 0
        for e in r["events"]:
            k = e["ev"]
            if e["ev"] in ("begin", "ret"):
                k += ":" + e["op"]
                if e["ev"] == "ret" and e["exc"]:
                    k += ":" + e["exc"]
            elif e["ev"] == "resp":
                k += ":" + e["kind"]
            evcount[k] = evcount.get(k, 0) + 1
    ctx.actions_bound = evcount
    ctx.extra["executions_by_scheduler"] = kinds
    ctx.extra["scheduling_points_granted"] = steps
    ctx.extra["executions_judged_to_the_end"] = full
    ctx.extra["observed_outside_the_contract"] = observed_table(runs)

    for r, v in zip(runs, verdicts):
        if v["ok"]:
            continue
        ev = r["events"][v["at"] - 1]
        ctx.report(signature(r, ev, v["clauses"]),
                   "event %s violates %s (scheduler %s, ports %s, program %s)"
                   % (brief(ev), ", ".join(v["clauses"]), r["chooser"],
                      sorted(r["params"]["ports"]),
                      [(s["op"],) + tuple(k for k, x in
                                          (s.get("env") or {}).items() if x)
                       for s in r["params"]["prog"]]),
                   {"params": r["params"], "chooser": r["chooser"],
                    "schedule": r["schedule"],
                    "events": r["events"][:v["at"]], "clauses": v["clauses"]})
    self_test(ctx, runs, verdicts)
    for r in runs[:1] + runs[-1:]:
        ctx.sample({"params": r["params"], "chooser": r["chooser"],
                    "schedule_prefix": r["schedule"][:25],
                    "events": [brief(e) for e in r["events"][:14]]})
    ctx.assumptions += [
        "controlled tier: the code between two scheduling points (queue "
        "operations, reads/writes of self._ind_queue, stop event, sleep, "
        "thread start/join, make_server, server shutdown/close, callback "
        "entry) is atomic with respect to the other listener threads",
        "controlled tier: the HTTP servers are in-process stand-ins (bind "
        "conflicts are injected as OSError(EADDRINUSE) from make_server; "
        "server_close() waits for active handlers like ThreadingMixIn); real "
        "sockets, real bind conflicts and real TLS only in the OS-scheduled "
        "tier, which runs sequential programs",
        "start() on a running listener is outside the documented contract: "
        "nothing is demanded afterwards (what the code does is recorded under "
        "observed_outside_the_contract and followed by the drift machine)",
        "a trace that runs into a known deviation is judged only up to that "
        "event (total verdicts stop at the first rejected event)",
        "ListenerPromptError (password prompt) and non-EADDRINUSE bind errors "
        "are not generated; port 0 is not used",
    ]


def replay(rep):
    case = rep["case"]
    if case.get("chooser") == "os" or not case.get("schedule"):
        print("OS-scheduled execution: not replayable deterministically")
        return 0
    p = case["params"]
    ctx = vlib.Ctx(rep["property"] + "_replay", "quick", 0)
    import logging
    logging.disable(logging.CRITICAL)
    r = run_controlled(p["rseed"], p["ports"], p["prog"], "replay",
                       [t for t, _ in case["schedule"]], senders=p["senders"],
                       nind=p["nind"], maxq=p["maxq"], init_cbs=p["init_cbs"],
                       slow=p["slow"], raising=p["raising"],
                       str_ports=p["str_ports"], workdir=ctx.work)
    v = ctx.validate_traces("ListenerLifeTrace", "ListenerLifeTrace.cfg",
                            [r["events"]])[0]
    print("verdict:", v)
    if not v["ok"]:
        print("EXT-DEVIATION ext=%s replay=(reproduced) %s" %
              (rep["property"], v["clauses"]))
        return 1
    return 0
