"""
C06 - CIM data types hold only representable values and print/parse
losslessly.

Spec:   CimTypesInt.tla      <<anchor, delta>> numbers, Accept(type, v), the
                             decision table Store(container, declared type,
                             value class, value): requirement StoreFails and
                             the code-shaped ImplStore (CIMInt.__new__,
                             cimvalue, _infer_type, value setters)
        CimTypesIntMC.tla    TLC: ImplStore is admissible for EVERY cell; the
                             pinned-tree / regression variants must fail
        CimTypesDateTime.tla abstract value [kind, fields, offset, precision],
                             Str (25 symbols) and Parse transcribed from
                             CIMDateTime; requirement DtFails
        CimTypesDateTimeMC   TLC: Len(Str(x)) = 25 and Parse(Str(x)) = x over
                             the field boundary classes x offsets x legal
                             precisions; the law is closed under single-symbol
                             mutations; copy keeps the value; a datetime
                             object prints as its DSP0004 string under every
                             tzinfo carrier class (CtorHolds)
        CimTypesReal.tla     class table + DSP0201 spelling; requirement
        CimTypesTrace.tla    TraceKit: one observed vector per trace
Binding: TLC writes the table cells / abstract datetime values / mutated
        strings as JSON; every one is run on the real code (several
        construction routes, lexical freedom randomised), observations are
        projected to vectors and judged by TLC.  Seeded random vectors extend
        the grid.  Reals: concrete floats per spec-named class.
"""
import glob
import json
import os
import random
import re

import vlib
import cimtypes_h as H

INT_REGRESSIONS = (
    ("CimTypesIntImplPinnedInf.cfg", "int(float('inf')) surfaces as "
     "OverflowError (pinned tree)"),
    ("CimTypesIntImplPinnedStr.cfg", "cimvalue(v, 'string') returns "
     "non-strings unchanged (pinned tree)"),
    ("CimTypesIntImplNoRange.cfg", "CIMInt without range check"),
    ("CimTypesIntImplAnyCimInt.cfg", "cimvalue returns any CIMInt unchanged"),
    ("CimTypesIntImplArrayHeadShortcut.cfg", "cimvalue returns a list "
     "unchanged when its first item already has the class of the type"),
)
DT_REGRESSIONS = (
    ("CimTypesDateTimeImplLegacyUsec.cfg", "RoundTrip ParseClosed",
     "_to_str stars the whole microsecond field"),
    ("CimTypesDateTimeImplLegacyOffset.cfg", "RoundTrip ParseClosed",
     "minutes_from_utc without the negative-offset correction"),
    ("CimTypesDateTimeImplPinnedCopy.cfg", "CopySame",
     "CIMDateTime(other) drops precision (pinned tree)"),
    ("CimTypesDateTimeImplForeignTzSeconds.cfg", "CtorHolds",
     "CIMDateTime(datetime) replaces a foreign tzinfo by "
     "MinutesFromUTC(utcoffset().seconds // 60)"),
)


# ---------------------------------------------------------------------------
def _load_dir(d, arr=False):
    items = []
    for fn in sorted(glob.glob(os.path.join(d, "*.json"))):
        if os.path.basename(fn).startswith("arr_") != arr:
            continue
        with open(fn) as f:
            items.extend(json.load(f))
    return items


def model_check(ctx, quick):
    cells_dir = os.path.join(ctx.work, "cells")
    dt_dir = os.path.join(ctx.work, "dt")
    os.makedirs(cells_dir)
    os.makedirs(dt_dir)
    ctx.tlc("CimTypesIntMC",
            "CimTypesIntImpl.cfg" if quick else "CimTypesIntImplBig.cfg",
            env={"EMIT_DIR": cells_dir},
            label="every cell of Store(container, type, value class, value):"
            " code-shaped model admissible for the requirement")
    sens = []
    for cfg, what in INT_REGRESSIONS:
        r = ctx.tlc("CimTypesIntMC", cfg, must_pass=False, count=False,
                    label="regression config: " + what)
        inv = ("ArrImplWithinReq" if "ArrayHead" in cfg else "ImplWithinReq")
        if r.violated != inv:
            raise vlib.MachineryError("%s did not violate %s: %s"
                                      % (cfg, inv, r.violated))
        sens.append("%s violates %s as required (%s)" % (cfg, inv, what))
    ctx.tlc("CimTypesDateTimeMC",
            "CimTypesDateTimeImpl.cfg" if quick
            else "CimTypesDateTimeImplBig.cfg",
            env={"EMIT_DIR": dt_dir}, timeout=3000,
            label="Len(Str(x))=25, Parse(Str(x))=x, copy, datetime objects "
            "under every tzinfo carrier class, closure under single-symbol "
            "mutations on the transcribed CIMDateTime")
    for cfg, inv, what in DT_REGRESSIONS:
        r = ctx.tlc("CimTypesDateTimeMC", cfg, must_pass=False, count=False,
                    label="regression config: " + what)
        if r.violated not in inv.split():
            raise vlib.MachineryError("%s did not violate %s: %s" %
                                      (cfg, inv, r.violated))
        sens.append("%s violates %s as required (%s)" % (cfg, inv, what))
    ctx.extra["sensitivity"] = sens
    cells = _load_dir(cells_dir)
    arrs = _load_dir(cells_dir, arr=True)
    dts = _load_dir(dt_dir)
    if not cells or not dts or not arrs:
        raise vlib.MachineryError("TLC emitted no inputs (%d cells, %d array "
                                  "cells, %d datetime items)" %
                                  (len(cells), len(arrs), len(dts)))
    with open(os.path.join(dt_dir, "carriers.tab")) as f:
        carriers = {c: set(offs) for c, offs in json.load(f).items()}
    if not any(it["cs"] for it in dts) or len(carriers) < 5:
        raise vlib.MachineryError("TLC emitted no tzinfo carrier classes")
    return cells, arrs, dts, carriers


def tables(ctx):
    empty = os.path.join(ctx.work, "empty.json")
    with open(empty, "w") as f:
        json.dump({"meta": {}, "traces": []}, f)
    r = ctx.tlc("CimTypesTrace", "CimTypesTrace.cfg", workers=1, count=False,
                env={"TABLES": "1", "TRACE_FILE": empty},
                label="class tables for the harness")
    t = r.printed("TABLE")
    if not t:
        raise vlib.MachineryError("no TABLE printed")
    return vlib.unset(t[0][1])


# ---------------------------------------------------------------------------
# signatures
_VK = (("ci:", "cimint"), ("str", "str"), ("xkw", "str"), ("bytes", "str"),
       ("badstr", "str"), ("emptystr", "str"), ("dtstr", "str"),
       ("floatstr", "str"),
       ("float", "float"), ("real", "realobj"), ("cimdatetime", "datetime"),
       ("pydatetime", "datetime"))


def store_sig(ev, clauses):
    dt = ev["dt"]
    dk = ("int" if dt in H.INT_TYPES else
          "string" if dt in ("string", "char16") else
          "real" if dt in ("real32", "real64") else dt)
    vc = ev.get("vc", "arr")
    vk = vc
    if ev["k"] == "arr":
        vk = "arr"
    elif vc == "xkw":
        vk = "int"
    else:
        for pre, name in _VK:
            if vc.startswith(pre):
                vk = name
                break
    return "store:%s:%s:%s:%s" % ("+".join(clauses), dk, vk,
                                  ev["out"] if ev["out"] != "stored"
                                  else "stored")


def dt_sig(ev, clauses):
    src = ev["want"] if ev["route"] == "copy" and ev["haswant"] else ev["obs"]
    return "dt:%s:%s:%s:prec=%s" % (
        "+".join(clauses), ev["route"], ev["obs"]["kind"],
        "none" if src["prec"] < 0 else "set")


def real_sig(ev, clauses):
    return "real:%s:%s:%s%s" % ("+".join(clauses), ev["t"], ev["cls"],
                                ":keybinding" if ev["route"] == "keybinding"
                                else "")


SIG = {"store": store_sig, "arr": store_sig, "dt": dt_sig, "real": real_sig}


# ---------------------------------------------------------------------------
def judge(ctx, vectors, label):
    """vectors: list of (event, description, recipe). TLC decides."""
    if not vectors:
        return
    verdicts = ctx.validate_traces(
        "CimTypesTrace", "CimTypesTrace.cfg", [[v[0]] for v in vectors],
        label=label, chunk=30000, timeout=3000)
    for (ev, desc, recipe), v in zip(vectors, verdicts):
        if v["ok"]:
            continue
        sig = SIG[ev["k"]](ev, v["clauses"])
        ctx.report(sig, "%s: %s" % (desc[:300], ", ".join(v["clauses"])),
                   {"recipe": recipe, "vector": ev, "clauses": v["clauses"],
                    "description": desc})


def collect_drift(ctx):
    seen = {}
    for f in glob.glob(os.path.join(ctx.work, "tlc*.out")):
        with open(f) as fh:
            txt = fh.read()
        for m in re.finditer(r'<<"D", \d+, \d+, (\{[^}]*\})>>', txt):
            for item in re.findall(r'"([^"]*)"', m.group(1)):
                key = re.sub(r"(->|:)(u|s)int\d+$", r"\1intN", item)
                seen[key] = seen.get(key, 0) + 1
    for key, n in sorted(seen.items()):
        ctx.note_drift("real code differs from the code-shaped model: %s" %
                       key, {"vectors": n})
        ctx.drift[-1]["count"] = n


# ---------------------------------------------------------------------------
def store_vectors(ctx, cells, nrandom, arrs=()):
    vecs = []
    for cell in cells:
        ev, desc = H.run_store_cell(ctx.rng, cell)
        vecs.append((ev, desc, {"kind": "store", "cell": cell}))
    for _ in range(nrandom):
        cell = H.random_store_cell(ctx.rng)
        ev, desc = H.run_store_cell(ctx.rng, cell)
        vecs.append((ev, desc, {"kind": "store", "cell": cell}))
    for cell in arrs:
        ev, desc = H.run_arr_cell(ctx.rng, cell)
        vecs.append((ev, desc, {"kind": "arr", "cell": cell}))
    return vecs


def dt_vectors(ctx, items, carriers, nrandom):
    vecs = []
    missing = [c for c in sorted(carriers) if not H.carrier_available(c)]
    if missing:
        ctx.assumptions.append("tzinfo carrier class(es) %s not available in "
                               "this python and not exercised" % missing)
    for it in items:
        if it["m"]:
            ev, desc = H.dt_vector_for_mutation(it["m"])
            vecs.append((ev, desc, {"kind": "dt", "how": "mut",
                                    "m": "".join(it["m"])}))
        else:
            for ev, desc in H.dt_vectors_for_value(ctx.rng, it["x"], it["s"],
                                                   it["cs"]):
                vecs.append((ev, desc, {"kind": "dt", "how": "value",
                                        "x": it["x"], "s": "".join(it["s"]),
                                        "cs": it["cs"]}))
    for _ in range(nrandom):
        x, prec = H.random_dt_value(ctx.rng)
        carrier = H.pick_carrier(ctx.rng, carriers, x["off"])
        for ev, desc in H.random_dt_vectors(ctx.rng, x, prec, carrier):
            vecs.append((ev, desc, {"kind": "dt", "how": "random", "x": x,
                                    "prec": prec, "carrier": carrier}))
    return vecs


def real_vectors(ctx, tab, n):
    vecs = []
    for t in tab["realtypes"]:
        for cls in tab["realclasses"]:
            for x in H.real_representatives(ctx.rng, t, cls, n):
                for route in tab["realroutes"]:
                    ev, desc = H.run_real(ctx.rng, t, cls, route, x)
                    vecs.append((ev, desc, {"kind": "real", "t": t,
                                            "cls": cls, "route": route,
                                            "hex": x.hex()}))
    return vecs


def run(ctx):
    quick = ctx.tier == "quick"
    cells, arrs, dts, carriers = model_check(ctx, quick)
    tab = tables(ctx)
    if tab["maxdelta"] != H.MAXDELTA:
        raise vlib.MachineryError("MaxDelta of the spec and the harness differ")
    sv = store_vectors(ctx, cells, 4000 if quick else 60000, arrs)
    dv = dt_vectors(ctx, dts, carriers, 1500 if quick else 40000)
    rv = real_vectors(ctx, tab, 40 if quick else 2500)
    judge(ctx, sv, "decision-table vectors observed on the real code")
    judge(ctx, dv, "CIMDateTime vectors observed on the real code")
    judge(ctx, rv, "real32/real64 CIM-XML vectors observed on the real code")
    collect_drift(ctx)

    def count(vs, key):
        d = {}
        for ev, _, _ in vs:
            k = key(ev)
            d[k] = d.get(k, 0) + 1
        return d
    ctx.extra["store_vectors"] = {
        "tlc_cells": len(cells), "tlc_array_cells": len(arrs),
        "total": len(sv),
        "by_container": count(sv, lambda e: e["c"]),
        "by_outcome": count(sv, lambda e: e["out"])}
    ctx.extra["datetime_vectors"] = {
        "tlc_items": len(dts), "total": len(dv),
        "by_route": count(dv, lambda e: e["route"]),
        "datetime_objects_by_tzinfo_carrier": count(
            [v for v in dv if v[0]["route"] == "datetime"],
            lambda e: e["carrier"]),
        "built": count(dv, lambda e: e["built"])}
    ctx.extra["real_vectors"] = {
        "total": len(rv), "by_type": count(rv, lambda e: e["t"]),
        "by_class": count(rv, lambda e: e["cls"])}
    ctx.extra["real_subclaim_level"] = (
        "exploration: TLC has no floating point; it holds the class table and "
        "the spelling rule and judges <class, text, back, same-bits> vectors "
        "of harness-chosen floats")
    ctx.actions_bound = {"store": len(sv), "dt": len(dv), "real": len(rv)}
    for vs in (sv, dv, rv):
        for ev, desc, _ in (vs[0], vs[len(vs) // 2]):
            ctx.sample({"what": desc, "vector": ev})
    ctx.assumptions += [
        "integers are <<anchor, delta>> pairs around MIN/0/MAX of the 8 types "
        "(|delta| <= 2 from TLC, <= 60 seeded random); values far from every "
        "anchor are not exercised",
        "ENFORCE_INTEGER_RANGE is left at its default (True)",
        "only the failure mode of rejected values is judged (TypeError/"
        "ValueError); that in-range values are accepted is compared with the "
        "code-shaped model and reported as impl drift, not as a violation",
        "datetime: for x built from a datetime/timedelta OBJECT 'the value of "
        "x' is the value of that object (whatever tzinfo class carries its "
        "UTC offset): str(x) must be the DSP0004 string of it; zoneinfo is "
        "represented by the fixed-offset zones Etc/GMT+12..Etc/GMT-14 only",
        "datetime: a constructor that raises produces no CIMDateTime x, so "
        "rejecting a legal DSP0004 string is impl drift unless another route "
        "builds the same value (then the round trip fails)",
        "the copy constructor CIMDateTime(other) is outside the statement; a "
        "copy differing from its source (precision is dropped on this tree) "
        "is reported as impl drift, not as a violation",
        "real32 vectors use float32-representable values and are compared as "
        "IEEE-754 singles; the all-doubles claim is sampled per class "
        "(exhaustive: false for this sub-claim)",
        "type setters (obj.type = ...) after a value was stored are out of "
        "scope; reference / embedded object values are out of scope",
    ]
    ctx.exhaustive = False


# ---------------------------------------------------------------------------
def replay(rep):
    case = rep["case"]
    rec = case["recipe"]
    rng = random.Random(rep.get("seed", 0))
    vecs = []
    if rec["kind"] == "store":
        for _ in range(5):      # a few lexical variants
            vecs.append(H.run_store_cell(rng, rec["cell"]))
    elif rec["kind"] == "arr":
        for _ in range(3):
            vecs.append(H.run_arr_cell(rng, rec["cell"]))
    elif rec["kind"] == "dt":
        if rec["how"] == "mut":
            vecs.append(H.dt_vector_for_mutation(list(rec["m"])))
        elif rec["how"] == "value":
            vecs += H.dt_vectors_for_value(rng, rec["x"], list(rec["s"]),
                                           rec.get("cs", ["MinutesFromUTC",
                                                          "timezone"]))
        else:
            vecs += H.random_dt_vectors(rng, rec["x"], rec["prec"],
                                        rec.get("carrier", "timezone"))
    else:
        x = float.fromhex(rec["hex"])
        vecs.append(H.run_real(rng, rec["t"], rec["cls"], rec["route"], x))
    ctx = vlib.Ctx(rep["property"] + "_replay", "quick", rep.get("seed", 0))
    verdicts = ctx.validate_traces("CimTypesTrace", "CimTypesTrace.cfg",
                                   [[v[0]] for v in vecs])
    bad = 0
    for (ev, desc), v in zip(vecs, verdicts):
        print("%s  =>  %s" % (desc, "ok" if v["ok"] else v["clauses"]))
        if not v["ok"]:
            bad += 1
    if bad:
        print("VIOLATION property=%s replay=(reproduced) %d vector(s) rejected"
              % (rep["property"], bad))
        return 1
    return 0
