"""
C14 - pull enumeration sessions deliver each object exactly once, within limits.

Spec:   spec/PullSrv.tla (requirement machine, clause sets), PullSrvMC.tla
        (all admissible responses, safety + liveness), PullSrvImpl.tla
        (code-shaped machine, Impl => Req, transition graph, behaviours),
        PullSrvTrace.tla (trace validation, total verdicts, impl drift).
Binding: call sequences produced by TLC (every transition of the Impl graph
        once; simulated behaviours over all 7 open kinds) and by a seeded
        driver are executed on the real FakedWBEMConnection; the recorded
        events are validated by TLC against the requirement machine.
        Call dimensions: server of the process (1 or 2 FakedWBEMConnections,
        foreign contexts), OperationTimeout (omitted, 0, 1, 40) and
        ContinueOnError (omitted, False, True) of every Open.
"""
import pywbem
from pywbem import CIMInstanceName, CIMError

import vlib
import mockrepo
from mockrepo import NS1, NS2
from covergraph import cover_paths

NSMAP = {1: NS1, 2: NS2, 3: "root/nonexistent"}
OPEN_NAMES = {1: "OpenEnumerateInstances", 2: "OpenEnumerateInstancePaths",
              3: "OpenReferenceInstances", 4: "OpenReferenceInstancePaths",
              5: "OpenAssociatorInstances", 6: "OpenAssociatorInstancePaths",
              7: "OpenQueryInstances"}
TRAD_NAMES = {1: "EnumerateInstances", 2: "EnumerateInstanceNames",
              3: "References", 4: "ReferenceNames",
              5: "Associators", 6: "AssociatorNames", 7: "ExecQuery"}
PULL_NAMES = {1: "PullInstancesWithPath", 2: "PullInstancePaths",
              3: "PullInstances"}

ENUM_CLASSES = {0: "VN0", 1: "VN1", 2: "VN2", 3: "VN3", 4: "VN4", 5: "VN5",
                7: "VN7"}


def _ipath(cls, ns, **kb):
    return CIMInstanceName(cls, keybindings=kb, namespace=ns)


def ref_source(n, ns):
    return {0: _ipath("VB", ns, k=4), 1: _ipath("VX", ns, name="x4", n=4),
            2: _ipath("VA", ns, k=2), 3: _ipath("VX", ns, name="x1", n=1),
            4: _ipath("VA", ns, k=1)}[min(n, 4)]


def assoc_source(n, ns):
    return {0: _ipath("VB", ns, k=4), 1: _ipath("VX", ns, name="x4", n=4),
            2: _ipath("VB", ns, k=3), 3: _ipath("VA", ns, k=2),
            4: _ipath("VA", ns, k=1)}[min(n, 4)]


# ---- filter arguments of the association opens (spec: event field flt) ----
# flt 0: none; 1: filter arguments that keep the whole unfiltered result of
# the source; 2: filter arguments that drop part (or all) of it.  The table
# (family, flt, result size) -> [(source, filter kwargs)] is computed once
# from the schema-level alphabets below with the TRADITIONAL operation on a
# fresh repository; it only serves to pick a call whose result has the size
# the abstract call asks for - the expected result of every session is the
# traditional operation called with the same arguments at that moment.
ROLES = [None, "left", "right", "a", "b", "x", "LEFT", "B"]
REF_RESULT_CLASSES = [None, "VAssoc", "VAssocSub", "VTern", "vassoc"]
ASSOC_CLASSES = [None, "VAssoc", "VAssocSub", "VTern"]
ASSOC_RESULT_CLASSES = [None, "VX", "VA", "VB", "vx"]
_FILTERS = {}


def _filter_combos(fam):
    if fam == "ref":
        for r in ROLES:
            for rc in REF_RESULT_CLASSES:
                yield dict(Role=r, ResultClass=rc)
        return
    dims = [("AssocClass", ASSOC_CLASSES), ("ResultClass", ASSOC_RESULT_CLASSES),
            ("Role", ROLES[:6]), ("ResultRole", ROLES[:6])]
    yield {}
    for i, (n1, v1) in enumerate(dims):
        for x in v1[1:]:
            yield {n1: x}
            for n2, v2 in dims[i + 1:]:
                for y in v2[1:]:
                    yield {n1: x, n2: y}
    # all four arguments at once: consistent and inconsistent end pairs
    for ac, r, rr in (("VAssoc", "left", "right"), ("VAssoc", "right", "left"),
                      ("VTern", "a", "b"), ("VTern", "b", "a"),
                      ("VTern", "a", "x"), ("VTern", "x", "b"),
                      ("VAssocSub", "left", "right"), ("VTern", "a", "a")):
        for rc in ("VX", "VA"):
            yield dict(AssocClass=ac, Role=r, ResultRole=rr, ResultClass=rc)


def filter_table():
    """(fam, flt, n) -> list of (source path, filter kwargs)."""
    if _FILTERS:
        return _FILTERS
    c = mockrepo.fresh()
    # every instance shape of the repository: referenced through two roles
    # (VA k=1, k=2; VX x2), through one role by several / one association
    # (VB k=3; VX x1, x4)
    srcs = [_ipath("VA", NS1, k=1), _ipath("VA", NS1, k=2),
            _ipath("VB", NS1, k=3)] + \
        [_ipath("VX", NS1, name="x%d" % i, n=i) for i in (1, 2, 4)]
    for fam, op in (("ref", "ReferenceNames"), ("assoc", "AssociatorNames")):
        for src in srcs:
            try:
                unf = len(getattr(c, op)(src))
            except pywbem.Error:
                continue
            for combo in _filter_combos(fam):
                kw = {a: b for a, b in combo.items() if b is not None}
                if not kw:
                    continue
                try:
                    n = len(getattr(c, op)(src, **kw))
                except pywbem.Error:
                    continue
                flt = 1 if n == unf else 2
                _FILTERS.setdefault((fam, flt, n), []).append((src, kw))
    if not any(k[1] == 2 and k[2] > 0 for k in _FILTERS):
        raise vlib.MachineryError("no filter that keeps a proper part of a "
                                  "result: repository schema changed?")
    return _FILTERS


def filtered_target(fam, flt, n, variant):
    """A (source, filter kwargs) of the filter class whose traditional result
    has n objects (or the nearest smaller size the repository offers)."""
    tab = filter_table()
    for size in range(min(n, 4), -1, -1):
        cands = tab.get((fam, flt, size))
        if cands:
            return cands[variant % len(cands)]
    return None


def canon_path(p):
    q = p.copy()
    q.host = None
    return q.to_wbem_uri(format="canonical")


def obj_key(o):
    if isinstance(o, pywbem.CIMInstance):
        props = sorted((n.lower(), p.type, repr(p.value), p.is_array)
                       for n, p in o.properties.items())
        return (canon_path(o.path) if o.path is not None else None,
                o.classname.lower(), tuple(props))
    if isinstance(o, CIMInstanceName):
        return canon_path(o)
    return ("UNCLASSIFIED", repr(o))


def _wire(srv):
    """facade.wire_connection with a facade that also types the boolean
    request parameter ContinueOnError (an IPARAMVALUE carries no type; the
    provider methods of the mock expect the bool their dispatcher normally
    gets from the client code)."""
    import facade

    class PullFacade(facade.Facade):
        @staticmethod
        def typed(name, value):
            if name == "ContinueOnError" and isinstance(value, str):
                return value.upper() == "TRUE"
            return facade.Facade.typed(name, value)

    conn = pywbem.WBEMConnection("http://facade-host:5988",
                                 default_namespace=NS1, timeout=10)
    conn.session.mount("http://", PullFacade(srv))
    return conn


class Driver:
    """Executes abstract calls on a real mock connection and records events."""

    def __init__(self, variant=0, wire=False):
        # wire=True: a real WBEMConnection talks CIM-XML to the mock through
        # harness/facade.py, so that the client-side response processing
        # (_get_rslt_params, _validate_context ...) is in the loop
        self.wire = wire
        # the servers of the process (spec: Srvs): abstract server id ->
        # (FakedWBEMConnection, connection used for the calls); server 2 is
        # created when a history first uses it
        self.servers = {}
        self._server(1)
        self.ctx_ids = {}       # (server id, context string) -> abstract id
        self.ctx_tuples = {}    # abstract id -> (server_ctx, ns) tuple
        self.owner = {}         # abstract id -> server id that issued it
        self.events = []
        self.calls = []
        self.variant = variant
        self.session_keys = {}  # abstract id -> object keys of the session
        self.kind_of = {}       # abstract id -> pull kind
        # the server's default MaxObjectCount (a public configuration value,
        # pywbem_mock.config.DEFAULT_MAX_OBJECT_COUNT, bound by name in the
        # provider module): small in every third history, so that opens
        # WITHOUT MaxObjectCount leave a rest for the pulls (the model's
        # DefaultMax = 2 < NObj)
        self.small_default = False
        try:
            import pywbem_mock._mainprovider as mp
            if hasattr(mp, "DEFAULT_MAX_OBJECT_COUNT"):
                self.small_default = variant % 3 == 0
                mp.DEFAULT_MAX_OBJECT_COUNT = 2 if self.small_default else 100
        except ImportError:
            pass

    def _server(self, v):
        if v not in self.servers:
            srv = mockrepo.fresh()
            if self.wire:
                conn = _wire(srv)
            else:
                conn = srv
            self.servers[v] = (srv, conn)
        return self.servers[v]

    @property
    def srv(self):
        return self.servers[1][0]

    @property
    def conn(self):
        return self.servers[1][1]

    def nctx(self, v=1):
        try:
            return len(self._server(v)[0]._mainprovider.enumeration_contexts)
        except AttributeError:
            return -1

    def _abs_ctx(self, v, ctx):
        if ctx is None or ctx[0] is None:
            return 0
        key = (v, ctx[0])
        if key not in self.ctx_ids:
            self.ctx_ids[key] = len(self.ctx_ids) + 1
            self.owner[self.ctx_ids[key]] = v
        self.ctx_tuples[self.ctx_ids[key]] = ctx
        return self.ctx_ids[key]

    def _ctx_for(self, aid):
        if aid in self.ctx_tuples:
            return self.ctx_tuples[aid]
        return ("bogus-context-%d" % aid, NS1)

    def _eff_id(self, v, aid):
        """The abstract id of the context string of `aid` as seen by server v:
        a server that has itself issued the very same string (possible for
        servers that do not use uuids) is offered its OWN context, not a
        foreign one."""
        if aid in self.ctx_tuples and self.owner.get(aid) != v:
            return self.ctx_ids.get((v, self.ctx_tuples[aid][0]), aid)
        return aid

    def _target(self, k, nsid, n, tradok, flt=0):
        ns = NSMAP[nsid]
        if k in (1, 2):
            cls = ENUM_CLASSES.get(n, "VN7")
            if nsid == 2:
                cls = "VN3" if n >= 1 else "VN0"
            if not tradok:
                cls = "VNoSuchClass"
            if self.variant % 2:
                cls = cls.upper()
            return dict(ClassName=cls, namespace=ns)
        if k in (3, 4, 5, 6):
            src = ref_source(n, ns) if k in (3, 4) else assoc_source(n, ns)
            kw = {}
            if flt:
                # the same filter arguments go to the traditional operation
                # that defines the expected result `all`
                t = filtered_target("ref" if k in (3, 4) else "assoc", flt, n,
                                    self.variant + len(self.calls))
                if t is not None:
                    src, kw = t
                    # the table is built in NS1; the call goes to the
                    # namespace of the abstract call (the event's ns)
                    src = src.copy()
                    src.namespace = ns
            if not tradok:
                src = _ipath("VNoSuchClass", ns, k=1)
            return dict(InstanceName=src, **kw)
        return dict(FilterQueryLanguage="WQL", FilterQuery="SELECT * FROM VN3",
                    namespace=ns)

    def do_open(self, k, nsid, n, tradok, m, v=1, ot=-1, coe=-1, flt=0):
        if k not in (3, 4, 5, 6):
            flt = 0
        kw = self._target(k, nsid, n, tradok, flt)
        if flt and len(kw) == 1:
            flt = 0     # the repository offers no such filter: unfiltered call
        conn = self._server(v)[1]
        # the reference: the corresponding traditional operation
        try:
            if k == 7:
                trad = conn.ExecQuery("WQL", "SELECT * FROM VN3",
                                      namespace=kw["namespace"])
            elif k in (3, 4, 5, 6):
                trad = getattr(conn, TRAD_NAMES[k])(
                    kw["InstanceName"],
                    **{a: b for a, b in kw.items() if a != "InstanceName"})
            else:
                trad = getattr(conn, TRAD_NAMES[k])(**kw)
            t_ok = True
        except pywbem.Error:
            trad, t_ok = [], False
        keys = []
        for o in trad:
            kk = obj_key(o)
            if kk not in keys:
                keys.append(kk)
        self.calls.append({"op": OPEN_NAMES[k], "args": repr(kw), "max": m,
                           "srv": v, "OperationTimeout": ot,
                           "ContinueOnError": coe})
        okw = dict(kw)
        if k == 7:
            okw = dict(FilterQueryLanguage="WQL",
                       FilterQuery="SELECT * FROM VN3",
                       namespace=kw["namespace"])
        if m != -1:
            okw["MaxObjectCount"] = m
        if ot != -1:
            okw["OperationTimeout"] = ot
        if coe != -1:
            okw["ContinueOnError"] = bool(coe)
        ev = dict(op="Open", srv=v, k=k, ns=nsid,
                  all=list(range(1, len(keys) + 1)),
                  tradok=t_ok, m=m, id=0, ot=ot, coe=coe, flt=flt)
        try:
            r = getattr(conn, OPEN_NAMES[k])(**okw)
            objs = r.paths if hasattr(r, "paths") else r.instances
            ev.update(ok=True, code=0, objs=[self._oid(keys, o) for o in objs],
                      eos=bool(r.eos), ctx=self._abs_ctx(v, r.context))
            if ev["ctx"]:
                self.session_keys[ev["ctx"]] = keys
                self.kind_of[ev["ctx"]] = 3 if k == 7 else (
                    1 if k in (1, 3, 5) else 2)
        except CIMError as exc:
            ev.update(ok=False, code=int(exc.status_code), objs=[], eos=False,
                      ctx=0)
        except Exception as exc:  # noqa: any other exception is not a refusal
            ev.update(ok=False, code=-2, objs=[], eos=False, ctx=0,
                      pyerror=type(exc).__name__)
        ev["nctx"] = self.nctx(v)
        self.events.append(ev)
        return ev

    @staticmethod
    def _oid(keys, o):
        kk = obj_key(o)
        return keys.index(kk) + 1 if kk in keys else 99

    def do_pull(self, pk, aid, m, v=1):
        ctx = self._ctx_for(aid)
        aid = self._eff_id(v, aid)
        keys = self.session_keys.get(aid, [])
        self.calls.append({"op": PULL_NAMES[pk], "ctx": aid, "max": m,
                           "srv": v})
        ev = dict(op="Pull", srv=v, k=pk, ns=0, all=[], tradok=True, m=m,
                  id=aid, ot=-1, coe=-1, flt=0)
        try:
            r = getattr(self._server(v)[1], PULL_NAMES[pk])(
                ctx, MaxObjectCount=m)
            objs = r.paths if hasattr(r, "paths") else r.instances
            ev.update(ok=True, code=0, objs=[self._oid(keys, o) for o in objs],
                      eos=bool(r.eos), ctx=self._abs_ctx(v, r.context))
        except CIMError as exc:
            ev.update(ok=False, code=int(exc.status_code), objs=[], eos=False,
                      ctx=0)
        except Exception as exc:  # noqa
            ev.update(ok=False, code=-2, objs=[], eos=False, ctx=0,
                      pyerror=type(exc).__name__)
        ev["nctx"] = self.nctx(v)
        self.events.append(ev)
        return ev

    def do_close(self, aid, v=1):
        ctx = self._ctx_for(aid)
        aid = self._eff_id(v, aid)
        self.calls.append({"op": "CloseEnumeration", "ctx": aid, "srv": v})
        ev = dict(op="Close", srv=v, k=0, ns=0, all=[], tradok=True, m=0,
                  id=aid, ot=-1, coe=-1, flt=0, objs=[], eos=False, ctx=0)
        try:
            self._server(v)[1].CloseEnumeration(ctx)
            ev.update(ok=True, code=0)
        except CIMError as exc:
            ev.update(ok=False, code=int(exc.status_code))
        except Exception as exc:  # noqa
            ev.update(ok=False, code=-2, pyerror=type(exc).__name__)
        ev["nctx"] = self.nctx(v)
        self.events.append(ev)
        return ev

    def do_remove_ns(self, nsid, v=1):
        if nsid != 2:
            return None
        srv = self._server(v)[0]
        if NS2.lower() not in [n.lower() for n in srv.namespaces]:
            return None
        mockrepo.empty_and_remove_namespace(srv, NS2)
        self.calls.append({"op": "remove_namespace", "ns": NS2, "srv": v})
        ev = dict(op="RemoveNs", srv=v, k=0, ns=2, all=[], tradok=True, m=0,
                  id=0, ot=-1, coe=-1, flt=0, ok=True, code=0, objs=[], eos=False,
                  ctx=0, nctx=self.nctx(v))
        self.events.append(ev)
        return ev

    def do_setpull(self, on, v=1):
        self._server(v)[0].disable_pull_operations = not on
        self.calls.append({"op": "disable_pull_operations", "value": not on,
                           "srv": v})
        ev = dict(op="SetPull", srv=v, k=0, ns=0, all=[], tradok=True, m=0,
                  id=0, ot=-1, coe=-1, flt=0, ok=bool(on), code=0, objs=[], eos=False,
                  ctx=0, nctx=self.nctx(v))
        self.events.append(ev)
        return ev

    def do_call(self, c):
        op = c["op"]
        v = c.get("srv", 1)
        if op == "Open":
            return self.do_open(c["k"], c["ns"], len(c["all"]), c["tradok"],
                                c["m"], v, c.get("ot", -1), c.get("coe", -1),
                                c.get("flt", 0))
        if op == "Pull":
            return self.do_pull(c["k"], c["id"], c["m"], v)
        if op == "Close":
            return self.do_close(c["id"], v)
        if op == "RemoveNs":
            return self.do_remove_ns(c["ns"], v)
        if op == "SetPull":
            return self.do_setpull(c["tradok"], v)
        raise vlib.MachineryError("unknown abstract call %r" % (c,))

    def epilogue(self):
        """Behavioural NoLeak: close what is open (each session on the server
        that owns it), then every context ever issued must be refused by Pull
        and by CloseEnumeration - on its own server and on every other one."""
        for v in sorted(self.servers):
            if self.servers[v][0].disable_pull_operations:
                self.do_setpull(True, v)
        for aid in sorted(self.ctx_tuples):
            self.do_close(aid, self.owner[aid])
        for aid in sorted(self.ctx_tuples):
            for v in sorted(self.servers):
                self.do_pull(1, aid, 1, v)
                self.do_close(aid, v)


def random_trace(rng, variant, wire=False):
    d = Driver(variant, wire)
    n_ops = rng.randint(3, 14)
    # every third history runs two servers in the process (spec: Srvs={1,2})
    srvs = [1, 2] if rng.random() < 0.34 else [1]

    def where(aid):
        # the owner's server in 3 of 4 cases, otherwise any (foreign context)
        own = d.owner.get(aid, rng.choice(srvs))
        return own if rng.random() < 0.75 else rng.choice(srvs)

    for _ in range(n_ops):
        open_ids = sorted(d.ctx_tuples)
        x = rng.random()
        if x < 0.30 or not open_ids:
            k = rng.choice([1, 1, 2, 2, 3, 4, 5, 6, 7])
            nsid = rng.choice([1, 1, 1, 2, 3]) if k in (1, 2, 7) else 1
            n = rng.choice([0, 1, 2, 3, 4, 5, 7])
            m = rng.choice([-1, 0, 0, 1, 1, 2, 3, 5, 100])
            ot = rng.choice([-1, -1, 0, 0, 1, 40])
            coe = rng.choice([-1, -1, 0, 1])
            # filter class of the association opens: a third each
            flt = rng.choice([0, 1, 2]) if k in (3, 4, 5, 6) else 0
            d.do_open(k, nsid, n, rng.random() > 0.1, m, rng.choice(srvs),
                      ot, coe, flt)
        elif x < 0.80:
            aid = rng.choice(open_ids + [rng.randint(1, 5)])
            y = rng.random()
            if aid in d.kind_of and y < 0.85:
                pk = d.kind_of[aid]
            else:
                pk = rng.choice([1, 2, 3])
            d.do_pull(pk, aid, rng.choice([0, 0, 1, 1, 2, 3, 100]),
                      where(aid))
        elif x < 0.90:
            aid = rng.choice(open_ids + [rng.randint(1, 5)])
            d.do_close(aid, where(aid))
        elif x < 0.95:
            d.do_remove_ns(2, rng.choice(srvs))
        else:
            d.do_setpull(rng.random() < 0.5, rng.choice(srvs))
    d.epilogue()
    return d


def run_calls(calls, variant=0, wire=False):
    d = Driver(variant, wire)
    for c in calls:
        d.do_call(c)
    d.epilogue()
    return d


def signature(ev, clauses):
    s = "%s:%s" % (ev["op"], "+".join(sorted(clauses)))
    if ev["op"] == "Pull" and ev.get("m") == 0:
        s += ":m=0"
    if ev.get("pyerror"):
        s += ":" + ev["pyerror"]
    return s


def run(ctx):
    quick = ctx.tier == "quick"
    # ---- 1. design level: requirement machine, all admissible responses ----
    ctx.tlc("PullSrvMC", "PullSrvMC.cfg", label="Req safety (all admissible "
            "responses; NObj=3, 2 context ids)", coverage=True)
    ctx.tlc("PullSrvMC", "PullSrvMCLive.cfg",
            label="Req liveness: repeated Pull(Max>0) terminates (WF)")
    ctx.tlc("PullSrvMC", "PullSrvMC2.cfg",
            label="Req safety, two servers in one process (foreign contexts, "
            "Isolated), all OperationTimeout values in the thorough tier")
    if not quick:
        ctx.tlc("PullSrvMC", "PullSrvMCBig.cfg", timeout=3000,
                label="Req safety, larger constants + namespace removal/pull toggle")
        ctx.tlc("PullSrvMC", "PullSrvMC2Big.cfg", timeout=3000,
                label="Req safety, two servers, all OperationTimeout / "
                "ContinueOnError values, both pull kinds")
    # ---- 2. code-shaped machine refines the requirement machine ------------
    r_cover = ctx.tlc("PullSrvImpl", "PullSrvImplCover.cfg", workers=1,
                      label="Impl => Req refinement (fixed code shape) + "
                      "transition dump")
    r_leg = ctx.tlc("PullSrvImpl", "PullSrvImplLegacy.cfg", must_pass=False,
                    count=False, label="regression config: legacy "
                    "`if not max_obj_cnt` must violate ImplRefinesReq")
    if r_leg.violated != "ImplRefinesReq":
        raise vlib.MachineryError(
            "sensitivity config PullSrvImplLegacy did not fail as expected: %s"
            % r_leg.violated)
    ctx.extra["sensitivity"] = ["PullSrvImplLegacy.cfg (MaxObjectCount=0 "
                                "treated as default) violates ImplRefinesReq"
                                " as required"]
    r_trim = ctx.tlc("PullSrvImpl", "PullSrvImplLegacyTrim.cfg",
                     must_pass=False, count=False,
                     label="regression config: rest of an open cut with the "
                     "raw (None) MaxObjectCount must fail")
    if r_trim.violated is None:
        raise vlib.MachineryError("PullSrvImplLegacyTrim did not fail")
    ctx.extra["sensitivity"].append(
        "PullSrvImplLegacyTrim.cfg violates %s as required" % r_trim.violated)
    r_cover2 = ctx.tlc("PullSrvImpl", "PullSrvImpl2.cfg", workers=1,
                       label="Impl => Req refinement, two servers with own "
                       "context tables (foreign contexts) + transition dump")
    r_sh = ctx.tlc("PullSrvImpl", "PullSrvImplShared.cfg", must_pass=False,
                   count=False, label="must-fail config: one context table "
                   "shared by all servers of the process")
    if r_sh.violated != "ImplRefinesReq":
        raise vlib.MachineryError("PullSrvImplShared did not fail: %s"
                                  % r_sh.violated)
    ctx.extra["sensitivity"].append(
        "PullSrvImplShared.cfg (SharedContextTable) violates ImplRefinesReq "
        "as required")
    r_ex = ctx.tlc("PullSrvImpl", "PullSrvImplExpire.cfg", must_pass=False,
                   count=False, label="must-fail config: session expiry "
                   "without special-casing OperationTimeout=0")
    if r_ex.violated != "ImplRefinesReq":
        raise vlib.MachineryError("PullSrvImplExpire did not fail: %s"
                                  % r_ex.violated)
    ctx.extra["sensitivity"].append(
        "PullSrvImplExpire.cfg (ExpireSessions) violates ImplRefinesReq as "
        "required")
    # ---- 3. spec -> code: call sequences from TLC ---------------------------
    trans = [(t[1], t[2], t[3]) for t in r_cover.printed("TR")]
    paths, nstates, ntrans = cover_paths(
        trans, rng=ctx.rng, limit=420 if quick else 12000)
    trans2 = [(t[1], t[2], t[3]) for t in r_cover2.printed("TR")]
    paths2, nstates2, ntrans2 = cover_paths(
        trans2, rng=ctx.rng, limit=220 if quick else 5000)
    paths = paths + paths2
    ctx.extra["impl_graph"] = {"states": nstates, "transitions": ntrans,
                               "two_server_states": nstates2,
                               "two_server_transitions": ntrans2,
                               "transitions_replayed": len(paths)}
    drivers = []
    for i, calls in enumerate(paths):
        drivers.append(run_calls([vlib.unset(c) for c in calls], variant=i))
    nsim = 60 if quick else 1200
    r_sim, behs = ctx.simulate_behaviours(
        "PullSrvImpl", "PullSrvImplSim.cfg", nsim, 11,
        label="behaviour emission (7 open kinds, 2 namespaces)")
    for i, b in enumerate(behs):
        drivers.append(run_calls(b, variant=i, wire=(i % 3 == 0)))
    ctx.extra["tlc_behaviours_replayed"] = len(behs)
    # ---- 4. code -> spec: seeded random histories ---------------------------
    nrand = 800 if quick else 8000
    for i in range(nrand):
        drivers.append(random_trace(ctx.rng, i, wire=(i % 4 == 0)))
    ctx.extra["traces_through_cimxml_facade"] = sum(
        1 for d in drivers if d.wire)
    if mockrepo.template() is not None:
        import pywbem_mock.config as mcfg
        if getattr(mcfg, "DEFAULT_MAX_OBJECT_COUNT", 100) != 100:
            ctx.note_drift("DEFAULT_MAX_OBJECT_COUNT != 100")
    traces = [d.events for d in drivers]
    clean = [[{k: v for k, v in e.items() if k != "pyerror"} for e in t]
             for t in traces]
    # histories with the small server default are judged with the trace
    # configuration whose code-shaped model has the same default (drift only;
    # the requirement does not mention the default)
    verdicts = [None] * len(clean)
    for small, cfg in ((False, "PullSrvTrace.cfg"), (True, "PullSrvTraceD2.cfg")):
        idx = [i for i, d in enumerate(drivers) if d.small_default == small]
        if idx:
            vs = ctx.validate_traces("PullSrvTrace", cfg,
                                     [clean[i] for i in idx])
            for i, v in zip(idx, vs):
                verdicts[i] = v
    opcount = {}
    for t in traces:
        for e in t:
            opcount[e["op"]] = opcount.get(e["op"], 0) + 1
    ctx.actions_bound = opcount
    for d, v in zip(drivers, verdicts):
        if v["ok"]:
            continue
        ev = d.events[v["at"] - 1]
        sig = signature(ev, v["clauses"])
        ctx.report(sig, "%s response violates %s" % (
            d.calls[_call_index(d, v["at"] - 1)]["op"]
            if d.calls else ev["op"], ", ".join(v["clauses"])),
            {"calls": d.calls, "small_default": d.small_default,
             "wire": d.wire, "events": d.events[:v["at"]],
             "failing_event": ev, "clauses": v["clauses"]})
    # drift lines are printed by the same TLC runs; collect from the logs
    _collect_drift(ctx)
    for d in drivers[:2] + drivers[-2:]:
        ctx.sample({"calls": d.calls[:8], "events": d.events[:4]})
    ctx.assumptions += [
        "object identity = canonical instance path (host ignored) plus "
        "property values; the reference result is the real traditional "
        "operation on the same repository",
        "len(conn._mainprovider.enumeration_contexts) is read for NoLeak when "
        "the attribute exists; the behavioural epilogue (every issued context "
        "must be refused after close) does not depend on it",
        "OpenQueryInstances sessions do not exist in the mock (ExecQuery is "
        "unimplemented): only refusal paths are bound for the query kind",
        "prompt client: all calls of a history are issued within far less "
        "than the smallest positive OperationTimeout used (1 s), so no "
        "session may expire; OperationTimeout values are the legal ones "
        "(omitted, 0 = never, 1, 40 = the mock's OPEN_MAX_TIMEOUT)",
        "several servers in one process = several FakedWBEMConnection objects "
        "(deep copies of one primed template); a context string is foreign "
        "on a server unless that server issued the same string itself",
    ]
    ctx.exhaustive = False


def _call_index(d, evi):
    return min(evi, len(d.calls) - 1)


def _collect_drift(ctx):
    import glob
    import os
    import re
    n = 0
    for f in glob.glob(os.path.join(ctx.work, "tlc*.out")):
        with open(f) as fh:
            txt = fh.read()
        for m in re.finditer(r'<<"D", (\d+), (\d+), (\{[^}]*\})>>', txt):
            n += 1
            ctx.note_drift("real response differs from PullSrvImpl in %s"
                           % m.group(3))
    return n


def replay(rep):
    """Re-run a stored failing history on the current tree and re-validate."""
    case = rep["case"]
    d = Driver(0 if case.get("small_default") else 1,
               bool(case.get("wire")))
    calls = case["calls"]
    print("replaying %d calls for %s (%s)" % (len(calls), rep["property"],
                                              rep["signature"]))
    for e in case["events"]:
        v = e.get("srv", 1)
        if e["op"] == "Open":
            d.do_open(e["k"], e["ns"], len(e["all"]), e["tradok"], e["m"], v,
                      e.get("ot", -1), e.get("coe", -1), e.get("flt", 0))
        elif e["op"] == "Pull":
            d.do_pull(e["k"], e["id"], e["m"], v)
        elif e["op"] == "Close":
            d.do_close(e["id"], v)
        elif e["op"] == "RemoveNs":
            d.do_remove_ns(e["ns"], v)
        elif e["op"] == "SetPull":
            d.do_setpull(e["ok"], v)
    ctx = vlib.Ctx(rep["property"] + "_replay", "quick", rep.get("seed", 0))
    clean = [[{k: v for k, v in e.items() if k != "pyerror"}
              for e in d.events]]
    v = ctx.validate_traces("PullSrvTrace", "PullSrvTraceD2.cfg"
                            if d.small_default else "PullSrvTrace.cfg",
                            clean)[0]
    print("verdict:", v)
    if not v["ok"]:
        print("VIOLATION property=%s replay=(reproduced) %s" %
              (rep["property"], v["clauses"]))
        return 1
    return 0
