"""
C15 - Iter... operations equal the traditional result, with or without pull,
clean up, and never fail because of what the connection learned earlier.

Spec:   IterClient.tla (requirement: admissible outcome as a function of the
        current configuration only), IterClientImpl.tla (tri-state learned flag,
        open/pull/fallback/finally; Sticky / re-probing / leaking variants
        model-checked against the requirement), IterClientTrace.tla.
Binding: histories of Iter calls on one real connection (all 7 operations x
        use_pull_operations True/False/None x server pull enabled/disabled,
        toggled between calls x MaxObjectCount x result sizes x exhaust /
        close() after k / drop x server fault in the j-th Pull x filter
        argument class (none, DMTF:FQL + query, unsupported language, query
        without language, language without query) x OperationTimeout class
        (None, 0, 1..40, above the server maximum) x ContinueOnError), each
        with a shadow call on a fresh connection; TLC judges every event.
"""
import copy
import gc

import pywbem
import pywbem_mock
from pywbem import CIMError

import vlib
import mockrepo
from mockrepo import NS1
from checks import c14

ITER = {1: "IterEnumerateInstances", 2: "IterEnumerateInstancePaths",
        3: "IterReferenceInstances", 4: "IterReferenceInstancePaths",
        5: "IterAssociatorInstances", 6: "IterAssociatorInstancePaths",
        7: "IterQueryInstances"}
TRAD = {1: "EnumerateInstances", 2: "EnumerateInstanceNames",
        3: "References", 4: "ReferenceNames", 5: "Associators",
        6: "AssociatorNames", 7: "ExecQuery"}
UPO = {"T": True, "F": False, "N": None}
MOCV = {"zero": 0, "neg": -3, "none": None, "badtype": "5"}
# concrete members of the spec's argument classes (IterClient.FiltClasses /
# OtClasses); the mock server's documented limits: only 'DMTF:FQL',
# OperationTimeout <= pywbem_mock.config.OPEN_MAX_TIMEOUT (40)
BAD_LANGS = ("WQL", "DMTF:CQL", "XYZ")
QUERIES = ("k > 0", "k = 1", "x")


def concretize_args(rng, c):
    """fix the concrete filter / timeout values of call c (the shadow call
    on the fresh connection must use the same ones)"""
    c["lang"] = {"fql": "DMTF:FQL", "lonly": "DMTF:FQL",
                 "badlang": rng.choice(BAD_LANGS)}.get(c["fqc"])
    c["query"] = rng.choice(QUERIES) if c["fqc"] in ("fql", "badlang",
                                                     "qonly") else None
    c["otv"] = {"none": None, "zero": 0, "small": rng.randint(1, 40),
                "big": rng.choice([41, 100, 3600])}[c["ot"]]
    return c


def new_conn(upo, disabled):
    conn = pywbem_mock.FakedWBEMConnection(
        default_namespace=NS1, use_pull_operations=UPO[upo])
    conn.cimrepository.load(copy.deepcopy(mockrepo.template().cimrepository))
    conn.disable_pull_operations = disabled
    return conn


def target(fam, n, tradok, variant):
    """Arguments (same for the Iter and the traditional call).  The argument
    SHAPE varies with `variant`: class name as str / CIMClassName, namespace
    given explicitly, through the object name, or defaulted."""
    shape = variant % 5
    if fam in (1, 2):
        if shape in (3, 4):
            # non-default namespace: via namespace= or via CIMClassName
            cls = {0: "VN0", 1: "VX"}.get(n, "VN3") if tradok \
                else "VNoSuchClass"
            if shape == 3:
                return (cls,), {"namespace": mockrepo.NS2}
            return (pywbem.CIMClassName(cls, namespace=mockrepo.NS2),), {}
        cls = c14.ENUM_CLASSES.get(n, "VN7") if tradok else "VNoSuchClass"
        if shape == 1:
            cls = cls.lower()
        if shape == 2:
            return (pywbem.CIMClassName(cls),), {"namespace": NS1}
        return (cls,), {}
    if fam in (3, 4, 5, 6):
        src = (c14.ref_source(n, NS1) if fam in (3, 4)
               else c14.assoc_source(n, NS1)) if tradok else \
            c14._ipath("VNoSuchClass", NS1, k=1)
        if shape in (1, 3):
            src = src.copy()
            src.namespace = None        # default namespace applies
        if shape in (2, 3):
            # a path as an earlier operation returned it: with host
            src = src.copy()
            src.host = "srv.example.com:5989"
        # the filter arguments of the association operations (the same ones
        # go to the traditional operation that defines the expected result)
        kw = {}
        if variant % 3:
            # two thirds of the calls are unfiltered (large results, several
            # pulls per session)
            return (src,), kw
        v = variant // 3
        role = [None, None, "left", "a", "b", "right", "A"][v % 7]
        if role:
            kw["Role"] = role
        if fam in (3, 4):
            rc = [None, "VAssoc", "VTern", None, "vassocsub"][v % 5]
            if rc:
                kw["ResultClass"] = rc
        else:
            ac = [None, "VAssoc", None, "VTern"][v % 4]
            if ac:
                kw["AssocClass"] = ac
            rr = [None, None, "right", "b", "x"][(v // 2) % 5]
            if rr:
                kw["ResultRole"] = rr
            rc = [None, "VX", None, "VA"][(v // 3) % 4]
            if rc:
                kw["ResultClass"] = rc
        return (src,), kw
    return ("WQL", "SELECT * FROM VN3"), {}


class Fault:
    """Server-side fault injection: the j-th Pull of the current call fails
    with CIM_ERR_FAILED (the mock server is the environment for C15)."""

    NAMES = ("PullInstancesWithPath", "PullInstancePaths", "PullInstances")

    def __init__(self, conn, j):
        self.j = j
        self.count = 0
        self.fired = False
        self.mp = getattr(conn, "_mainprovider", None)
        self.saved = {}

    def __enter__(self):
        if self.j and self.mp is not None:
            for name in self.NAMES:
                orig = getattr(self.mp, name, None)
                if orig is None:
                    continue
                self.saved[name] = orig

                def wrapper(*a, _orig=orig, **kw):
                    self.count += 1
                    if self.count == self.j:
                        self.fired = True
                        raise CIMError(pywbem.CIM_ERR_FAILED,
                                       "injected server fault")
                    return _orig(*a, **kw)
                setattr(self.mp, name, wrapper)
        return self

    def __exit__(self, *exc):
        for name in self.saved:
            try:
                delattr(self.mp, name)
            except AttributeError:
                setattr(self.mp, name, self.saved[name])
        return False


def nctx(conn):
    try:
        return len(conn._mainprovider.enumeration_contexts)
    except AttributeError:
        return -1


def do_iter(conn, c, variant, with_fault=True):
    """Run one complete use of an iterator; returns observation dict."""
    fam = c["fam"]
    args, kw = target(fam, c["n"], c["tradok"], variant)
    if c["moc"] == "ok":
        kw["MaxObjectCount"] = c["mocn"]
    else:
        kw["MaxObjectCount"] = MOCV[c["moc"]]
    if fam != 7:
        if c.get("lang") is not None:
            kw["FilterQueryLanguage"] = c["lang"]
        if c.get("query") is not None:
            kw["FilterQuery"] = c["query"]
    if c.get("otv") is not None:
        kw["OperationTimeout"] = c["otv"]
    if c["coe"]:
        kw["ContinueOnError"] = False
    yielded = []
    res, code = "done", 0
    j = c["fault"] if with_fault else 0
    with Fault(conn, j) as fault:
        try:
            it = getattr(conn, ITER[fam])(*args, **kw)
            gen = it.generator if fam == 7 else it
            if c["consume"] == "exhaust":
                for o in gen:
                    yielded.append(o)
            else:
                for _ in range(c["k"]):
                    try:
                        yielded.append(next(gen))
                    except StopIteration:
                        break
                if c["consume"] == "close":
                    if hasattr(gen, "close"):
                        gen.close()
                else:
                    del gen
                    del it
                    gc.collect()
        except CIMError as exc:
            res, code = "CIMError", int(exc.status_code)
        except Exception as exc:  # noqa
            res = type(exc).__name__
        fired = fault.fired
    gc.collect()
    return dict(res=res, code=code, yielded=yielded, faulted=fired,
                call="%s(%s, %s)" % (ITER[fam], ", ".join(map(str, args)), kw))


def paths_ok(fam, objs, fallback):
    if fam == 7:
        return True
    for o in objs:
        p = o.path if isinstance(o, pywbem.CIMInstance) else o
        if p is None or not p.namespace:
            return False
        # host completion is the client's job only where the traditional
        # response format (INSTANCENAME / VALUE.NAMEDINSTANCE) omits it
        if fallback and fam in (1, 2) and not p.host:
            return False
    return True


def directed_scripts():
    """Fixed two-call histories (use_pull_operations=None) that exhibit the
    listed sticky-flag findings in every run, for each Iter operation with a
    learnable flag."""
    out = []
    base = dict(fqc="none", ot="none", coe=False, moc="ok", mocn=1, n=3,
                tradok=True, consume="exhaust", k=0, fault=0)
    for fam in (1, 2, 3, 4, 5, 6):
        c = dict(base, fam=fam)
        out.append(("N", [(False, c), (True, dict(c, fqc="fql"))]))  # learned F
        out.append(("N", [(True, c), (False, c)]))                  # learned T
        out.append(("N", [(True, c), (False, dict(c, coe=True))]))  # learned T
    return out


def directed_open_params():
    """One-call histories for the cells (server capability x open-parameter
    class) of the requirement in which the server would reject the open
    parameters IF it supported pull: every Iter operation x use_pull_operations
    None/True x server pull off/on x {unsupported language, query without
    language, language without query, OperationTimeout above the maximum}
    (combinations of the classes come from the random histories)."""
    out = []
    base = dict(fqc="none", ot="none", coe=False, moc="ok", mocn=2, n=3,
                tradok=True, consume="exhaust", k=0, fault=0)
    for fam in (1, 2, 3, 4, 5, 6):
        for upo in ("N", "T"):
            for srv in (False, True):
                for kw in (dict(fqc="badlang"), dict(fqc="qonly"),
                           dict(fqc="lonly"), dict(ot="big")):
                    out.append((upo, [(srv, dict(base, fam=fam, **kw))]))
    return out


def run_history(rng, upo, ncalls, variant, script=None):
    disabled = rng.random() < 0.4
    if script:
        disabled = not script[0][0]
        ncalls = len(script)
    conn = new_conn(upo, disabled)
    learned = dict((f, upo) for f in ITER)       # mirror of the documented rule
    events, info = [], []
    for step in range(ncalls):
        if script:
            if disabled != (not script[step][0]):
                disabled = not script[step][0]
                conn.disable_pull_operations = disabled
        elif rng.random() < 0.35:
            disabled = not disabled
            conn.disable_pull_operations = disabled
        srv = not disabled
        fam = rng.choice(list(ITER))
        variant = rng.randint(0, 419)
        c = dict(fam=fam,
                 fqc=rng.choice(["none"] * 13 + ["fql"] * 3 +
                                ["badlang", "qonly", "lonly", "fql"]),
                 ot=rng.choice(["none"] * 6 + ["zero", "small", "small",
                                               "big"]),
                 coe=rng.random() < 0.15,
                 moc=rng.choice(["ok"] * 9 + ["zero", "neg", "none",
                                              "badtype"]),
                 mocn=rng.choice([1, 1, 2, 3, 5, 100]),
                 n=rng.choice([0, 1, 2, 3, 4, 5, 7]),
                 tradok=rng.random() > 0.1,
                 consume=rng.choice(["exhaust", "exhaust", "close", "drop"]),
                 k=rng.choice([0, 1, 2, 3]),
                 fault=rng.choice([0, 0, 0, 1, 2]))
        if script:
            c = dict(script[step][1])
            fam = c["fam"]
            variant = 0
        if fam == 7:
            c["fqc"] = "none"
        c["fq"] = c["fqc"] != "none"
        concretize_args(rng, c)
        # reference result: the traditional operation on the same server
        args, tkw = target(fam, c["n"], c["tradok"], variant)
        try:
            trad = getattr(conn, TRAD[fam])(*args, **tkw)
            tradok = True
        except pywbem.Error:
            trad, tradok = [], False
        keys = []
        for o in trad:
            kk = c14.obj_key(o)
            if kk not in keys:
                keys.append(kk)
        before = nctx(conn)
        obs = do_iter(conn, c, variant)
        after = nctx(conn)
        # shadow: same call, fresh connection, same server state
        shadow_conn = new_conn(upo, disabled)
        sh = do_iter(shadow_conn, dict(c, consume="exhaust"), variant,
                     with_fault=False)
        uses_pull = upo == "T" or (upo == "N" and srv)
        ids = [keys.index(c14.obj_key(o)) + 1 if c14.obj_key(o) in keys else 99
               for o in obs["yielded"]]
        ev = dict(op="Iter", fam=fam, upo=upo, srv=srv, fq=c["fq"],
                  fqc=c["fqc"], ot=c["ot"], coe=c["coe"], moc=c["moc"], mocn=c["mocn"],
                  trad=list(range(1, len(keys) + 1)), tradok=tradok,
                  consume=c["consume"], k=c["k"], faulted=obs["faulted"],
                  res=obs["res"], code=obs["code"], yielded=ids,
                  pathsok=paths_ok(fam, obs["yielded"], not uses_pull),
                  nctx=(after - before) if before >= 0 and after >= 0 else -1,
                  fresh=sh["res"])
        events.append(ev)
        info.append(dict(call=obs["call"], learned=learned[fam],
                         shadow=sh["res"], consume=c["consume"], k=c["k"],
                         fault=c["fault"]))
        # documented learning rule (for finding signatures only)
        # generator functions are lazy: a generator that was closed / dropped
        # before its first next() never talked to the server and learned
        # nothing (IterQueryInstances is eager)
        started = fam == 7 or c["consume"] == "exhaust" or c["k"] >= 1
        if upo == "N" and c["moc"] == "ok" and learned[fam] != "F" and started:
            if not srv and learned[fam] == "N":
                learned[fam] = "F"
            elif srv and tradok and (obs["res"] == "done" or obs["faulted"]
                                     or obs["yielded"]):
                # the flag becomes True only when the Open itself succeeded;
                # an Open the server rejects (timeout / filter language it
                # does not accept) leaves it as it was
                learned[fam] = "T"
            elif srv and not tradok and learned[fam] == "N" and \
                    obs["code"] in (1, 7):
                learned[fam] = "F"
    return events, info


def run_overlap(rng, upo):
    """Several iterators alive at the same time on ONE connection (the
    enumeration sessions overlap on the server): each must still deliver its
    own traditional result.  A random schedule of new / next / close steps
    over up to three live iterators, then everything is drained."""
    conn = new_conn(upo, False)
    live, done, events, info = [], [], [], []
    before = nctx(conn)

    def start():
        fam = rng.choice([1, 2, 3, 4, 5, 6])
        n = rng.choice([2, 3, 4, 5, 7])
        variant = rng.randint(0, 419)
        args, kw = target(fam, n, True, variant)
        try:
            trad = getattr(conn, TRAD[fam])(*args, **kw)
            tradok = True
        except pywbem.Error:
            trad, tradok = [], False
        keys = []
        for o in trad:
            kk = c14.obj_key(o)
            if kk not in keys:
                keys.append(kk)
        mocn = rng.choice([1, 1, 2])
        kw = dict(kw, MaxObjectCount=mocn)
        it = dict(fam=fam, keys=keys, tradok=tradok, mocn=mocn, yielded=[],
                  res="done", code=0, nexts=0, closed=False,
                  call="%s(%s, %s)" % (ITER[fam], ", ".join(map(str, args)),
                                       kw))
        try:
            it["gen"] = getattr(conn, ITER[fam])(*args, **kw)
        except Exception as exc:  # noqa
            it["gen"] = None
            it["res"] = type(exc).__name__
        live.append(it)

    def step(it, how):
        if it["gen"] is None:
            live.remove(it)
            done.append(it)
            return
        try:
            if how == "close":
                it["gen"].close()
                it["closed"] = True
                live.remove(it)
                done.append(it)
                return
            it["nexts"] += 1
            it["yielded"].append(next(it["gen"]))
        except StopIteration:
            it["nexts"] -= 1
            live.remove(it)
            done.append(it)
        except CIMError as exc:
            it["res"], it["code"] = "CIMError", int(exc.status_code)
            live.remove(it)
            done.append(it)
        except Exception as exc:  # noqa
            it["res"] = type(exc).__name__
            live.remove(it)
            done.append(it)

    for _ in range(rng.randint(6, 16)):
        if len(live) < 3 and (not live or rng.random() < 0.35):
            start()
        elif live:
            it = rng.choice(live)
            step(it, "close" if rng.random() < 0.15 else "next")
    while live:
        step(live[0], "next")
    gc.collect()
    left = nctx(conn) - before if before >= 0 else -1
    for i, it in enumerate(done):
        ids = [it["keys"].index(c14.obj_key(o)) + 1
               if c14.obj_key(o) in it["keys"] else 99 for o in it["yielded"]]
        ev = dict(op="Iter", fam=it["fam"], upo=upo, srv=True, fq=False,
                  fqc="none", ot="none", coe=False, moc="ok", mocn=it["mocn"],
                  trad=list(range(1, len(it["keys"]) + 1)),
                  tradok=it["tradok"],
                  consume="close" if it["closed"] else "exhaust",
                  k=it["nexts"] if it["closed"] else 0, faulted=False,
                  res=it["res"], code=it["code"], yielded=ids,
                  pathsok=paths_ok(it["fam"], it["yielded"], False),
                  nctx=left if i == len(done) - 1 else 0, fresh="done")
        events.append(ev)
        info.append(dict(call=it["call"] + " [overlapping iterators]",
                         learned="-", shadow="done", consume=ev["consume"],
                         k=ev["k"], fault=0))
    return events, info


def signature(ev, inf, clauses):
    return "Iter:%s:res=%s%s:upo=%s:learned=%s:srv=%s:%s" % (
        "+".join(sorted(clauses)), ev["res"],
        ev["code"] if ev["res"] == "CIMError" else "", ev["upo"],
        inf["learned"], "on" if ev["srv"] else "off",
        "fqcoe" if (ev["fq"] or ev["coe"]) else "plain")


def run(ctx):
    quick = ctx.tier == "quick"
    ctx.tlc("IterClientImpl", "IterClientImplReprobe.cfg",
            label="re-probing design satisfies the requirement (satisfiable)")
    ctx.tlc("IterClientImpl", "IterClientImplStickyT.cfg",
            label="code shape, use_pull_operations=True")
    ctx.tlc("IterClientImpl", "IterClientImplStickyF.cfg",
            label="code shape, use_pull_operations=False")
    sens = []
    for cfg, what in (("IterClientImplSticky.cfg",
                       "sticky learned flag under capability change "
                       "(use_pull_operations=None) - the design-level "
                       "counterexample behind the two known findings"),
                      ("IterClientImplLeak.cfg",
                       "no CloseEnumeration in finally"),
                      ("IterClientImplParamsFirst.cfg",
                       "server validates the open parameters before it checks "
                       "that pull operations are enabled "
                       "(use_pull_operations=None)"),
                      ("IterClientImplParamsFirstT.cfg",
                       "the same with use_pull_operations=True"),
                      ("IterClientImplPinnedTimeoutFormat.cfg",
                       "a rejected OperationTimeout surfaces as ValueError "
                       "(pinned tree: broken format string in the mock's "
                       "_validate_open_params)")):
        r = ctx.tlc("IterClientImpl", cfg, must_pass=False, count=False,
                    label="must fail: " + what)
        if r.violated != "ImplRefinesReq":
            raise vlib.MachineryError("%s did not violate ImplRefinesReq: %s"
                                      % (cfg, r.violated))
        sens.append("%s violates ImplRefinesReq as required (%s)" % (cfg, what))
    ctx.extra["sensitivity"] = sens
    nh = 240 if quick else 5000
    hists = [run_history(ctx.rng, upo, 2, 0, script=sc)
             for upo, sc in directed_scripts() + directed_open_params()]
    for i in range(nh):
        upo = ["N", "N", "T", "F"][i % 4]
        hists.append(run_history(ctx.rng, upo, ctx.rng.randint(3, 9), i))
    for i in range(40 if quick else 800):
        hists.append(run_overlap(ctx.rng, ["T", "N"][i % 2]))
    verdicts = ctx.validate_traces("IterClientTrace", "IterClientTrace.cfg",
                                   [h[0] for h in hists])
    # every event is judged on its own (the requirement is history-free), so
    # continue after a rejected event: re-validate the remaining suffixes
    pending = []
    for (events, info), v in zip(hists, verdicts):
        pending.append((events, info, v, 0))
    rounds = 0
    while pending and rounds < 12:
        rounds += 1
        nxt = []
        for events, info, v, base in pending:
            if v["ok"]:
                continue
            i = v["at"] - 1
            ev, inf = events[i], info[i]
            sig = signature(ev, inf, v["clauses"])
            ctx.report(sig, "%s on connection use_pull_operations=%s, server "
                       "pull %s, learned flag %s -> %s%s; fresh connection: %s"
                       "; violates %s" % (
                           inf["call"], UPO[ev["upo"]],
                           "on" if ev["srv"] else "off", inf["learned"],
                           ev["res"], ev["code"] or "", ev["fresh"],
                           ", ".join(v["clauses"])),
                       {"event": ev, "info": inf,
                        "history_before": info[:i]})
            if i + 1 < len(events):
                nxt.append((events[i + 1:], info[i + 1:]))
        if not nxt:
            break
        vs = ctx.validate_traces("IterClientTrace", "IterClientTrace.cfg",
                                 [x[0] for x in nxt],
                                 label="trace-validate (suffixes after a "
                                 "rejected event)")
        pending = [(e, i, v, 0) for (e, i), v in zip(nxt, vs)]
    cells = {}
    for events, info in hists:
        for e in events:
            key = "fam%d/upo%s/srv%s" % (e["fam"], e["upo"],
                                         "on" if e["srv"] else "off")
            cells[key] = cells.get(key, 0) + 1
    ctx.extra["configuration_cells_exercised"] = len(cells)
    ctx.actions_bound = {"Iter": sum(cells.values())}
    for events, info in hists[:2]:
        ctx.sample([dict(call=i["call"][:120], res=e["res"], code=e["code"],
                         yielded=e["yielded"], trad=e["trad"], srv=e["srv"],
                         upo=e["upo"], fresh=e["fresh"])
                    for e, i in zip(events[:4], info[:4])])
    ctx.assumptions += [
        "server = FakedWBEMConnection; capability toggled only between calls; "
        "server faults are injected into the mock's Pull provider methods",
        "IterQueryInstances: the mock has no ExecQuery, so only its error and "
        "fallback paths are bound",
        "the mock ignores FilterQuery, so results with FilterQuery equal the "
        "unfiltered traditional result",
        "open parameters a pull-capable server may reject (unsupported filter "
        "language, FilterQuery without language, any OperationTimeout): the "
        "rejection must surface as CIMError (any status code; with "
        "FilterQuery/ContinueOnError the documented ValueError of the "
        "fallback is admissible too) or the call must deliver exactly the "
        "traditional result; a server WITHOUT pull must be handled as for "
        "plain calls whatever the open parameters are",
        "host is required on yielded paths only on the fallback path "
        "(Appendix A)",
    ]


def replay(rep):
    print(rep["what"])
    print("re-run: VERIF_SEED=%s bin/check C15 --tier %s" %
          (rep.get("seed"), rep.get("tier")))
    return 0
