"""
C04 - operations over HTTP/CIM-XML equal the same operations done directly.

Spec:   WireEq.tla (requirement: server saw exactly operation name, namespace
        with default applied and the non-None parameters; same result objects
        or status code; repositories stay equal), WireMarshal.tla (design model
        of namespace selection / None dropping in the marshalling, all call
        shapes; two wrong variants must fail), WireEqTrace.tla.
Binding: harness/facade.py - a transport adapter that decodes the real request
        with pywbem's server-side parsers, executes it on a mock repository and
        encodes the reply with pywbem's CIM-XML classes - carries a real
        WBEMConnection; the same call goes directly to a FakedWBEMConnection on
        an equal repository.  Call shapes enumerated by TLC and seeded
        operation sequences (instance, class, qualifier, association, query,
        open/pull/close, InvokeMethod; several default namespaces) are run on
        both paths and judged by TLC.
"""
import copy
import hashlib
from datetime import timedelta

import pywbem
from pywbem import (CIMInstance, CIMInstanceName, CIMClass, CIMClassName,
                    CIMProperty, CIMQualifier, CIMQualifierDeclaration,
                    CIMParameter, CIMDateTime, CIMError, Uint32, Uint16, Uint8,
                    Uint64, Sint64, Sint8, Real32, Real64, Char16)

import vlib
import mockrepo
import facade
import cimcanon
from mockrepo import NS1, NS2

NAMEISH = ("ClassName", "AssocClass", "ResultClass", "QualifierName", "Role",
           "ResultRole", "ObjectName", "InstanceName")


# classes only this check needs (embedded-object properties)
EXTRA_MOF = """
class VE {
    [Key] uint32 k;
    [EmbeddedInstance("VN0")] string ei;
    [EmbeddedObject] string eo;
    [EmbeddedInstance("VN0")] string eia[];
    string t;
};
"""


_EXTRA_TEMPLATE = []


def _fresh_with_extra():
    """mockrepo.fresh() + the extra classes, from a cached template"""
    if not _EXTRA_TEMPLATE:
        c = mockrepo.fresh()
        for ns in (NS1, NS2):
            c.compile_mof_string(EXTRA_MOF, namespace=ns)
        _EXTRA_TEMPLATE.append(c)
    return copy.deepcopy(_EXTRA_TEMPLATE[0])


def h(x):
    return hashlib.sha1(repr(x).encode("utf-8")).hexdigest()[:12]


def strip(o):
    """remove host / namespace of object names (they travel in the request's
    LOCALNAMESPACEPATH, not in the parameter value)"""
    if isinstance(o, CIMInstanceName):
        q = o.copy()
        q.host = None
        q.namespace = None
        return q
    if isinstance(o, (CIMInstance, CIMClass)):
        q = o.copy()
        q.path = None
        return q
    return o


def valdig(name, v):
    if v is None:
        return "none"
    if isinstance(v, bool):
        return "b:%s" % v
    if isinstance(v, (int, pywbem.CIMInt)):
        return "i:%d" % int(v)
    if isinstance(v, CIMClassName):
        return "s:" + v.classname.lower()
    if isinstance(v, str):
        return "s:" + (v.lower() if name in NAMEISH else v)
    if isinstance(v, (list, tuple)):
        return "l:" + h(tuple(valdig(name, x).lower() for x in v))
    if isinstance(v, (CIMInstanceName, CIMInstance, CIMClass,
                      CIMQualifierDeclaration)):
        return "o:" + h(cimcanon.ncanon(strip(v)))
    return "x:" + h(repr(v))


def mtype(v):
    """CIM type a caller-supplied method parameter value has by itself"""
    if isinstance(v, (list, tuple)):
        for x in v:
            if x is not None:
                return mtype(x)
        return "?"
    if isinstance(v, (CIMInstanceName, CIMClassName)):
        return "reference"
    if isinstance(v, (CIMInstance, CIMClass)):
        return "string"          # embedded objects travel as typed strings
    if isinstance(v, timedelta):
        return "datetime"
    try:
        return pywbem.cimtype(v)
    except (TypeError, ValueError):
        return "?"


def mdig(name, v, t=None):
    """typed digest of an extrinsic method parameter: CIM type, array-ness and
    value (a method parameter is typed on the wire, PARAMTYPE)"""
    if isinstance(v, timedelta):
        v = CIMDateTime(v)
    if isinstance(v, (list, tuple)):
        v = [CIMDateTime(x) if isinstance(x, timedelta) else x for x in v]
    return "t:%s%s:%s" % (t or mtype(v), "[]" if isinstance(v, (list, tuple))
                          else "", valdig(name, v))


def nohost(o):
    if isinstance(o, list):
        return sorted((nohost(x) for x in o), key=repr)
    if isinstance(o, tuple) and hasattr(o, "_fields"):
        return tuple((f, nohost(getattr(o, f))) for f in o._fields
                     if f != "context")
    if isinstance(o, tuple):
        return tuple(nohost(x) for x in o)
    if isinstance(o, (CIMInstanceName, CIMClassName)):
        q = o.copy()
        q.host = None
        return cimcanon.ncanon(q)
    if isinstance(o, (CIMInstance, CIMClass)):
        q = o.copy()
        if q.path is not None:
            q.path.host = None
        return cimcanon.ncanon(q)
    if isinstance(o, dict):
        return tuple(sorted((k.lower(), nohost(v)) for k, v in o.items()))
    return cimcanon.ncanon(o)


UNCOPYABLE = [0]


def dcopy(x):
    """deep copy of a value of the universe; a value pywbem cannot copy (not
    this property's subject) is used as it is and the call that takes it is
    skipped by Pair.call"""
    try:
        return copy.deepcopy(x)
    except Exception:  # noqa
        return x


def outcome(fn):
    try:
        v = fn()
        return dict(kind="value", code=0, dig=h(nohost(v))), v
    except CIMError as exc:
        return dict(kind="cimerror", code=int(exc.status_code), dig=""), None
    except Exception as exc:  # noqa
        return dict(kind="exc", code=0, dig=type(exc).__name__), None


class Pair:
    def __init__(self, dflt):
        self.dflt = dflt
        self.srvA = _fresh_with_extra()
        self.B = _fresh_with_extra()
        for c in (self.srvA, self.B):
            mockrepo.register_method_provider(c)
        self.B.default_namespace = dflt
        self.wire, self.facade = facade.wire_connection(self.srvA, dflt)
        self.events = []
        self.info = []
        self.ctxA = self.ctxB = None

    def repo_dig(self, conn):
        try:
            return h(tuple(sorted(cimcanon.repo_items_norm(conn))))
        except Exception as exc:  # noqa: a stored value that cannot be printed
            return "undigestable:" + type(exc).__name__

    def set_default(self, ns):
        """the caller switches the connection's default namespace (on both
        paths)"""
        self.dflt = ns
        self.wire.default_namespace = ns
        self.B.default_namespace = ns
        # no event of its own: the label is attached to the next call
        self.pending_label = "default_namespace = %r; " % (ns,)

    def call(self, op, args, kwargs, nsarg, wire_params, label=None,
             own=None):
        """op: WBEMConnection method name; args/kwargs: call arguments;
        nsarg: namespace the caller gave ('' if none); wire_params: dict
        parameter name -> value the caller supplied (None kept).
        Each path gets its own copy of the argument objects (a path that
        modifies the caller's objects must not help the other one); `own` =
        ((args, kwargs) for the wire path, (args, kwargs) for the direct
        path) when the caller keeps argument objects alive across calls."""
        self.facade.saw = None
        if own is None:
            try:
                own = (copy.deepcopy((args, kwargs)),
                       copy.deepcopy((args, kwargs)))
            except Exception:  # noqa: pywbem cannot copy an argument value
                UNCOPYABLE[0] += 1
                return None, None
        (aw, kww), (ad, kwd) = own
        ow, vw = outcome(lambda: getattr(self.wire, op)(*aw, **kww))
        od, vd = outcome(lambda: getattr(self.B, op)(*ad, **kwd))
        saw = self.facade.saw
        is_meth = op == "InvokeMethod"
        pre = getattr(self, "pending_label", "")
        self.pending_label = ""
        if saw is None:
            # the call was rejected locally, before anything went on the wire:
            # then the direct path must reject it the same way
            ev = dict(op=op, wire_op=op, nsarg=nsarg.lower(),
                      dflt=self.dflt.lower(), args=[], saw_op=op,
                      saw_ns=(nsarg or self.dflt).lower(), saw_params=[],
                      wire=ow, direct=od, repoA=self.repo_dig(self.srvA),
                      repoB=self.repo_dig(self.B))
        else:
            sp = []
            for item in saw["params"]:
                n, v = item[0], item[-1]
                if saw["kind"] == "method":
                    v = facade.wire_typed(v, item[1])
                if is_meth:
                    sp.append(dict(name=n, dig=mdig(n, v, item[1] or "?")))
                else:
                    sp.append(dict(name=n,
                                   dig=valdig(n, facade.Facade.typed(n, v))))
            ev = dict(op=op, wire_op=saw["name"] if op != "InvokeMethod"
                      else aw[0],
                      nsarg=nsarg.lower(), dflt=self.dflt.lower(),
                      args=[dict(name=n, none=v is None,
                                 dig=(mdig(n, v.value, v.type)
                                      if isinstance(v, CIMParameter)
                                      else mdig(n, v)) if is_meth
                                 else valdig(n, v))
                            for n, v in wire_params.items()],
                      saw_op=saw["name"], saw_ns=(saw["namespace"] or "").lower(),
                      saw_params=sp, wire=ow, direct=od,
                      repoA=self.repo_dig(self.srvA),
                      repoB=self.repo_dig(self.B))
            if op != "InvokeMethod":
                ev["wire_op"] = op
        self.events.append(ev)
        self.info.append(pre + (label or "%s(%s, %s)" % (op, args, kwargs)))
        return vw, vd


# ---------------------------------------------------------------------------
# TLC call shapes (WireMarshal) -> concrete calls
# ---------------------------------------------------------------------------
NSMAP = {"n1": NS1, "n2": NS2, "none": None}
P_EI = [("DeepInheritance", {"v1": True, "v2": False}),
        ("IncludeClassOrigin", {"v1": True, "v2": False}),
        ("PropertyList", {"v1": ["s"], "v2": ["K", "s"]})]
P_GI = [("LocalOnly", {"v1": True, "v2": False}),
        ("IncludeQualifiers", {"v1": True, "v2": False}),
        ("PropertyList", {"v1": ["s"], "v2": []})]
P_OE = [("DeepInheritance", {"v1": True, "v2": False}),
        ("OperationTimeout", {"v1": 10, "v2": 0}),
        ("MaxObjectCount", {"v1": 1, "v2": 100})]


def shape_call(pair, shape, variant):
    _, op, nsarg, objns, p1, p2, p3, dflt = shape
    table = {"GetInstance": P_GI, "EnumerateInstances": P_EI,
             "OpenEnumerateInstances": P_OE}[op]
    kwargs, wp = {}, {}
    for (pname, vals), tok in zip(table, (p1, p2, p3)):
        v = None if tok == "None" else vals[tok]
        kwargs[pname] = v
        wp[pname] = v
    ns_kw = NSMAP[nsarg]
    ns_obj = NSMAP[objns]
    eff = ns_kw or ns_obj or ""
    cls = "VN3"
    if op == "GetInstance":
        path = CIMInstanceName(cls, keybindings={"k": Uint32(1)},
                               namespace=ns_obj)
        # GetInstance has no namespace argument: the object name carries it
        if ns_kw:
            path.namespace = ns_kw
        wp["InstanceName"] = path
        pair.call(op, (path,), kwargs, eff, wp)
    else:
        name = CIMClassName(cls, namespace=ns_obj) if objns != "none" or \
            variant % 2 else cls
        wp["ClassName"] = name
        kw = dict(kwargs)
        if ns_kw:
            kw["namespace"] = ns_kw
        pair.call(op, (name,), kw, eff, wp)


# ---------------------------------------------------------------------------
# seeded operation sequences
# ---------------------------------------------------------------------------
def random_sequence(rng, pair, nops):
    a = lambda k, ns=NS1: CIMInstanceName(  # noqa
        "VA", keybindings={"k": Uint32(k)}, namespace=ns)
    x = lambda i, ns=NS1: CIMInstanceName(  # noqa
        "VX", keybindings={"name": "x%d" % i, "n": Uint16(i)}, namespace=ns)
    opt = lambda v: rng.choice([None, v])  # noqa
    pool = {}
    for step in range(nops):
        r = rng.random()
        nsk = rng.choice([None, None, NS1, NS2])
        nsarg = nsk or ""
        if rng.random() < 0.06:
            pair.set_default(rng.choice([NS1, NS2, NS2, "root/other"]))
        if rng.random() < 0.10:
            reuse_step(rng, pair, pool)
            continue
        if rng.random() < 0.06:
            doall_step(rng, pair)
            continue
        if rng.random() < 0.08:
            rich_instance_step(rng, pair, step)
            continue
        if rng.random() < 0.05:
            embedded_instance_step(rng, pair, step)
            continue
        if rng.random() < 0.06:
            class_step(rng, pair)
            continue
        if r < 0.10:
            cn = rng.choice(["VA", "va", "VN3", "VX", "VNoSuch", "VAssoc"])
            kw = dict(DeepInheritance=opt(rng.random() < 0.5),
                      LocalOnly=opt(False), IncludeQualifiers=opt(True),
                      IncludeClassOrigin=opt(True),
                      PropertyList=opt(rng.choice([["s"], [], ["k", "S"]])))
            wp = dict(kw, ClassName=cn)
            if nsk:
                kw["namespace"] = nsk
            pair.call("EnumerateInstances", (cn,), kw, nsarg, wp)
        elif r < 0.16:
            cn = rng.choice(["VA", "VN5", "VNoSuch"])
            kw = {"namespace": nsk} if nsk else {}
            pair.call("EnumerateInstanceNames", (cn,), kw, nsarg,
                      dict(ClassName=cn))
        elif r < 0.24:
            p = rng.choice([a(1), a(3), a(99), x(1), CIMInstanceName(
                "VN3", keybindings={"k": Uint32(rng.randint(1, 4))},
                namespace=rng.choice([None, NS1, NS2]))])
            kw = dict(PropertyList=opt(["s"]), IncludeQualifiers=opt(False),
                      IncludeClassOrigin=opt(True), LocalOnly=opt(False))
            pair.call("GetInstance", (p,), kw, p.namespace or "",
                      dict(kw, InstanceName=p))
        elif r < 0.32:
            k = rng.randint(1, 9)
            inst = CIMInstance(rng.choice(["VN3", "VN4", "VNoSuch"]),
                               properties=[CIMProperty("k", Uint32(k)),
                                           CIMProperty("s", "w%d" % step)])
            kw = {"namespace": nsk} if nsk else {}
            pair.call("CreateInstance", (inst,), kw, nsarg,
                      dict(NewInstance=inst))
        elif r < 0.38:
            p = CIMInstanceName("VN3", keybindings={"k": Uint32(
                rng.randint(1, 5))}, namespace=rng.choice([NS1, NS2, None]))
            inst = CIMInstance("VN3", properties=[
                CIMProperty("s", "m%d" % step)], path=p)
            kw = dict(PropertyList=opt(["s"]), IncludeQualifiers=opt(True))
            pair.call("ModifyInstance", (inst,), kw, p.namespace or "",
                      dict(kw, ModifiedInstance=inst))
        elif r < 0.43:
            p = CIMInstanceName(rng.choice(["VN3", "VN4"]), keybindings={
                "k": Uint32(rng.randint(1, 5))},
                namespace=rng.choice([NS1, None]))
            pair.call("DeleteInstance", (p,), {}, p.namespace or "",
                      dict(InstanceName=p))
        elif r < 0.55:
            op = rng.choice(["Associators", "AssociatorNames", "References",
                             "ReferenceNames"])
            src = rng.choice([a(1), a(2), x(1), "VA", CIMClassName("VX"),
                              CIMClassName("VA", namespace=NS1)])
            kw = dict(ResultClass=opt(rng.choice(["VX", "vassoc", "VA"])),
                      Role=opt(rng.choice(["left", "right", "a"])))
            if op.startswith("Assoc"):
                kw.update(AssocClass=opt(rng.choice(["VAssoc", "VTern"])),
                          ResultRole=opt(rng.choice(["right", "left"])))
            if not op.endswith("Names"):
                kw.update(IncludeClassOrigin=opt(True),
                          PropertyList=opt(["name", "s"]))
            srcns = getattr(src, "namespace", None) or ""
            pair.call(op, (src,), kw, srcns, dict(kw, ObjectName=src))
        elif r < 0.63:
            cn = rng.choice(["VB", "VA", "vc", "VNoSuch", "VAssoc"])
            kw = dict(LocalOnly=opt(rng.random() < 0.5),
                      IncludeQualifiers=opt(rng.random() < 0.5),
                      IncludeClassOrigin=opt(rng.random() < 0.5),
                      PropertyList=opt(rng.choice([["s"], [], ["K"]])))
            wp = dict(kw, ClassName=cn)
            if nsk:
                kw["namespace"] = nsk
            pair.call("GetClass", (cn,), kw, nsarg, wp)
        elif r < 0.70:
            op = rng.choice(["EnumerateClasses", "EnumerateClassNames"])
            cn = rng.choice([None, "VA", "VB"])
            kw = dict(ClassName=cn, DeepInheritance=opt(rng.random() < 0.5))
            if op == "EnumerateClasses":
                kw.update(LocalOnly=opt(True), IncludeQualifiers=opt(True),
                          IncludeClassOrigin=opt(True))
            wp = dict(kw)
            if nsk:
                kw["namespace"] = nsk
            pair.call(op, (), kw, nsarg, wp)
        elif r < 0.75:
            cls = CIMClass("VW%d" % rng.randint(1, 3), properties=[
                CIMProperty("k", None, type="uint32", propagated=False,
                            qualifiers=[CIMQualifier(
                                "Key", True, propagated=False,
                                overridable=False, tosubclass=True,
                                toinstance=False, translatable=False)]),
                CIMProperty("t", None, type="string", propagated=False)],
                superclass=rng.choice([None, None, "VA", "VNoSuch"]))
            if cls.superclass:
                del cls.properties["k"]
            kw = {"namespace": nsk} if nsk else {}
            pair.call("CreateClass", (cls,), kw, nsarg, dict(NewClass=cls))
        elif r < 0.78:
            cn = rng.choice(["VW1", "VW2", "VN0", "VNoSuch"])
            kw = {"namespace": nsk} if nsk else {}
            pair.call("DeleteClass", (cn,), kw, nsarg, dict(ClassName=cn))
        elif r < 0.83:
            op = rng.choice(["GetQualifier", "DeleteQualifier"])
            qn = rng.choice(["Key", "Description", "VQ1", "NoSuch", "MaxLen"])
            if op == "DeleteQualifier" and qn in ("Key", "Description"):
                qn = "VQ1"
            kw = {"namespace": nsk} if nsk else {}
            pair.call(op, (qn,), kw, nsarg, dict(QualifierName=qn))
        elif r < 0.86:
            kw = {"namespace": nsk} if nsk else {}
            pair.call("EnumerateQualifiers", (), kw, nsarg, {})
        elif r < 0.89:
            qd = CIMQualifierDeclaration(
                "VQ%d" % rng.randint(1, 2), rng.choice(["string", "uint8"]),
                scopes={"PROPERTY": True, "CLASS": rng.random() < 0.5},
                overridable=rng.choice([True, False]),
                tosubclass=rng.choice([True, False]), toinstance=False,
                translatable=rng.choice([True, False]))
            kw = {"namespace": nsk} if nsk else {}
            pair.call("SetQualifier", (qd,), kw, nsarg,
                      dict(QualifierDeclaration=qd))
        elif r < 0.92:
            kw = {"namespace": nsk} if nsk else {}
            pair.call("ExecQuery", ("WQL", "SELECT * FROM VN3"), kw, nsarg,
                      dict(QueryLanguage="WQL", Query="SELECT * FROM VN3"))
        elif r < 0.95:
            obj = rng.choice([a(1), CIMClassName("VA", namespace=NS1), "VA",
                              CIMInstanceName("VM", keybindings={
                                  "k": Uint32(1)}, namespace=NS1),
                              CIMInstanceName("VM", keybindings={
                                  "k": Uint32(1)}),
                              CIMClassName("VM", namespace=NS1), "VM"])
            params = dict(P1=Uint8(rng.choice([0, 3, 255])),
                          P2=rng.choice(["text", "", "TRUE", "FALSE"]),
                          P3=rng.choice([[Uint32(1), Uint32(2)],
                                         [Uint32(70000)]]))
            srcns = getattr(obj, "namespace", None) or ""
            pair.call("InvokeMethod", ("DoIt", obj), params, srcns,
                      dict(params), label="InvokeMethod(DoIt, %s)" % (obj,))
        else:
            # open / pull / close session, each path with its own context
            cn = rng.choice(["VN5", "VN7", "VA"])
            m = rng.choice([1, 2, 3])
            kw = dict(MaxObjectCount=m, DeepInheritance=opt(True),
                      OperationTimeout=opt(30))
            wp = dict(kw, ClassName=cn)
            if nsk:
                kw["namespace"] = nsk
            vw, vd = pair.call("OpenEnumerateInstances", (cn,), kw, nsarg, wp)
            guard = 0
            while vw is not None and vd is not None and not vw.eos and \
                    not vd.eos and guard < 10:
                guard += 1
                if rng.random() < 0.2:
                    _close(pair, vw.context, vd.context)
                    break
                vw, vd = _pull(pair, vw.context, vd.context, m)


# datetime values at the edges of the CIM datetime format: the largest
# interval, intervals of more than 2^53 microseconds (where float arithmetic
# on total seconds is no longer exact) with a .999999 fraction, the first and
# the last timestamp
EDGE_DATETIMES = [
    CIMDateTime(timedelta(days=99999999, seconds=86399, microseconds=999999)),
    CIMDateTime(timedelta(days=200000, seconds=5, microseconds=999999)),
    CIMDateTime(timedelta(days=104250, microseconds=999999)),
    CIMDateTime(timedelta(days=0, seconds=59, microseconds=999999)),
    CIMDateTime("99991231235959.999999+000"),
    CIMDateTime("00010101000000.000000+000"),
]

DOALL_VALUES = {
    "C": [Char16("x"), Char16("\u00e4")],
    "CA": [[Char16("a"), Char16("b")], [Char16("z")]],
    "D": [CIMDateTime("20200101120000.000000+060"),
          CIMDateTime("00000003010203.000004:000"), timedelta(seconds=90)] +
    EDGE_DATETIMES,
    "DA": [[CIMDateTime("20200101120000.000000+000"),
            CIMDateTime("00000000000001.000000:000")],
           EDGE_DATETIMES[:3], EDGE_DATETIMES[3:]],
    "R4": [Real32(1.5), Real32(-0.25)],
    "R8": [Real64(-2.25), Real64(1e100)],
    "S8": [Sint64(-2 ** 63), Sint64(7)],
    "U8A": [[Uint64(2 ** 64 - 1), Uint64(0)]],
    "S1": [Sint8(-128), Sint8(5)],
    "U2A": [[Uint16(65535)], [Uint16(1), Uint16(2), Uint16(3)]],
    "B": [True, False],
    "BA": [[True, False], [False]],
    "S": ["TRUE", "", "text", "1"],
    "SA": [["a", ""], ["x"]],
    "RF": [CIMInstanceName("VA", keybindings={"k": Uint32(1)}),
           CIMInstanceName("VA", keybindings={"k": Uint32(2)},
                           namespace=NS2)],
    "RFA": [[CIMInstanceName("VA", keybindings={"k": Uint32(1)}),
             CIMInstanceName("VB", keybindings={"k": Uint32(3)},
                             namespace=NS1)]],
    "EI": [CIMInstance("VA", {"k": Uint32(1), "s": "e"})],
    "EO": [CIMInstance("VN0", {"k": Uint32(9)})],
}
DOALL_COMMON = ["C", "CA", "D", "DA", "R4", "R8", "S8", "U8A", "S1", "U2A",
                "B", "BA", "S", "SA", "RF", "RFA"]


def doall_step(rng, pair):
    """InvokeMethod with input parameters of every CIM type, scalar and array,
    in every way a caller can pass them: keyword argument, (name, value) tuple
    or CIMParameter in Params (the type is inferred from the value in the first
    two)"""
    names = rng.sample(DOALL_COMMON, rng.randint(1, 5))
    if rng.random() < 0.15:
        names.append(rng.choice(["EI", "EO"]))
    plist, kw, wp = [], {}, {}
    for n in names:
        v = dcopy(rng.choice(DOALL_VALUES[n]))
        style = rng.choice(["kw", "tuple", "cimparam"])
        if style == "cimparam" and n not in ("EI", "EO") and \
                not isinstance(v, timedelta):
            t = mtype(v)
            cp = CIMParameter(n, t, value=v, is_array=isinstance(v, list))
            plist.append(cp)
            wp[n] = cp
        elif style == "tuple":
            plist.append((n, v))
            wp[n] = v
        else:
            kw[n] = v
            wp[n] = v
    obj = rng.choice([CIMInstanceName("VM", keybindings={"k": Uint32(1)},
                                      namespace=NS1),
                      CIMInstanceName("VM", keybindings={"k": Uint32(1)}),
                      CIMInstanceName("VM", keybindings={"k": Uint32(1)},
                                      namespace=NS2)])
    srcns = obj.namespace or ""
    pair.call("InvokeMethod", ("DoAll", obj, plist), kw, srcns, wp,
              label="InvokeMethod(DoAll, %s, Params=%r, %r)" % (obj, plist, kw))


def embedded_instance_step(rng, pair, step):
    """Instances with embedded-instance / embedded-object properties: valued,
    NULL (the property still says it is embedded), arrays"""
    k = rng.randint(70, 75)
    ns = rng.choice([None, NS1, NS2])
    emb = CIMInstance("VN0", properties=[CIMProperty("k", Uint32(5)),
                                        CIMProperty("s", "in")])
    props = [CIMProperty("k", Uint32(k)),
             CIMProperty("ei", rng.choice([None, emb]), type="string",
                         embedded_object="instance"),
             CIMProperty("eo", rng.choice([None, emb]), type="string",
                         embedded_object="object"),
             CIMProperty("eia", rng.choice([None, [], [emb], [emb, emb]]),
                         type="string", is_array=True,
                         embedded_object="instance"),
             CIMProperty("t", rng.choice([None, "t"] + EDGE_TEXTS),
                         type="string")]
    keep = [props[0]] + [p for p in props[1:] if rng.random() < 0.7]
    inst = CIMInstance("VE", properties=keep)
    kw = {"namespace": ns} if ns else {}
    pair.call("CreateInstance", (inst,), kw, ns or "", dict(NewInstance=inst))
    path = CIMInstanceName("VE", keybindings={"k": Uint32(k)}, namespace=ns)
    minst = CIMInstance("VE", properties=[p for p in props[1:]
                                           if rng.random() < 0.5], path=path)
    pair.call("ModifyInstance", (minst,), {}, ns or "",
              dict(ModifiedInstance=minst))
    pair.call("GetInstance", (path,), {}, ns or "", dict(InstanceName=path))
    kw = dict(DeepInheritance=True)
    wp = dict(kw, ClassName="VE")
    if ns:
        kw["namespace"] = ns
    pair.call(rng.choice(["EnumerateInstances", "OpenEnumerateInstances"]),
              ("VE",), kw, ns or "", wp)


ALL_CLASSES = ["VA", "VB", "VC", "VX", "VAssoc", "VAssocSub", "VTern", "VM",
               "VE", "VN0"]


def class_step(rng, pair):
    """Class retrieval for every class of the schema (plain, subclass,
    association, association subclass, ternary association, methods,
    embedded properties) with every combination of the flags"""
    cn = rng.choice(ALL_CLASSES)
    ns = rng.choice([None, NS1, NS2])
    flags = dict(LocalOnly=rng.choice([None, True, False]),
                 IncludeQualifiers=rng.choice([None, True, False]),
                 IncludeClassOrigin=rng.choice([None, True, True, False]))
    op = rng.choice(["GetClass", "GetClass", "EnumerateClasses", "References",
                     "Associators"])
    if op == "GetClass":
        kw = dict(flags)
        wp = dict(kw, ClassName=cn)
        if ns:
            kw["namespace"] = ns
        pair.call("GetClass", (cn,), kw, ns or "", wp)
    elif op == "EnumerateClasses":
        kw = dict(flags, ClassName=cn, DeepInheritance=rng.choice(
            [None, True]))
        wp = dict(kw)
        if ns:
            kw["namespace"] = ns
        pair.call("EnumerateClasses", (), kw, ns or "", wp)
    else:
        src = CIMClassName(rng.choice(["VA", "VX"]), namespace=ns)
        kw = dict(IncludeClassOrigin=flags["IncludeClassOrigin"],
                  IncludeQualifiers=flags["IncludeQualifiers"])
        pair.call(op, (src,), kw, ns or "", dict(kw, ObjectName=src))


def _plist(rng, names):
    """PropertyList in every container shape a caller may use"""
    pl = rng.choice([None, [], (), names, tuple(names), names[:1],
                     tuple(names[:1]), [n.upper() for n in names]])
    return pl


def rich_instance_step(rng, pair, step):
    """Instances with properties of every type, arrays with NULL entries in
    every multiplicity and position, empty arrays, NULL values; created,
    modified and read back, with PropertyList as list / tuple / empty"""
    cls = rng.choice(["VA", "VB", "VC"])
    k = rng.randint(50, 56)
    ns = rng.choice([None, NS1, NS2])
    arr = rng.choice([None, [], [Uint8(1)], [None], [None, None],
                      [Uint8(1), None, Uint8(3), None],
                      [None, Uint8(2), None], [Uint8(0), Uint8(255)]])
    props = [CIMProperty("k", Uint32(k)),
             CIMProperty("s", rng.choice(["", "x<&>\"'", MULTI_TEXT, None] +
                                         EDGE_TEXTS),
                         type="string"),
             CIMProperty("u8a", arr, type="uint8", is_array=True),
             CIMProperty("d", rng.choice([
                 None, CIMDateTime("20200101120000.000000+060"),
                 CIMDateTime("00000003010203.000004:000")] + EDGE_DATETIMES),
                 type="datetime"),
             CIMProperty("b", rng.choice([None, True, False]),
                         type="boolean"),
             CIMProperty("i64", rng.choice([None, Sint64(-2 ** 63),
                                            Sint64(2 ** 63 - 1)]),
                         type="sint64"),
             CIMProperty("r", rng.choice([None, Real64(1.5), Real64(-1e300),
                                          Real64(0.1)]), type="real64")]
    if cls in ("VB", "VC"):
        props.append(CIMProperty("sb", rng.choice([None, "b"]),
                                 type="string"))
    rng.shuffle(props)
    props = props[:rng.randint(1, len(props))]
    if not any(p.name == "k" for p in props):
        props.append(CIMProperty("k", Uint32(k)))
    inst = CIMInstance(cls, properties=props)
    kw = {"namespace": ns} if ns else {}
    pair.call("CreateInstance", (inst,), kw, ns or "", dict(NewInstance=inst))
    path = CIMInstanceName(cls, keybindings={"k": Uint32(k)}, namespace=ns)
    mprops = [p for p in props if p.name != "k"]
    rng.shuffle(mprops)
    minst = CIMInstance(cls, properties=mprops[:rng.randint(0, len(mprops))],
                        path=path)
    pl = _plist(rng, ["u8a", "s"])
    kw = dict(PropertyList=pl)
    pair.call("ModifyInstance", (minst,), kw, ns or "",
              dict(kw, ModifiedInstance=minst))
    pl = _plist(rng, ["u8a", "d", "K"])
    kw = dict(PropertyList=pl, IncludeClassOrigin=rng.choice([None, True]))
    pair.call("GetInstance", (path,), kw, ns or "",
              dict(kw, InstanceName=path))
    pl = _plist(rng, ["s", "u8a"])
    kw = dict(PropertyList=pl, DeepInheritance=rng.choice([None, True]))
    wp = dict(kw, ClassName=cls)
    if ns:
        kw["namespace"] = ns
    pair.call("EnumerateInstances", (cls,), kw, ns or "", wp)


MULTI_TEXT = "Gr\u00fc\u00dfe \u20ac \u65e5\u672c \U0001F600"
# characters at the edges of the XML Char production
EDGE_TEXTS = ["a\ud7ffb", "\ue000", "x\ufffd", "\U00010000y", "\t\n ",
              "\U0010ffff", "\u0085\u2028"]


def reuse_step(rng, pair, pool):
    """the caller keeps object-name arguments alive and passes the same
    objects (without namespace) to several operations, possibly after having
    switched the default namespace: each path owns one long-lived copy"""
    key = rng.choice(["vm", "va", "cva"])
    if key not in pool:
        mk = {"vm": lambda: CIMInstanceName("VM", keybindings={"k": Uint32(1)}),
              "va": lambda: CIMInstanceName("VA", keybindings={"k": Uint32(1)}),
              "cva": lambda: CIMClassName("VA")}[key]
        pool[key] = (mk(), mk(), mk())
    ow_, od_, pristine = pool[key]
    if key == "vm":
        op = rng.choice(["InvokeMethod", "InvokeMethod", "GetInstance"])
    elif key == "va":
        op = rng.choice(["InvokeMethod", "GetInstance", "AssociatorNames",
                         "ReferenceNames"])
    else:
        op = rng.choice(["InvokeMethod", "EnumerateInstanceNames",
                         "AssociatorNames", "EnumerateInstances"])
    if op == "InvokeMethod":
        params = dict(P1=Uint8(1), P2="r")
        pair.call(op, None, None, "", dict(params),
                  label="InvokeMethod(DoIt, <kept %s>)" % (pristine,),
                  own=((("DoIt", ow_), dict(params)),
                       (("DoIt", od_), dict(params))))
    else:
        pname = {"GetInstance": "InstanceName",
                 "EnumerateInstanceNames": "ClassName",
                 "EnumerateInstances": "ClassName"}.get(op, "ObjectName")
        pair.call(op, None, None, "", {pname: pristine},
                  label="%s(<kept %s>)" % (op, pristine),
                  own=(((ow_,), {}), ((od_,), {})))


MH_VALUES = {
    "char16": (Char16("x"), [Char16("a"), Char16("b")], "C", "CA"),
    "str": ("text", ["a", ""], "S", "SA"),
    "bool": (False, [True, False], "B", "BA"),
    "uint8": (Sint8(-5), [Uint16(1), Uint16(2)], "S1", "U2A"),
    "real32": (Real32(1.5), None, "R4", None),
    "datetime": (CIMDateTime("20200101120000.000000+060"),
                 [CIMDateTime("00000000000001.000000:000")], "D", "DA"),
    "ref": (CIMInstanceName("VA", keybindings={"k": Uint32(1)}),
            [CIMInstanceName("VA", keybindings={"k": Uint32(2)},
                             namespace=NS2)], "RF", "RFA"),
}
MH_NS = {"n1": NS1, "n2": NS2}


def method_history(rng, dflt, hist):
    """One TLC-enumerated history of WireMethod.tla on both paths: kept
    object names (built with / without namespace), InvokeMethod with one
    parameter of a Python value class in a passing style, default-namespace
    switches, intrinsic operations on the kept objects."""
    pair = Pair(MH_NS[dflt])
    kept = {}
    for st in hist:
        if st["k"] == "switch":
            pair.set_default(MH_NS[st["d"]])
            continue
        o = st["o"]
        if o not in kept:
            mk = lambda: CIMInstanceName(  # noqa
                "VM", keybindings={"k": Uint32(1)},
                namespace=NS1 if o == "oN1" else None)
            kept[o] = (mk(), mk(), mk())
        ow_, od_, pristine = kept[o]
        nsarg = pristine.namespace or ""
        if st["k"] == "intrinsic":
            pair.call("GetInstance", None, None, nsarg,
                      {"InstanceName": pristine},
                      label="GetInstance(<kept %s>)" % (pristine,),
                      own=(((ow_,), {}), ((od_,), {})))
            continue
        sc, ar, nsc, nar = MH_VALUES[st["v"]["id"]]
        arr = ar is not None and rng.random() < 0.4
        v, n = (dcopy(ar), nar) if arr else (dcopy(sc), nsc)
        if st["style"] == "cimparam":
            arg = CIMParameter(n, mtype(v), value=v, is_array=arr)
            calls = [(("DoAll", ow_, [dcopy(arg)]), {}),
                     (("DoAll", od_, [dcopy(arg)]), {})]
        elif st["style"] == "tuple":
            arg = v
            calls = [(("DoAll", ow_, [(n, dcopy(v))]), {}),
                     (("DoAll", od_, [(n, dcopy(v))]), {})]
        else:
            arg = v
            calls = [(("DoAll", ow_), {n: dcopy(v)}),
                     (("DoAll", od_), {n: dcopy(v)})]
        pair.call("InvokeMethod", None, None, nsarg, {n: arg},
                  label="InvokeMethod(DoAll, <kept %s>, %s=%r as %s)" % (
                      pristine, n, v, st["style"]),
                  own=tuple(calls))
    return pair


def _pull(pair, cw, cd, m):
    pair.facade.saw = None
    ow, vw = outcome(lambda: pair.wire.PullInstancesWithPath(
        cw, MaxObjectCount=m))
    od, vd = outcome(lambda: pair.B.PullInstancesWithPath(
        cd, MaxObjectCount=m))
    saw = pair.facade.saw
    ev = dict(op="PullInstancesWithPath", wire_op="PullInstancesWithPath",
              nsarg=cw[1].lower(), dflt=pair.dflt.lower(),
              args=[dict(name="MaxObjectCount", none=False,
                         dig=valdig("MaxObjectCount", m)),
                    dict(name="EnumerationContext", none=False,
                         dig=valdig("EnumerationContext", cw[0]))],
              saw_op=saw["name"], saw_ns=(saw["namespace"] or "").lower(),
              saw_params=[dict(name=n, dig=valdig(
                  n, facade.Facade.typed(n, v))) for n, v in saw["params"]],
              wire=ow, direct=od, repoA=pair.repo_dig(pair.srvA),
              repoB=pair.repo_dig(pair.B))
    pair.events.append(ev)
    pair.info.append("PullInstancesWithPath(max=%d)" % m)
    return vw, vd


def _close(pair, cw, cd):
    pair.facade.saw = None
    ow, _ = outcome(lambda: pair.wire.CloseEnumeration(cw))
    od, _ = outcome(lambda: pair.B.CloseEnumeration(cd))
    saw = pair.facade.saw
    ev = dict(op="CloseEnumeration", wire_op="CloseEnumeration",
              nsarg=cw[1].lower(), dflt=pair.dflt.lower(),
              args=[dict(name="EnumerationContext", none=False,
                         dig=valdig("EnumerationContext", cw[0]))],
              saw_op=saw["name"], saw_ns=(saw["namespace"] or "").lower(),
              saw_params=[dict(name=n, dig=valdig(n, v))
                          for n, v in saw["params"]],
              wire=ow, direct=od, repoA=pair.repo_dig(pair.srvA),
              repoB=pair.repo_dig(pair.B))
    pair.events.append(ev)
    pair.info.append("CloseEnumeration")


def signature(ev, clauses):
    return "%s:%s:%s/%s" % (ev["op"], "+".join(sorted(clauses)),
                            ev["wire"]["kind"], ev["direct"]["kind"])


def run(ctx):
    quick = ctx.tier == "quick"
    ctx.tlc("WireMarshal", "WireMarshal.cfg",
            label="marshalling: namespace selection and None dropping, all "
            "call shapes")
    sens = []
    for cfg, what in (("WireMarshalLegacyNone.cfg",
                       "None-valued parameters sent"),
                      ("WireMarshalLegacyObjNs.cfg",
                       "namespace of the object name ignored")):
        r = ctx.tlc("WireMarshal", cfg, must_pass=False, count=False,
                    label="must fail: " + what)
        if r.violated is None:
            raise vlib.MachineryError("%s did not fail" % cfg)
        sens.append("%s violates %s as required (%s)" % (cfg, r.violated, what))
    ctx.extra["sensitivity"] = sens
    rg = ctx.tlc("WireMarshal", "WireMarshalGen.cfg", workers=1, count=False,
                 label="enumeration of all call shapes")
    shapes = rg.printed("CALL")
    if quick:
        ctx.rng.shuffle(shapes)
        shapes = shapes[:400]
    pairs = []
    by_dflt = {}
    for i, sh in enumerate(shapes):
        dflt = NSMAP[sh[-1]]
        p = by_dflt.get(dflt)
        if p is None or len(p.events) >= 60:
            p = Pair(dflt)
            by_dflt[dflt] = p
            pairs.append(p)
        shape_call(p, sh, i)
    ctx.extra["tlc_call_shapes_replayed"] = len(shapes)
    # -- InvokeMethod inside histories with kept argument objects -------------
    ctx.tlc("WireMethod", "WireMethod.cfg",
            label="method marshalling in histories: target namespace, "
            "inferred parameter types, caller objects untouched")
    for cfg, what in (("WireMethodLegacyAlias.cfg",
                       "caller's object name normalised in place"),
                      ("WireMethodLegacyInfer.cfg",
                       "builtin types tested before CIMType in infer_type")):
        r = ctx.tlc("WireMethod", cfg, must_pass=False, count=False,
                    label="must fail: " + what)
        if r.violated != "ServerSawWhatCallerSupplied":
            raise vlib.MachineryError("%s did not fail" % cfg)
        sens.append("%s violates %s as required (%s)" % (cfg, r.violated, what))
    hists = []
    for cfg in ("WireMethodGen2.cfg", "WireMethodGen3.cfg"):
        rg = ctx.tlc("WireMethod", cfg, workers=1, count=False,
                     label="enumeration of method-call histories")
        hs = rg.printed("MH")
        ctx.rng.shuffle(hs)
        hs = hs[:90 if quick else 1200]
        hists += hs
    for _, d0, hist in hists:
        pairs.append(method_history(ctx.rng, d0, list(hist)))
    ctx.extra["tlc_method_histories_replayed"] = len(hists)
    ctx.extra["calls_skipped_because_pywbem_could_not_copy_an_argument"] = \
        UNCOPYABLE[0]
    nseq = 40 if quick else 350
    for i in range(nseq):
        p = Pair(ctx.rng.choice([NS1, NS1, NS2, "root/other"]))
        random_sequence(ctx.rng, p, ctx.rng.randint(8, 25))
        pairs.append(p)
    verdicts = ctx.validate_traces("WireEqTrace", "WireEqTrace.cfg",
                                   [p.events for p in pairs])
    pending = [(p.events, p.info, v) for p, v in zip(pairs, verdicts)]
    rounds = 0
    while pending and rounds < 20:
        rounds += 1
        nxt = []
        for events, info, v in pending:
            if v["ok"]:
                continue
            k = v["at"] - 1
            ev = events[k]
            ctx.report(signature(ev, v["clauses"]),
                       "%s: wire %s vs direct %s; server saw %s ns=%s %s; "
                       "violates %s" % (info[k][:200], ev["wire"], ev["direct"],
                                        ev["saw_op"], ev["saw_ns"],
                                        [x["name"] for x in ev["saw_params"]],
                                        ", ".join(v["clauses"])),
                       {"history": info[:k + 1], "event": ev})
            if k + 1 < len(events) and ev["repoA"] == ev["repoB"]:
                nxt.append((events[k + 1:], info[k + 1:]))
        if not nxt:
            break
        vs = ctx.validate_traces("WireEqTrace", "WireEqTrace.cfg",
                                 [x[0] for x in nxt],
                                 label="trace-validate (suffixes)")
        pending = [(e, i, v) for (e, i), v in zip(nxt, vs)]
    ops = {}
    for p in pairs:
        for e in p.events:
            k = "%s:%s" % (e["op"], e["wire"]["kind"])
            ops[k] = ops.get(k, 0) + 1
    ctx.actions_bound = ops
    ctx.sample({"history": pairs[-1].info[:6],
                "event": pairs[-1].events[0] if pairs[-1].events else None})
    ctx.assumptions += [
        "the server side of the wire is harness/facade.py: pywbem's own "
        "server-side parsers + the mock's _mock_imethodcall/_mock_methodcall "
        "+ encoding with pywbem._cim_xml; faults shared by both paths are "
        "invisible by construction",
        "results are compared as bags of canonical objects with host removed; "
        "enumeration contexts are opaque per path",
        "parameter values are compared by canonical digest, object names "
        "without namespace/host (they travel in LOCALNAMESPACEPATH)",
    ]


def replay(rep):
    print(rep["what"])
    for hline in rep["case"]["history"]:
        print("  ", hline[:200])
    return 0
