"""
C16 - accepted indications reach each callback exactly once, in order; stop()
is clean - under every interleaving.

Spec:   Listener.tla (PlusCal design model of main / callback thread / sender+
        handler threads; TLC checks ExactlyOnce, NeverTwice, CallbackOrder,
        SenderFifo, NoHandlerCrash, StopClean and Termination over ALL
        interleavings; the legacy re-read-the-queue-reference variant and a
        stop order that stops delivery first must fail), ListenerReq.tla
        (requirement machine for observed executions), ListenerTrace.tla.
Binding: the REAL WBEMListener runs under a serialising scheduler
        (harness/sched.py: module-namespace shims for queue/sleep/
        CallbackThread/make_server, `_ind_queue` as a property) so that a
        schedule decides every preemption between synchronising operations;
        schedules come from TLC-simulated behaviours of Listener.tla (thread
        choice per step) and from seeded random / priority-change (PCT style)
        choosers; sender threads run the real ListenerRequestHandler.do_POST.
        A second tier runs the unmodified listener on loopback sockets with OS
        scheduling.  All recorded executions are judged by TLC.
"""
import json
import socket
import threading
import time
import http.client

import vlib
import sched as S

FIELDS = dict(ev="", ncb=0, ok=True, exc="", s="", n=0, kind="", c=0,
              raised=False, threads=0, server_closed=True, outcome="")


def norm(events):
    out = []
    for e in events:
        d = dict(FIELDS)
        d.update(e)
        out.append(d)
    return out


def thread_of(action):
    name, arg = action
    if name[0] == "M":
        return "main"
    if name[0] == "C":
        return "cb"
    if name[0] == "A":
        return "adder"
    return arg


class GuidedChooser:
    """Follows a TLC behaviour's thread order as far as the granularity of
    the real code allows, then falls back to seeded random choice."""

    def __init__(self, rng, order):
        self.rng = rng
        self.order = list(order)
        self.i = 0
        self.burst = 0

    def __call__(self, ready, sched):
        while self.i < len(self.order):
            t = self.order[self.i]
            if t in ready:
                self.burst += 1
                if self.burst >= self.rng.randint(1, 3):
                    self.i += 1
                    self.burst = 0
                return t
            self.i += 1
            self.burst = 0
        return self.rng.choice(ready)


class PctChooser:
    """Random priorities with a few priority-change points (finds races that
    need a specific preemption)."""

    def __init__(self, rng, names, nchanges=3, horizon=150):
        self.rng = rng
        self.prio = {n: rng.random() for n in names}
        self.changes = sorted(rng.randint(1, horizon) for _ in range(nchanges))
        self.k = 0

    def __call__(self, ready, sched):
        self.k += 1
        if self.changes and self.k >= self.changes[0]:
            self.changes.pop(0)
            t = max(ready, key=lambda n: self.prio.get(n, 0.5))
            self.prio[t] = -self.rng.random()
        if self.rng.random() < 0.15:
            return self.rng.choice(ready)
        return max(ready, key=lambda n: self.prio.get(n, 0.5))


def run_scenario(rng, chooser_kind, order=None, params=None):
    p = params or dict(
        senders=["s1", "s2", "s3"][:rng.randint(1, 3)],
        nind=rng.randint(1, 3), ncb=rng.randint(1, 2),
        maxq=rng.choice([0, 0, 1, 2]), raising_cb=rng.choice([0, 0, 1, 2]),
        restart=rng.random() < 0.3, slow_steps=rng.choice([1, 1, 2, 4]),
        raise_kind=rng.choice(S.RAISE_KINDS), late_cb=rng.random() < 0.3)
    if p["raising_cb"] > p["ncb"]:
        p["raising_cb"] = 0
    sc = S.Scenario(**p)
    names = ["main", "cb"] + p["senders"] + \
        (["adder"] if p.get("late_cb") else [])
    if chooser_kind == "guided":
        ch = GuidedChooser(rng, order)
    elif chooser_kind == "pct":
        ch = PctChooser(rng, names)
    else:
        ch = lambda rd, s: rng.choice(rd)  # noqa
    outcome = sc.run(ch)
    return dict(params=p, outcome=outcome, events=norm(sc.sched.events),
                schedule=sc.sched.trace, chooser=chooser_kind)


# -- uncontrolled tier: unmodified listener on loopback sockets --------------

STOP_WATCHDOG = 45      # seconds a stop() may take before it counts as hanging
#                         (the listener's own waits are 2 s queue polls)


def free_port():
    so = socket.socket()
    so.bind(("127.0.0.1", 0))
    port = so.getsockname()[1]
    so.close()
    return port


def run_real(rng, nsenders, nind, ncb, maxq, slow, raising_cb=0,
             raise_kind="msg", late_after=None):
    """`raising_cb`: number of the callback that raises (`raise_kind`: with
    or without exception arguments).  `late_after`: if not None, one sender
    sends sequentially and after that many acknowledged indications the
    application registers callback ncb+1 with add_callback()."""
    import pywbem
    events = []
    lock = threading.Lock()

    def emit(**e):
        with lock:
            events.append(e)

    listener = None
    for _ in range(5):
        port = free_port()
        listener = pywbem.WBEMListener("127.0.0.1", http_port=port,
                                       max_ind_queue_size=maxq)

        def mk(c):
            def cb(ind, host):
                if slow:
                    time.sleep(slow)
                emit(ev="deliver", c=c, s=ind["Sender"], n=int(ind["Seq"]),
                     raised=(c == raising_cb))
                if c == raising_cb:
                    raise S.make_exception(raise_kind, c)
            cb.__name__ = "cb%d" % c
            return cb
        for c in range(1, ncb + 1):
            listener.add_callback(mk(c))
        try:
            listener.start()
            break
        except pywbem.ListenerPortError:
            listener = None
    if listener is None:
        raise vlib.MachineryError("no free loopback port for the real tier")
    emit(ev="started", ncb=ncb, ok=True)
    before = set(t.ident for t in threading.enumerate())

    def sender(s):
        for n in range(1, nind + 1):
            if late_after is not None and n == late_after + 1:
                try:
                    listener.add_callback(mk(ncb + 1))
                    aexc = ""
                except Exception as e:  # noqa
                    aexc = type(e).__name__
                emit(ev="add_callback", c=ncb + 1, exc=aexc)
            emit(ev="req", s=s, n=n)
            try:
                conn = http.client.HTTPConnection("127.0.0.1", port, timeout=10)
                body = S.export_request(s, n)
                conn.request("POST", "/", body=body, headers={
                    "Content-Type": "application/xml; charset=utf-8",
                    "CIMExport": "MethodRequest",
                    "CIMExportMethod": "ExportIndication"})
                r = conn.getresponse()
                data = r.read()
                conn.close()
                kind = "ok" if r.status == 200 and b"<ERROR" not in data \
                    else ("err" if r.status == 200 else "http%d" % r.status)
            except ConnectionRefusedError:
                kind = "refused"
            except Exception:  # noqa
                kind = "dropped"
            emit(ev="resp", s=s, n=n, kind=kind)
            if kind == "refused":
                break
    ths = [threading.Thread(target=sender, args=("s%d" % (i + 1),))
           for i in range(nsenders)]
    for t in ths:
        t.start()
    if late_after is not None:
        for t in ths:
            t.join(30)
    time.sleep(rng.choice([0.0, 0.01, 0.05]))
    # stop() under a watchdog: a stop() that never returns must end up as an
    # event of the trace, not as a hanging check
    box = {}

    def stopper():
        try:
            listener.stop()
            box["exc"] = ""
        except Exception as e:  # noqa
            box["exc"] = type(e).__name__
    st = threading.Thread(target=stopper, daemon=True)
    st.start()
    st.join(STOP_WATCHDOG)
    exc = box.get("exc", "StopDidNotReturn")
    for t in ths:
        t.join(20)
    left = [t for t in threading.enumerate()
            if t.name in ("CallbackThread", "http", "https") and t.is_alive()]
    # the port must be free again
    try:
        so = socket.socket()
        # like HTTPServer (allow_reuse_address): connections in TIME_WAIT do
        # not count, only a socket that is still listening does
        so.setsockopt(socket.SOL_SOCKET, socket.SO_REUSEADDR, 1)
        so.bind(("127.0.0.1", port))
        so.close()
        released = True
    except OSError:
        released = False
    # events of requests finishing after stop() returned are still "pending"
    # at the stop event; order the stop event after them (senders joined)
    emit(ev="stop_returned", exc=exc, threads=len(left),
         server_closed=released)
    emit(ev="end", outcome="done")
    return dict(params=dict(nsenders=nsenders, nind=nind, ncb=ncb, maxq=maxq,
                            slow=slow, raising_cb=raising_cb,
                            raise_kind=raise_kind, late_after=late_after),
                outcome="done", events=norm(events),
                schedule=[], chooser="os")


def run_real_inflight(rng, ncb, registration):
    """Real sockets: a request whose body is still arriving when stop() is
    called (a slow sender).  stop() must not return while the request is
    being handled; an acknowledged indication must have been delivered.
    `registration`: how callbacks are registered - plain functions, bound
    methods, or bound methods registered twice (add_callback documents that
    a callback that is already registered is not added again)."""
    import pywbem
    events = []
    lock = threading.Lock()

    def emit(**e):
        with lock:
            events.append(e)

    class Sink:
        def __init__(self, c):
            self.c = c

        def on_indication(self, ind, host):
            emit(ev="deliver", c=self.c, s=ind["Sender"], n=int(ind["Seq"]))

    listener = None
    for _ in range(5):
        port = free_port()
        listener = pywbem.WBEMListener("127.0.0.1", http_port=port)
        sinks = [Sink(c) for c in range(1, ncb + 1)]
        for k in sinks:
            if registration == "function":
                listener.add_callback(
                    lambda ind, host, k=k: k.on_indication(ind, host))
            else:
                listener.add_callback(k.on_indication)
        if registration == "method-twice":
            for k in sinks:
                listener.add_callback(k.on_indication)
        try:
            listener.start()
            break
        except pywbem.ListenerPortError:
            listener = None
    if listener is None:
        raise vlib.MachineryError("no free loopback port for the real tier")
    emit(ev="started", ncb=ncb, ok=True)
    body = S.export_request("s1", 1)
    head = ("POST / HTTP/1.1\r\nHost: x\r\nContent-Type: application/xml; "
            "charset=utf-8\r\nCIMExport: MethodRequest\r\n"
            "CIMExportMethod: ExportIndication\r\nContent-Length: %d\r\n"
            "Connection: close\r\n\r\n" % len(body)).encode("ascii")
    cut = rng.randint(1, len(body) - 1)
    so = socket.create_connection(("127.0.0.1", port), timeout=15)
    emit(ev="req", s="s1", n=1)
    so.sendall(head + body[:cut])
    time.sleep(0.15)         # the handler thread is now reading the body

    def stopper():
        try:
            listener.stop()
            exc = ""
        except Exception as e:  # noqa
            exc = type(e).__name__
        left = [t for t in threading.enumerate()
                if t.name in ("CallbackThread", "http", "https") and
                t.is_alive()]
        emit(ev="stop_returned", exc=exc, threads=len(left),
             server_closed=True)
    st = threading.Thread(target=stopper, daemon=True)
    st.start()
    time.sleep(0.4)          # stop() is in progress (or, wrongly, finished)
    kind = "dropped"
    try:
        so.sendall(body[cut:])
        data = b""
        while True:
            chunk = so.recv(65536)
            if not chunk:
                break
            data += chunk
        kind = S.classify_response(data)
    except Exception:  # noqa
        kind = "dropped"
    finally:
        so.close()
    emit(ev="resp", s="s1", n=1, kind=kind)
    st.join(STOP_WATCHDOG)
    if st.is_alive():
        emit(ev="stop_returned", exc="StopDidNotReturn", threads=1,
             server_closed=False)
    time.sleep(0.2)
    emit(ev="end", outcome="done")
    # the response event is logged when the sender has read it; stop() may
    # legitimately return between the handler's last byte and that moment:
    # order the stop event after the response it waited for
    evs = list(events)
    i_stop = next((i for i, e in enumerate(evs)
                   if e["ev"] == "stop_returned"), None)
    i_resp = next((i for i, e in enumerate(evs) if e["ev"] == "resp"), None)
    ndel = sum(1 for e in evs if e["ev"] == "deliver")
    if i_stop is not None and i_resp is not None and i_stop < i_resp and \
            evs[i_resp]["kind"] == "ok" and ndel >= ncb:
        # acknowledged and delivered to every callback: only the sender's
        # reading of the response was late
        r = evs.pop(i_resp)
        evs.insert(i_stop, r)
    return dict(params=dict(inflight=True, ncb=ncb, registration=registration,
                            cut=cut), outcome="done", events=norm(evs),
                schedule=[], chooser="os")


def signature(ev, clauses):
    s = "%s:%s" % (ev["ev"], "+".join(sorted(clauses)))
    if ev["ev"] == "stop_returned" and ev["exc"]:
        s += ":" + ev["exc"]
    return s


def run(ctx):
    import logging
    logging.getLogger("pywbem.listener").setLevel(logging.CRITICAL + 1)
    logging.getLogger("pywbem").setLevel(logging.CRITICAL + 1)
    logging.disable(logging.CRITICAL)
    quick = ctx.tier == "quick"
    ctx.tlc("Listener", "Listener.cfg", coverage=False,
            label="all interleavings, 2 senders x 2 indications x 2 callbacks, "
            "queue bound 1: safety + Termination")
    ctx.tlc("Listener", "ListenerLate.cfg", coverage=False,
            label="all interleavings, 2 senders x 1 indication, 1 callback "
            "plus one registered by add_callback() while the listener runs")
    sens = []
    for cfg, inv, what in (
            ("ListenerLateSnapshot.cfg", "ExactlyOnce",
             "callback thread works on a copy of the callback list taken "
             "when it starts"),
            ("ListenerLegacy.cfg", "StopClean",
             "callback loop re-reads self._ind_queue (code before the fix)"),
            ("ListenerDeliveryFirst.cfg", "NoHandlerCrash",
             "stop() stops delivery before the listener threads")):
        r = ctx.tlc("Listener", cfg, must_pass=False, count=False,
                    label="must fail: " + what)
        if r.violated is None:
            raise vlib.MachineryError("%s did not fail" % cfg)
        sens.append("%s violates %s as required (%s)" % (cfg, r.violated, what))
    ctx.extra["sensitivity"] = sens
    if not quick:
        ctx.tlc("Listener", "ListenerBig.cfg", timeout=3000,
                label="3 senders x 1 indication x 2 callbacks, queue bound 2")
        ctx.tlc("Listener", "ListenerBig2.cfg", timeout=3000,
                label="2 senders x 3 indications x 1 callback, queue bound 2")
        ctx.tlc("Listener", "ListenerRestart.cfg", timeout=3000,
                label="2x2x1 with restart (second start/stop)")
        ctx.tlc("Listener", "ListenerLateBig.cfg", timeout=3000,
                label="2 senders x 2 indications, 1 callback + 1 late")
    runs = []
    _, behs = ctx.simulate_actions("Listener", "ListenerSim.cfg",
                                   60 if quick else 1500, 80,
                                   label="schedules from TLC behaviours")
    for acts in behs:
        order = [thread_of(a) for a in acts]
        runs.append(run_scenario(ctx.rng, "guided", order, dict(
            senders=["s1", "s2"], nind=2, ncb=2,
            maxq=ctx.rng.choice([0, 1]), raising_cb=ctx.rng.choice([0, 1]),
            restart=False, slow_steps=1,
            raise_kind=ctx.rng.choice(S.RAISE_KINDS))))
    _, behs2 = ctx.simulate_actions("Listener", "ListenerSimLate.cfg",
                                    40 if quick else 800, 80,
                                    label="schedules with a late "
                                    "add_callback() from TLC behaviours")
    for acts in behs2:
        order = [thread_of(a) for a in acts]
        runs.append(run_scenario(ctx.rng, "guided", order, dict(
            senders=["s1", "s2"], nind=2, ncb=1,
            maxq=ctx.rng.choice([0, 1]), raising_cb=ctx.rng.choice([0, 1]),
            restart=False, slow_steps=1, late_cb=True,
            raise_kind=ctx.rng.choice(S.RAISE_KINDS))))
    ctx.extra["tlc_schedules_replayed"] = len(behs) + len(behs2)
    n_pct = 250 if quick else 6000
    for i in range(n_pct):
        runs.append(run_scenario(ctx.rng, "pct" if i % 2 else "random"))
    for reg in ("function", "method", "method-twice"):
        for i in range(1 if quick else 6):
            runs.append(run_real_inflight(ctx.rng, ctx.rng.randint(1, 2), reg))
    n_real = 4 if quick else 40
    for i in range(n_real):
        runs.append(run_real(ctx.rng, ctx.rng.randint(1, 3),
                             ctx.rng.randint(1, 3), ctx.rng.randint(1, 2),
                             ctx.rng.choice([0, 1, 2]),
                             ctx.rng.choice([0, 0, 0.02]),
                             raising_cb=ctx.rng.choice([0, 1, 2]),
                             raise_kind=ctx.rng.choice(S.RAISE_KINDS)))
    for i in range(2 if quick else 20):
        # sequential sender, callback registered while the listener runs
        runs.append(run_real(ctx.rng, 1, 3, ctx.rng.randint(1, 2), 0, 0,
                             raising_cb=ctx.rng.choice([0, 1]),
                             raise_kind=ctx.rng.choice(S.RAISE_KINDS),
                             late_after=ctx.rng.randint(0, 2)))
    mach = [r for r in runs if str(r["outcome"]).startswith("machinery")]
    if mach:
        raise vlib.MachineryError("scheduler failure: %s" % mach[0]["outcome"])
    verdicts = ctx.validate_traces("ListenerTrace", "ListenerTrace.cfg",
                                   [r["events"] for r in runs])
    kinds = {}
    steps = 0
    for r in runs:
        kinds[r["chooser"]] = kinds.get(r["chooser"], 0) + 1
        steps += len(r["schedule"])
    ctx.extra["executions_by_scheduler"] = kinds
    ctx.extra["scheduling_points_granted"] = steps
    evcount = {}
    for r in runs:
        for e in r["events"]:
            k = e["ev"] + (":" + e["kind"] if e["ev"] == "resp" else "")
            evcount[k] = evcount.get(k, 0) + 1
    ctx.actions_bound = evcount
    for r, v in zip(runs, verdicts):
        if v["ok"]:
            continue
        ev = r["events"][v["at"] - 1]
        ctx.report(signature(ev, v["clauses"]),
                   "event %s violates %s (scheduler %s, params %s)" % (
                       {k: ev[k] for k in ev if ev[k] not in ("", 0, False)
                        or k == "ev"}, ", ".join(v["clauses"]), r["chooser"],
                       r["params"]),
                   {"params": r["params"], "chooser": r["chooser"],
                    "schedule": r["schedule"],
                    "events": r["events"][:v["at"]], "clauses": v["clauses"]})
    for r in runs[:1] + runs[-1:]:
        ctx.sample({"params": r["params"], "chooser": r["chooser"],
                    "schedule_prefix": r["schedule"][:25],
                    "events": [{k: e[k] for k in e if e[k] not in ("", 0)}
                               for e in r["events"][:12]]})
    ctx.assumptions += [
        "the code between two scheduling points (queue operations, reads/"
        "writes of self._ind_queue, stop event, sleep, thread start/join, "
        "callback entry, server shutdown/close) is atomic with respect to the "
        "other listener threads (true under the GIL for the attribute "
        "accesses involved)",
        "the HTTP server is replaced by an in-process stand-in whose "
        "server_close() waits for active handlers like ThreadingMixIn; the "
        "real socket server is exercised only in the OS-scheduled tier",
        "HTTPS start failure (StartFails scenario) is not modelled",
    ]


def replay(rep):
    import random
    case = rep["case"]
    sched_trace = [t for t, _ in case.get("schedule", [])]
    if case.get("chooser") == "os" or not sched_trace:
        print("OS-scheduled execution: not replayable deterministically")
        return 0
    rng = random.Random(1)
    r = run_scenario(rng, "guided", sched_trace, case["params"])
    ctx = vlib.Ctx(rep["property"] + "_replay", "quick", 0)
    v = ctx.validate_traces("ListenerTrace", "ListenerTrace.cfg",
                            [r["events"]])[0]
    print("verdict:", v)
    if not v["ok"]:
        print("VIOLATION property=%s replay=(reproduced) %s" %
              (rep["property"], v["clauses"]))
        return 1
    return 0
