"""
C05 - equality, hashing and copying of CIM objects are lawful.

Spec:   CimEq.tla   requirement: abstract object trees, four-valued AbsEq,
                    AbsHashClass, MustIndep (documented copy depth), Fails()
        CimEqU.tla  bounded universe (11 kinds; 2 names x 2 cases + the
                    special-fold name class n6/n6s; None/v1/v2; empty arrays;
                    None-valued dictionary items)
        CimEqImpl.tla + CimEqMC.tla  code-shaped __eq__/__hash__ (and-chains,
                    _eq_name/_eq_item/_eq_dict, NocaseDict.__eq__, frozenset
                    hash) checked by TLC against AbsEq on ALL same-kind pairs;
                    five regression configurations must fail
        CimEqHeap.tla  heap state machine Copy / copy.copy / deepcopy /
                    pickle / Mutate with Independence + Tight; four regression
                    configurations must fail (incl. copy() of a dictionary
                    holding the unnamed key None through the constructor);
                    Mode "hist": histories hash() / every NocaseDict mutator /
                    in-place change of a reachable child object on the object
                    itself with HashLawful after every step (hash equals that
                    of a freshly built equal object); two cached variants
                    (HashCache subset / all) must fail; read-only
                    observations (read / render / compare / dup) of every
                    cell are steps too: the dictionary slots are lazily
                    initialised (cell kind "lazy"), the fresh equal object
                    has them unread; variant LazyHash = raw (__hash__ reads
                    the private slot) must fail
        CimEqGen.tla   TLC prints the universe, the near pairs and the
                    classes of the coarsest admissible ==
        CimEqTrace.tla TraceKit: every observed vector is judged by TLC
Binding: the objects / pairs / triples / heap behaviours printed by TLC are
        built as real pywbem objects (lexical case and int-vs-UintN chosen at
        random), ==, !=, hash, set/dict membership, .copy(), copy.copy,
        copy.deepcopy, pickle and the effect of mutating every reachable cell
        of the copy on the original are observed; plus seeded random rich
        objects (embedded instances, arrays, CIMDateTime, reference
        keybindings) with recase / reorder / one-attribute variations.
"""
import json
import random

import vlib
import cimeq_h as H

KINDS = ["InstanceName", "ClassName", "Instance", "Class", "Property",
         "Method", "Parameter", "Qualifier", "QualifierDeclaration",
         "DateTime", "NocaseDict"]
ATTR_NAMES = {
    "InstanceName": (["classname", "host", "namespace"], [],
                     ["keybindings"]),
    "ClassName": (["classname", "host", "namespace"], [], []),
    "Instance": (["classname"], [], ["path", "properties", "qualifiers"]),
    "Class": (["classname", "superclass"], [],
              ["path", "properties", "methods", "qualifiers"]),
    "Property": (["name", "reference_class", "class_origin"],
                 ["type", "embedded_object", "is_array", "array_size",
                  "propagated"], ["value", "qualifiers"]),
    "Method": (["name", "class_origin"], ["return_type", "propagated"],
               ["parameters", "qualifiers"]),
    "Parameter": (["name", "reference_class"],
                  ["type", "embedded_object", "is_array", "array_size"],
                  ["value", "qualifiers"]),
    "Qualifier": (["name"], ["type", "propagated", "overridable",
                             "tosubclass", "toinstance", "translatable"],
                  ["value"]),
    "QualifierDeclaration": (["name"],
                             ["type", "is_array", "array_size", "overridable",
                              "tosubclass", "toinstance", "translatable"],
                             ["value", "scopes"]),
    "DateTime": ([], ["kind", "instant", "utcoffset", "precision", "text"],
                 []),
    "NocaseDict": ([], [], ["items"]),
    "S": ([], ["value", "number"], []),
    "L": ([], [], ["elements"]),
}


def first_diff(a, b):
    """name of the first top-level public attribute in which two nodes differ
    (diagnostics / signature only)."""
    if a["k"] != b["k"]:
        return "kind"
    nms, ats, chs = ATTR_NAMES[a["k"]]
    for i, (x, y) in enumerate(zip(a["nm"], b["nm"])):
        if x["b"] != y["b"]:
            return nms[i]
    for i, (x, y) in enumerate(zip(a["at"], b["at"])):
        if x != y:
            return ats[i]
    for i, (x, y) in enumerate(zip(a["ch"], b["ch"])):
        if x != y:
            return chs[i]
    for i, (x, y) in enumerate(zip(a["nm"], b["nm"])):
        if x != y:
            return "case-of-" + nms[i]
    return "none"


SKIPPED = {}
# deep RECURSIVE operators over the heap (Load / Reach / ImplH over lazily
# evaluated functions): with the default thread stack TLC sporadically dies
# with a StackOverflowError before the JIT has compiled the evaluator
JVM = ["-Xss256m"]


class Vec:
    """one observed vector + how to reproduce it"""
    def __init__(self, event, origin, case):
        self.event = event
        self.origin = origin
        self.case = case


def tlc_value_to_node(v):
    """parse_tla_value output for a node -> JSON node (records are dicts,
    sequences are lists already)."""
    return {"k": v["k"],
            "nm": [{"b": x["b"], "c": x["c"]} for x in v["nm"]],
            "at": list(v["at"]),
            "ch": [[{"key": {"b": e["key"]["b"], "c": e["key"]["c"]},
                     "n": tlc_value_to_node(e["n"])} for e in g]
                   for g in v["ch"]]}


def builder(node, seed):
    """deterministic factory: every call returns a fresh, identical object."""
    def build():
        return H.concretise(node, random.Random(seed))
    return build


def walker_events(node, seed, methods=None, origin="walk", maxcells=None,
                  rng=None, proto=None):
    """copy every way, then mutate every reachable cell of the copy (each
    mutation on a fresh original/copy pair).  One event per cell."""
    build = builder(node, seed)
    proto = proto if proto is not None else build()
    out = []
    allcells = H.cells(proto)
    if maxcells is not None and len(allcells) > maxcells and rng is not None:
        keep = [allcells[0]] + rng.sample(allcells[1:], maxcells - 1)
    else:
        keep = allcells
    ms = methods or H.methods_for(proto)
    if "copy" in ms and not H.ctor_stable(proto):
        ms = [m for m in ms if m != "copy"]
        SKIPPED["copy() of a state the constructor rejects or changes"] = \
            SKIPPED.get("copy() of a state the constructor rejects or "
                        "changes", 0) + 1
    for m in ms:
        for steps, access, cell, slot in keep:
            muts = [(steps, access, label, fn)
                    for label, _v, fn in H.cell_mutations(cell, slot)]
            ev = H.copy_event(build, m, muts)
            out.append(Vec(ev, origin, {"node": node, "seed": seed, "m": m,
                                        "steps": list(steps)}))
    return out


def check_regression(ctx, module, cfg, expect, what, sens):
    r = ctx.tlc(module, cfg, must_pass=False, count=False, jvm=JVM,
                label="regression config: " + what)
    if r.violated not in expect:
        raise vlib.MachineryError(
            "%s should violate one of %s but TLC says: %s\n%s" %
            (cfg, expect, r.violated, r.out[-1500:]))
    sens.append("%s violates %s as required (%s)" % (cfg, r.violated, what))


def run(ctx):
    quick = ctx.tier == "quick"
    rng = ctx.rng
    # ---- 1. TLC model checks ---------------------------------------------
    ctx.tlc("CimEqMC", "CimEqMC.cfg" if quick else "CimEqMCBig.cfg",
            label="AbsEq lawful on the universe; code-shaped __eq__/__hash__ "
            "agree with it on all same-kind pairs")
    sens = []
    check_regression(ctx, "CimEqMC", "CimEqMCRegHash.cfg",
                     ("ImplEqImpliesHash", "ImplIgnoresCaseAndOrder"),
                     "_hash_name without lower()", sens)
    check_regression(ctx, "CimEqMC", "CimEqMCRegLen.cfg",
                     ("ImplSymmetric", "ImplAgrees", "ImplIsKernel"),
                     "NocaseDict.__eq__ without length test", sens)
    check_regression(ctx, "CimEqMC", "CimEqMCRegOrder.cfg",
                     ("ImplAgrees", "ImplIgnoresCaseAndOrder",
                      "ImplIsKernel"),
                     "NocaseDict.__eq__ positional", sens)
    check_regression(ctx, "CimEqMC", "CimEqMCRegFold.cfg",
                     ("ImplEqImpliesHash",),
                     "_eq_name with casefold(), _hash_name with lower()", sens)
    check_regression(ctx, "CimEqMC", "CimEqMCRegGet.cfg",
                     ("ImplSymmetric", "ImplEqImpliesHash"),
                     "NocaseDict.__eq__ looks keys up with other.get(key)",
                     sens)
    ctx.tlc("CimEqHeap", jvm=JVM, cfg="CimEqHeap.cfg", coverage=False,
            label="heap model: copy()/copy.copy/deepcopy/pickle + <=2 "
            "mutations, Independence + Tight for 27 object graphs")
    check_regression(ctx, "CimEqHeap", "CimEqHeapRegDict.cfg",
                     ("Independence",), "copy() shares the child dictionary",
                     sens)
    check_regression(ctx, "CimEqHeap", "CimEqHeapRegPath.cfg",
                     ("Independence",), "CIMInstance.copy() shares the path",
                     sens)
    check_regression(ctx, "CimEqHeap", "CimEqHeapRegEmpty.cfg",
                     ("Independence",),
                     "copy() shares an EMPTY array value (cimvalue returns "
                     "the empty list itself)", sens)
    check_regression(ctx, "CimEqHeap", "CimEqHeapRegCtor.cfg",
                     ("CopyEqual",),
                     "NocaseDict.copy() re-inserts the items through the "
                     "constructor before the unnamed key is allowed: raises "
                     "for a dictionary holding the key None", sens)
    ctx.tlc("CimEqHeap", jvm=JVM, cfg=
            "CimEqHeapHist.cfg" if quick else "CimEqHeapHistBig.cfg",
            coverage=False,
            label="heap model, histories: hash() / NocaseDict mutators / "
            "in-place change of reachable cells%s, <=%d steps; hash equals "
            "the hash of a freshly built equal object after every step" %
            ((" / read-only observations", 2) if quick else ("", 3)))
    if not quick:
        # the 3-step configuration runs without the observation actions
        # (state space); observations are exhaustive for <= 2 steps
        ctx.tlc("CimEqHeap", jvm=JVM, cfg="CimEqHeapHist.cfg", coverage=False,
                label="heap model, histories incl. read-only observations "
                "of every cell, <=2 steps: HashLawful, ObsReadOnly")
    check_regression(ctx, "CimEqHeap", "CimEqHeapRegCacheSubset.cfg",
                     ("HashLawful",),
                     "hash value cached in NocaseDict, dropped only in "
                     "__setitem__/__delitem__/pop (not in clear/popitem)",
                     sens)
    check_regression(ctx, "CimEqHeap", "CimEqHeapRegCacheAll.cfg",
                     ("HashLawful",),
                     "hash value cached in NocaseDict, dropped by all its "
                     "mutators: stale after an in-place change of a contained "
                     "object", sens)
    check_regression(ctx, "CimEqHeap", "CimEqHeapRegLazy.cfg",
                     ("HashLawful",),
                     "__hash__ reads the private, lazily initialised "
                     "dictionary slot instead of the public attribute: None "
                     "before, empty dictionary after the first read-only "
                     "observation", sens)
    ctx.extra["sensitivity"] = sens

    # ---- 2. abstract inputs from TLC --------------------------------------
    rg = ctx.tlc("CimEqGen", "CimEqGen.cfg" if quick else "CimEqGenBig.cfg",
                 workers=1, count=False,
                 label="enumeration: universe, near pairs, == classes")
    objs = {k: {} for k in KINDS}
    for v in rg.printed("OBJ"):
        objs[v[1]][v[2]] = tlc_value_to_node(v[3])
    near = [(v[1], v[2], v[3], v[4]) for v in rg.printed("NEAR")]
    classes = [(v[1], vlib.unset(v[2])) for v in rg.printed("CLS")]
    shapes = {}
    for v in rg.printed("SHAPE"):
        shapes.setdefault((v[1], tuple(v[3])), []).append(v[2])
    nobj = sum(len(x) for x in objs.values())
    if nobj == 0 or not near:
        raise vlib.MachineryError("CimEqGen printed no universe")
    rb = ctx.tlc("CimEqHeap", jvm=JVM, cfg=
                 "CimEqHeapEmit1.cfg" if quick else "CimEqHeapEmit2.cfg",
                 workers=1, count=False,
                 label="behaviour emission: every copy/mutate behaviour")
    behs = [vlib.unset(v[1]) for v in rb.printed("BEH")]
    if not behs:
        raise vlib.MachineryError("CimEqHeap printed no behaviours")
    rh = ctx.tlc("CimEqHeap", jvm=JVM, cfg="CimEqHeapHistEmit2.cfg",
                 workers=1, count=False,
                 label="history emission: every history after which a never-"
                 "dropped hash cache would be stale")
    hbehs = [vlib.unset(v[1]) for v in rh.printed("BEH")]
    if not hbehs:
        raise vlib.MachineryError("CimEqHeap printed no histories")
    rl = ctx.tlc("CimEqHeap", jvm=JVM, cfg=
                 "CimEqHeapLazyEmit1.cfg" if quick else
                 "CimEqHeapLazyEmit2.cfg",
                 workers=1, count=False,
                 label="history emission: hash() calls and one read-only "
                 "observation (or clear()) after which a hash of the raw "
                 "lazily initialised slots differs from that of a fresh "
                 "equal object")
    lbehs = [vlib.unset(v[1]) for v in rl.printed("BEH")]
    if not lbehs:
        raise vlib.MachineryError("CimEqHeap printed no observation "
                                  "histories")
    ctx.extra["tlc_heap_observation_histories"] = len(lbehs)
    hbehs += lbehs
    ctx.extra["tlc_heap_histories"] = len(hbehs)
    ctx.extra["universe_objects"] = {k: len(v) for k, v in objs.items()}
    ctx.extra["tlc_near_pairs"] = len(near)
    ctx.extra["tlc_near_pairs_by_AbsEq"] = {
        c: sum(1 for x in near if x[3] == c) for c in "TFUX"}
    ctx.extra["tlc_eq_classes"] = len(classes)
    ctx.extra["tlc_copy_shape_classes"] = len(shapes)
    ctx.extra["tlc_heap_behaviours"] = len(behs)

    pairs, triples, copies, hists = [], [], [], []

    def add_hist_walk(node, origin, per_cell=2):
        seed, wseed = rng.randrange(10 ** 9), rng.randrange(10 ** 9)
        evs = H.hist_walk(builder(node, seed), random.Random(wseed),
                          per_cell)
        for idx, ev in enumerate(evs):
            hists.append(Vec(ev, origin, {"hist": "walk", "node": node,
                                          "seed": seed, "wseed": wseed,
                                          "per_cell": per_cell, "idx": idx}))

    def add_pair(na, nb, origin):
        a = H.concretise(na, rng)
        b = H.concretise(nb, rng)
        ev = H.pair_event(a, b)
        pairs.append(Vec(ev, origin, {"a": ev["a"], "b": ev["b"]}))

    def add_triple(na, nb, nc, origin):
        a, b, c = (H.concretise(x, rng) for x in (na, nb, nc))
        ev = H.triple_event(a, b, c)
        triples.append(Vec(ev, origin, {"a": ev["a"], "b": ev["b"],
                                        "c": ev["c"]}))

    # ---- 3. universe: pairs, triples, copies ------------------------------
    if not quick:
        # every ordered same-kind pair of the small universe
        rs = ctx.tlc("CimEqGen", "CimEqGen.cfg", workers=1, count=False,
                     label="enumeration: small universe (all pairs bound)")
        small = {k: {} for k in KINDS}
        for v in rs.printed("OBJ"):
            small[v[1]][v[2]] = tlc_value_to_node(v[3])
        for k in KINDS:
            for i in sorted(small[k]):
                for j in sorted(small[k]):
                    add_pair(small[k][i], small[k][j], "universe:allpairs")
        ctx.extra["all_pairs_bound_on_small_universe"] = len(pairs)
    for k in KINDS:
        ids = sorted(objs[k])
        for i in ids:
            add_pair(objs[k][i], objs[k][i], "universe:self")
        nfar = 3 if quick else 25
        for i in ids:
            for j in rng.sample(ids, min(nfar, len(ids))):
                add_pair(objs[k][i], objs[k][j], "universe:sample")
    for k, i, j, _exp in near:
        if rng.random() < 0.5:
            i, j = j, i
        add_pair(objs[k][i], objs[k][j], "universe:near")
    for k, cl in classes:
        ids = sorted(objs[k])
        n3 = 3 if quick else 20
        for _ in range(n3):
            tr = [rng.choice(cl) for _ in range(3)]
            add_triple(*(objs[k][x] for x in tr), origin="universe:class")
        out = [x for x in ids if x not in cl]
        if out:
            add_triple(objs[k][rng.choice(cl)], objs[k][rng.choice(cl)],
                       objs[k][rng.choice(out)], "universe:class+outsider")
    walked = set()
    for k in KINDS:
        ids = sorted(objs[k])
        take = ids if not quick else rng.sample(ids, max(4, len(ids) // 8))
        for i in take:
            walked.add((k, i))
            copies += walker_events(objs[k][i], rng.randrange(10 ** 9),
                                    origin="universe:copy")
    # at least one object of every (kind, cell structure) class printed by
    # TLC is copied every way and mutated in every cell; preferably one whose
    # state the constructor reproduces (so that .copy() is exercised too)
    for (k, _shape), ids in sorted(shapes.items()):
        ids = sorted(ids)
        rng.shuffle(ids)
        chosen = None
        for i in ids[:12]:
            seed = rng.randrange(10 ** 9)
            proto = builder(objs[k][i], seed)()
            if not hasattr(proto, "copy") or H.ctor_stable(proto):
                chosen = (i, seed, proto)
                break
            if chosen is None:
                chosen = (i, seed, proto)
        i, seed, proto = chosen
        if not any(str(x).startswith("holds ") for x in _shape) and \
                k != "DateTime":
            add_hist_walk(objs[k][i], "universe:shape:history")
        if (k, i) in walked and \
                (not hasattr(proto, "copy") or H.ctor_stable(proto)):
            continue
        copies += walker_events(objs[k][i], seed, origin="universe:shape",
                                proto=proto)

    # ---- 4. heap behaviours from TLC --------------------------------------
    for b in behs:
        node = H.heap_root_node(b["root"])
        seed = rng.randrange(10 ** 9)
        ev = H.behaviour_event(builder(node, seed), b["m"], b["muts"],
                               random.Random(seed))
        copies.append(Vec(ev, "heap:behaviour",
                          {"root": b["root"], "m": b["m"], "muts": b["muts"],
                           "seed": seed}))
    for root in H.HEAP_ROOTS:
        copies += walker_events(H.heap_root_node(root),
                                rng.randrange(10 ** 9), origin="heap:walk")
    # histories printed by TLC, on the object itself
    nohist = 0
    for b in hbehs:
        node = H.heap_root_node(b["root"])
        # the concrete call behind an abstract step is chosen at random:
        # thorough replays every history several times
        for _ in range(1 if quick else 5):
            seed = rng.randrange(10 ** 9)
            ev = H.history_event(builder(node, seed), b["muts"],
                                 random.Random(seed))
            if ev is None:
                nohist += 1
                continue
            hists.append(Vec(ev, "heap:history",
                             {"hist": "beh", "root": b["root"],
                              "muts": b["muts"], "seed": seed}))
    if nohist:
        SKIPPED["TLC history with a step that has no counterpart on the "
                "concrete root object"] = nohist
    for root in H.HEAP_ROOTS:
        for _ in range(1 if quick else 4):
            add_hist_walk(H.heap_root_node(root), "heap:walk:history",
                          per_cell=2 if quick else 6)

    # ---- 5. seeded random rich objects ------------------------------------
    g = H.RichGen(rng)
    nrich = 14 if quick else 400
    nwalk = 3 if quick else 60
    for k in KINDS:
        for i in range(nrich):
            n = g.make(k)
            rc, ro = g.recase(n), g.reorder(n)
            rcro = g.reorder(g.recase(n))
            add_pair(n, n, "rich:self")
            add_pair(n, rc, "rich:recase")
            add_pair(n, ro, "rich:reorder")
            add_pair(rcro, n, "rich:recase+reorder")
            add_triple(n, rc, rcro, "rich:variants")
            ns = g.numswap(n)
            if ns is not None:
                add_pair(n, g.recase(ns), "rich:numswap")
                ns2 = g.numswap(ns)
                add_triple(n, ns, ns2 or ns, "rich:numswap")
            fd = g.flagdefault(n)
            if fd is not None:
                add_pair(n, fd, "rich:none-vs-default")
            for _ in range(3):
                mu = g.mutate1(n)
                if mu is not None:
                    add_pair(g.reorder(n), g.recase(mu), "rich:mutate1")
                    add_triple(n, rc, mu, "rich:mutate1")
            add_pair(n, g.make(k), "rich:other")
            fp = g.foldpair(n)
            if fp is not None:
                add_pair(fp[0], fp[1], "rich:foldswap")
                add_triple(g.recase(fp[0]), fp[0], fp[1], "rich:foldswap")
            if i < nwalk and k != "DateTime":
                copies += walker_events(n, rng.randrange(10 ** 9),
                                        origin="rich:copy", maxcells=8,
                                        rng=rng)
                add_hist_walk(n, "rich:history", per_cell=1)
            elif k == "DateTime":
                copies += walker_events(n, 1, origin="rich:copy")

    # ---- 6. TLC judges ---------------------------------------------------
    judge(ctx, pairs, "pair")
    judge(ctx, triples, "triple")
    judge(ctx, copies, "copy")
    judge(ctx, hists, "hist")
    bound = {}
    nmut = 0
    ineffective = 0
    for v in pairs + triples + copies + hists:
        e = v.event
        key = e["ev"] + ":" + (e.get("k") or e["a"]["k"]) + \
            (":" + e["m"] if e["ev"] == "copy" else "")
        bound[key] = bound.get(key, 0) + 1
        for mu in e.get("muts", []):
            nmut += 1
            if mu.get("moved") != "T":
                ineffective += 1
    ctx.actions_bound = bound
    ctx.extra["vectors"] = {"pairs": len(pairs), "triples": len(triples),
                            "copies": len(copies),
                            "histories": len(hists),
                            "mutations_of_copies": nmut,
                            "mutations_without_effect_on_copy": ineffective}
    ctx.extra["skipped"] = dict(SKIPPED)
    ctx.extra["observed_eq_histogram"] = {
        t: sum(1 for v in pairs if v.event["eab"] == t) for t in "TFE"}
    ctx.exhaustive = True
    ctx.extra["exhaustive_scope"] = (
        "TLC: all same-kind pairs of the bounded universe (CimEqMC), all "
        "copy/mutate behaviours and all hash/mutate histories of the heap "
        "model (CimEqHeap); binding: every near pair, every heap behaviour, "
        "every history on which a hash cache could be observed" +
        ("" if quick else ", every ordered pair of the small universe") +
        "; far pairs, triples and rich objects are seeded samples")
    ctx.extra["constants"] = {
        "universe": "2 base names x 2 cases, optional names None|n1|n1'|n2, "
                    "attributes None|v1|v2 (flags None|True|False), <=2 "
                    "children in both orders, <=1 block deviating from 2 "
                    "base assignments; + special-fold names n6/n6'/n6s one "
                    "at a time, empty arrays, None-valued items",
        "heap": "MaxRef=60, MaxMut=%d, 27 root graphs (8 with empty, "
                "lazily initialised dictionary slots); histories of <=%d "
                "steps incl. read-only observations" %
                (1 if quick else 2, 2 if quick else 3)}
    for v in (pairs[:1] + pairs[len(pairs) // 2:len(pairs) // 2 + 1] +
              triples[:1] + copies[:1] + copies[-1:]):
        ctx.sample({"origin": v.origin, "event": slim(v.event)})
    ctx.assumptions += [
        "NaN-free values; == across kinds is out of scope; a value slot "
        "holding objects of different kinds may raise TypeError (X)",
        "same number in different Python types (1, 1.0, True, Uint8(1)), "
        "None vs the DSP0201 default of a flag, CIMDateTime spellings of the "
        "same instant (utc offset, precision): both answers accepted (U)",
        "copy(): independence is demanded for the object, its child "
        "dictionaries, its value list and its path; child objects, embedded "
        "objects and reference values may be shared (documented or left open)",
        "scopes are generated with True entries only (False vs absent is not "
        "decided by the statement)",
        "names come from 9 bases with 1-4 spellings (ASCII, one accented, "
        "sharp s); spellings equal under str.lower() must not be "
        "distinguished; spellings equal only under full case folding "
        "('Straße'/'STRASSE') may be equal or not (U) but every law binds the "
        "answer given",
        "NULL key values are built with config.IGNORE_NULL_KEY_VALUE = True",
        "standalone NocaseDict objects are of the keybindings flavour "
        "(allow_unnamed_keys = True); a dictionary that rejects the unnamed "
        "key is never compared with one that holds it",
        "hash values are taken before the objects are compared, tested for "
        "membership or projected; read-only observations (getters, repr, "
        "str, tocimxml, tomof, ==, copies) are steps of a history and must "
        "not change hash or ==",
        "histories: the object is compared with an object freshly built "
        "from its projected public attributes; histories whose steps have no "
        "counterpart on the concrete object are skipped (counted)",
        "projection reads public attributes through the getters; private "
        "state that no public attribute exposes is invisible",
    ]


def slim(ev):
    s = json.dumps(ev, ensure_ascii=False)
    return json.loads(s) if len(s) < 2500 else {"ev": ev["ev"],
                                                "truncated": s[:2500]}


def signature(vec, clauses):
    e = vec.event
    cl = "+".join(clauses)
    if e["ev"] == "pair":
        return "pair:%s:%s:%s" % (e["a"]["k"], cl, first_diff(e["a"], e["b"]))
    if e["ev"] == "triple":
        return "triple:%s:%s" % (e["a"]["k"], cl)
    if e["ev"] == "hist":
        last = e["acts"][-1] if e["acts"] else {"v": "", "steps": []}
        return "hist:%s:%s:%s" % (e["k"], cl, last["v"])
    bad = sorted({"/".join(m["steps"]) or "(self)" for m in e["muts"]
                  if m["same"] != "T"})
    detail = ",".join(bad) if "Copy.Independent" in clauses else ""
    return "copy:%s:%s:%s:%s" % (e["k"], e["m"], cl, detail)


def describe(vec, clauses):
    e = vec.event
    if e["ev"] == "pair":
        obs = {k: e[k] for k in ("eab", "eba", "nab", "nba", "eaa", "ebb",
                                 "h", "hs", "inset", "indict")}
        return "%s pair (%s) differing in %s: observed %s violates %s" % (
            e["a"]["k"], vec.origin, first_diff(e["a"], e["b"]), obs,
            ", ".join(clauses))
    if e["ev"] == "triple":
        obs = {k: e[k] for k in ("eab", "ebc", "eac", "hab", "hbc", "hac")}
        return "%s triple (%s): observed %s violates %s" % (
            e["a"]["k"], vec.origin, obs, ", ".join(clauses))
    if e["ev"] == "hist":
        obs = {k: e[k] for k in ("eab", "eba", "nab", "nba", "eaa", "ebb",
                                 "h", "hs", "inset", "indict")}
        hist = "; ".join("%s at %s" % (a["what"],
                                       "/".join(a["steps"]) or "(self)")
                         for a in e["acts"])
        return "%s after the history [%s] (%s) against a freshly built " \
               "object with the same attributes: observed %s violates %s" % (
                   e["k"], hist, vec.origin, obs, ", ".join(clauses))
    obs = {k: e[k] for k in ("ceq", "ceqr", "cne", "h")}
    bad = [(m["what"], "/".join(m["steps"])) for m in e["muts"]
           if m["same"] != "T"]
    return "%s %s (%s): observed %s; mutations of the copy that changed the " \
           "original: %s; violates %s" % (e["k"], e["m"], vec.origin, obs,
                                          bad[:6], ", ".join(clauses))


def judge(ctx, vecs, what):
    if not vecs:
        return
    verdicts = ctx.validate_traces(
        "CimEqTrace", "CimEqTrace.cfg", [[v.event] for v in vecs],
        label="trace-validate CimEqTrace (%s vectors)" % what, chunk=6000)
    for v, vd in zip(vecs, verdicts):
        if vd["ok"]:
            continue
        clauses = vd["clauses"]
        ctx.report(signature(v, clauses), describe(v, clauses),
                   {"origin": v.origin, "clauses": clauses, "case": v.case,
                    "event": v.event})


# ---------------------------------------------------------------------------
def replay(rep):
    """re-run the recorded case on the current tree and let TLC judge it."""
    case = rep["case"]
    ev0 = case["event"]
    c = case["case"]
    if ev0["ev"] == "pair":
        ev = H.pair_event(H.concretise(c["a"]), H.concretise(c["b"]))
    elif ev0["ev"] == "triple":
        ev = H.triple_event(*(H.concretise(c[x]) for x in "abc"))
    elif c.get("hist") == "beh":
        ev = H.history_event(builder(H.heap_root_node(c["root"]), c["seed"]),
                             c["muts"], random.Random(c["seed"]))
    elif c.get("hist") == "walk":
        evs = H.hist_walk(builder(c["node"], c["seed"]),
                          random.Random(c["wseed"]), c["per_cell"])
        ev = evs[c["idx"]] if c["idx"] < len(evs) else None
    elif "root" in c:
        ev = H.behaviour_event(builder(H.heap_root_node(c["root"]), c["seed"]),
                               c["m"], c["muts"], random.Random(c["seed"]))
    else:
        vs = walker_events(c["node"], c["seed"], methods=[c["m"]])
        ev = next(v.event for v in vs if v.case["steps"] == c["steps"])
    print("recorded : %s" % rep["what"])
    if ev is None:
        print("the recorded history cannot be applied any more: "
              "not reproduced")
        return 0
    print("re-observed event:")
    print(json.dumps({k: v for k, v in ev.items()
                      if k not in ("a", "b", "c", "o")}, indent=1)[:3000])
    ctx = vlib.Ctx("C05_replay", "quick", rep.get("seed", 0))
    vd = ctx.validate_traces("CimEqTrace", "CimEqTrace.cfg", [[ev]])[0]
    if vd["ok"]:
        print("TLC accepts the re-observed vector: not reproduced")
        return 0
    print("TLC rejects the re-observed vector: %s" % ", ".join(vd["clauses"]))
    print("VIOLATION property=C05 replay=(reproduced) %s" % vd["clauses"])
    return 1
