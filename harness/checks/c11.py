"""
C11 - a failed mock-repository operation changes nothing.

Spec:   MockAtomic.tla (requirement: raised => content unchanged, per operation
        family), MockAtomicImpl.tla (check/write pipelines transcribed from the
        code, explored by TLC for every operation x scenario; legacy
        configurations without batch rollback / with the namespace provider's
        early write without cleanup / with a snapshot of the target namespace
        only / with a DeleteClass snapshot taken after the instance-less
        subclasses are gone / with reference namespaces de-duplicated as
        strings / with a three-namespace DeleteInstance that checks each
        namespace when it gets there must fail), MockAtomicTrace.tla; plus
        the Atomic.* clause
        of RepoCore.tla on the C10 instance histories.
Binding: seeded histories of valid and rejected calls of every family (single
        objects rejected for every reason, MOF/object batches whose k-th
        element is invalid) run on the real FakedWBEMConnection; the complete
        repository content after every call goes to TLC.
"""
import os
import vlib
import mockrepo
import atomicops
import repocore
import cimcanon
from checks import c10


class Hist:
    def __init__(self):
        self.events = []
        self.info = []
        self.desc = {}


def run_history(rng, nops, workdir):
    x = rng.random()
    conn = atomicops.start_state(
        "empty-namespaces-first" if x < 0.12 else
        "namespace-provider" if x < 0.4 else "plain")
    h = Hist()
    gen = atomicops.Gen(conn, rng, workdir)     # primes the start state
    items, desc = cimcanon.repo_items(conn)
    h.desc.update(desc)
    h.events.append(dict(op="Init", ok=True, after=items))
    h.info.append(dict(label="init"))
    for _ in range(nops):
        scen = gen.scenarios()
        fams = sorted(set(x[0] for x in scen))
        pick = rng.choice(fams)
        fam, label, thunk = rng.choice([x for x in scen if x[0] == pick])
        exc = None
        try:
            thunk()
            ok = True
        except Exception as e:  # noqa: every exception type counts as "raises"
            ok = False
            exc = "%s: %s" % (type(e).__name__, str(e)[:160])
        items, desc = cimcanon.repo_items(conn)
        h.desc.update(desc)
        h.events.append(dict(op=fam, ok=ok, after=items))
        h.info.append(dict(label=label, exc=exc))
    return h


def run(ctx):
    quick = ctx.tier == "quick"
    ctx.tlc("MockAtomicImpl", "MockAtomicImpl.cfg",
            label="check/write pipelines of all families x scenarios "
            "(batch rollback, namespace provider checks first)")
    sens = []
    batch_ops = ("batch", "batchio", "batchns", "schemalist")
    for cfg, what, ops in (
            ("MockAtomicImplLegacyBatch.cfg",
             "write-through batches without rollback", batch_ops),
            ("MockAtomicImplLegacyNs.cfg",
             "CIM_Namespace CreateInstance adds namespace before key check "
             "and never removes it", ("CreateNamespaceInstance",)),
            ("MockAtomicImplLegacyNsKeysFirst.cfg",
             "CIM_Namespace CreateInstance checks the keys up front instead "
             "of removing the added namespace when the default provider "
             "rejects (duplicate instance of a namespace that does not exist)",
             ("CreateNamespaceInstance",)),
            ("MockAtomicImplLegacyMultiNs.cfg",
             "multi-namespace create checks each namespace only right "
             "before writing it", ("CreateInstanceMultiNs",)),
            ("MockAtomicImplLegacyIo.cfg",
             "compile rolls back on MOF errors only, not on the I/O error "
             "of a missing include", ("batchio",)),
            ("MockAtomicImplLegacySchemaList.cfg",
             "compile_schema_classes without a snapshot around the list of "
             "schema pragma files", ("schemalist",)),
            ("MockAtomicImplDeleteClassProvider.cfg",
             "DeleteClass keeps the instances deleted before the one its "
             "provider rejects (the code before 61ef456)",
             ("DeleteClassProvider", "DeleteClassSubtree")),
            ("MockAtomicImplDeleteClassLateSnapshot.cfg",
             "DeleteClass enumerates the instances per class of its loop: "
             "the snapshot is taken after the instance-less subclasses were "
             "deleted", ("DeleteClassSubtree",)),
            ("MockAtomicImplLegacyNsAlias.cfg",
             "two spellings of the same other namespace in the references "
             "of an association count as two namespaces",
             ("CreateInstanceMultiNsAlias",)),
            ("MockAtomicImplDeleteMultiNs3.cfg",
             "DeleteInstance of an association spanning three namespaces "
             "notices a missing copy only after deleting the earlier ones "
             "(the code today: known finding)",
             ("DeleteInstanceMultiNs3",)),
            ("MockAtomicImplLegacyNsScope.cfg",
             "batch snapshot covers only the target namespace; productions "
             "write into another namespace / create a namespace",
             ("batchns",))):
        r = ctx.tlc("MockAtomicImpl", cfg, must_pass=False, count=False,
                    label="regression config: " + what)
        if r.violated != "Atomic":
            raise vlib.MachineryError("%s did not violate Atomic: %s" %
                                      (cfg, r.violated))
        if not any('op |-> "%s"' % o in r.out for o in ops):
            raise vlib.MachineryError(
                "%s violates Atomic, but not in the pipeline of %s" %
                (cfg, "/".join(ops)))
        sens.append("%s violates Atomic as required (%s)" % (cfg, what))
    ctx.extra["sensitivity"] = sens
    ntr = 150 if quick else 3000
    wd = os.path.join(ctx.work, "mof")
    os.makedirs(wd, exist_ok=True)
    hists = [run_history(ctx.rng, ctx.rng.randint(6, 16), wd)
             for _ in range(ntr)]
    verdicts = ctx.validate_traces("MockAtomicTrace", "MockAtomicTrace.cfg",
                                   [h.events for h in hists])
    fam_fail, fam_ok = {}, {}
    for h in hists:
        for e, i in zip(h.events, h.info):
            d = fam_ok if e["ok"] else fam_fail
            d[e["op"]] = d.get(e["op"], 0) + 1
    ctx.extra["calls_succeeded_by_family"] = fam_ok
    ctx.extra["calls_raised_by_family"] = fam_fail
    ctx.actions_bound = {k: fam_fail.get(k, 0) + fam_ok.get(k, 0)
                         for k in set(fam_ok) | set(fam_fail)}
    for h, v in zip(hists, verdicts):
        if v["ok"]:
            continue
        i = v["at"] - 1
        ev, info = h.events[i], h.info[i]
        before = set(h.events[i - 1]["after"]) if i else set()
        after = set(ev["after"])
        added = [h.desc.get(t, t) for t in sorted(after - before)]
        removed = [h.desc.get(t, t) for t in sorted(before - after)]
        reason = info["label"].split("@")[0].split(":")[0]
        sig = "%s:%s:%s" % (ev["op"], "+".join(v["clauses"]), reason)
        ctx.report(sig, "%s (%s) raised %s but the repository changed: "
                   "added %s removed %s" % (ev["op"], info["label"],
                                            info["exc"], added[:4],
                                            removed[:4]),
                   {"history": [dict(op=e["op"], ok=e["ok"],
                                     label=inf["label"], exc=inf.get("exc"))
                                for e, inf in zip(h.events[:i + 1],
                                                  h.info[:i + 1])],
                    "added": added, "removed": removed,
                    "clauses": v["clauses"]})
    for h in hists[:2]:
        ctx.sample([dict(op=e["op"], ok=e["ok"], label=i["label"],
                         exc=i.get("exc"), nitems=len(e["after"]))
                    for e, i in zip(h.events[:8], h.info[:8])])
    # instance-level histories of the keyed-map machine: Atomic.* clause only
    drivers = []
    for i in range(250 if quick else 5000):
        calls = repocore.random_calls(ctx.rng, ctx.rng.randint(4, 24))
        drivers.append(repocore.run_calls(ctx.rng, calls))
    c10.judge(ctx, drivers, only_prefix="Atomic.")
    ctx.assumptions += [
        "content = namespaces + per namespace classes, instances, qualifier "
        "types read through conn.cimrepository's public store API, compared "
        "as sets of order/case-insensitive canonical digests",
        "any exception type counts as 'the call raised'",
        "compile_schema_classes is driven with small hand-made schema pragma files, not the DMTF schema; "
        "its body is compile_mof_file and shares that family's pipeline",
    ]


def replay(rep):
    print("C11 replays are histories of labelled scenarios; re-run the check "
          "with the recorded seed: VERIF_SEED=%s bin/check C11 --tier %s" %
          (rep.get("seed"), rep.get("tier")))
    print(rep["what"])
    return 0
