"""
C01 helper: concretise abstract strings / abstract object trees (spec/XmlText.tla,
spec/CimWire.tla) into real pywbem objects, drive the REAL encoder
(tocimxmlstr) and the REAL parser (TupleParser over xml_to_tupletree_sax), and
project originals and parsed objects with ONE projection into monomorphic
JSON events.

Nothing here decides the property.  Every event is judged by TLC against
spec/CimWire.tla (CimWireTrace).  The projection is deliberately dumb: it reads
public attributes, writes exact tokens (hex of the UTF-8 bytes for strings),
and anything it cannot classify becomes "UNCLASSIFIED..." which no clause
accepts.
"""
import struct
import warnings

import pywbem
from pywbem import (CIMInstance, CIMInstanceName, CIMClass, CIMClassName,
                    CIMProperty, CIMMethod, CIMParameter, CIMQualifier,
                    CIMQualifierDeclaration, CIMDateTime, Char16)
from pywbem import _cim_xml
from pywbem._tupleparse import TupleParser
from pywbem._tupletree import xml_to_tupletree_sax

warnings.simplefilter("ignore")

INT_TYPES = ["uint8", "sint8", "uint16", "sint16", "uint32", "sint32",
             "uint64", "sint64"]
REAL_TYPES = ["real32", "real64"]
ALL_TYPES = (["boolean", "string", "char16", "datetime", "reference"] +
             INT_TYPES + REAL_TYPES)
assert len(ALL_TYPES) == 15

# ---------------------------------------------------------------------------
# character classes  (spec/XmlText.tla : Cls)
# ---------------------------------------------------------------------------
CLS = {
    "ltr": list("aZ09_-.;#x!lt") + ["\u00e9", "\u65e5", "\u0416", "\ud7ff",
                                     "\ue000", "\ufffd", "[", "(", "%", "=",
                                     "/", "\\", "\x7f", "\u0100"],
    "sp": [" "],
    "tab": ["\t"],
    "lf": ["\n"],
    "cr": ["\r"],
    "lt": ["<"],
    "gt": [">"],
    "amp": ["&"],
    "quot": ['"'],
    "apos": ["'"],
    "rbr": ["]"],
    "astral": ["\U0001F600", "\U00010000", "\U0010FFFD", "\U0002A6D6"],
    "nbsp": ["\u00a0", "\u0085", "\u2028", "\u2003", "\u3000", "\ufeff"],
}
CLASS_NAMES = ["ltr", "sp", "tab", "lf", "cr", "lt", "gt", "amp", "quot",
               "apos", "rbr", "astral", "nbsp"]
_REV = {}
for _c, _chars in CLS.items():
    if _c != "ltr":
        for _ch in _chars:
            _REV[_ch] = _c
_NBSP_LIKE = set(CLS["nbsp"]) | {"\u1680", "\u2029", "\u202f", "\u205f"} | \
    {chr(c) for c in range(0x2000, 0x200b)}

# special whole strings (markup look-alikes) used by the random driver
SPECIAL_STRINGS = [
    "&lt;", "&amp;amp;", "&#13;", "&#x0D;", "<![CDATA[x]]>", "]]>", "]]]]>>",
    "<VALUE>x</VALUE>", "<INSTANCE CLASSNAME=\"C\"/>", "a]]>b<c", "]]&gt;",
    " lead", "trail ", "  ", "\t", "\n", "a\nb", "a\tb", "\"q\"", "'a'",
    "<!-- c -->", "<?pi?>", "&", "<", ">", "&;", "&#;", "%s", "{0}",
    " x ", "\U0001F600\U0001F600", "a\r\nb", "a\rb", "\r", "\r\n",
    "\n\r", "x\r",
]


def classify_char(ch):
    c = _REV.get(ch)
    if c:
        return c
    if ord(ch) > 0xFFFF:
        return "astral"
    if ch in _NBSP_LIKE:
        return "nbsp"
    o = ord(ch)
    if o < 0x20 or 0xD800 <= o <= 0xDFFF or o in (0xFFFE, 0xFFFF):
        return "UNCLASSIFIED:%04x" % o
    return "ltr"


def classify(s):
    return [classify_char(ch) for ch in s]


def conc_string(classes, rng):
    return "".join(rng.choice(CLS[c]) for c in classes)


# ---------------------------------------------------------------------------
# the text alphabet of XmlText.tla (what the encoder writes between two tags)
#   class symbols + "semi" + word tokens "w:amp" "w:lt" "w:gt" "w:quot"
#   "w:apos" "w:#13" "w:#10" "w:#9" "w:cdo"
# ---------------------------------------------------------------------------
_WORDS = [("![CDATA[", "w:cdo"), ("amp;", "w:amp"), ("lt;", "w:lt"),
          ("gt;", "w:gt"), ("quot;", "w:quot"), ("apos;", "w:apos"),
          ("#13;", "w:#13"), ("#10;", "w:#10"), ("#9;", "w:#9")]


def text_syms(text):
    """class projection of XML text as written by the encoder; entity /
    char-ref bodies and the CDATA opener become word tokens"""
    out = []
    i = 0
    n = len(text)
    while i < n:
        ch = text[i]
        if ch == "&" or ch == "<":
            out.append("amp" if ch == "&" else "lt")
            i += 1
            for w, tok in _WORDS:
                if text.startswith(w, i) and ((tok == "w:cdo") == (ch == "<")):
                    out.append(tok)
                    i += len(w)
                    if tok != "w:cdo":
                        out.append("semi")
                    break
            continue
        out.append(classify_char(ch))
        i += 1
    return out


# ---------------------------------------------------------------------------
# tokens
# ---------------------------------------------------------------------------
NONE = "~"


def stok(s):
    """exact token of a string (None -> "~")"""
    if s is None:
        return NONE
    if not isinstance(s, str):
        return "UNCLASSIFIED:" + type(s).__name__
    return "=" + s.encode("utf-8", "surrogatepass").hex()


def ltok(s):
    if s is None:
        return NONE
    if not isinstance(s, str):
        return "UNCLASSIFIED:" + type(s).__name__
    return "=" + s.lower().encode("utf-8", "surrogatepass").hex()


def btok(b):
    if b is None:
        return "N"
    if b is True:
        return "T"
    if b is False:
        return "F"
    return "UNCLASSIFIED:" + repr(b)[:30]


def f32(x):
    return struct.unpack("<f", struct.pack("<f", x))[0]


def dt_text(v):
    """the DSP0004 text of a CIMDateTime, written from its public state
    (datetime incl. tzinfo / timedelta / precision) by the harness itself:
    str(v) and minutes_from_utc are code under test (the encoder writes
    str(v)), the projection of the ORIGINAL must not go through them"""
    prec = v.precision
    if v.is_interval:
        td = v.timedelta
        body = "%08d%02d%02d%02d.%06d" % (
            td.days, td.seconds // 3600, td.seconds // 60 % 60,
            td.seconds % 60, td.microseconds)
        tail = ":000"
    else:
        d = v.datetime
        body = "%04d%02d%02d%02d%02d%02d.%06d" % (
            d.year, d.month, d.day, d.hour, d.minute, d.second, d.microsecond)
        off = d.utcoffset()
        # exact integer arithmetic on the normalised timedelta
        secs = 0 if off is None else off.days * 86400 + off.seconds
        if secs % 60 or (off is not None and off.microseconds):
            return "UNCLASSIFIED:utcoffset"
        m = secs // 60 if secs >= 0 else -((-secs) // 60)
        tail = "%s%03d" % ("+" if m >= 0 else "-", abs(m))
    if prec is not None:
        body = "".join(ch if (i < prec or ch == ".") else "*"
                       for i, ch in enumerate(body))
    return body + tail


def vtok(v, typ):
    """(value token, python-type token, class projection) of one scalar"""
    if v is None:
        return NONE, NONE, []
    if isinstance(v, (CIMInstance, CIMClass)):
        return "@emb", "object", []
    if isinstance(v, (CIMInstanceName, CIMClassName)):
        return "@ref", "path", []
    if isinstance(v, bool):
        return "b:" + ("T" if v else "F"), "boolean", []
    if isinstance(v, CIMDateTime):
        return "d:" + dt_text(v), "datetime", []
    if isinstance(v, pywbem.CIMInt):
        return "i:%d" % int(v), v.cimtype, []
    if isinstance(v, int):
        return "i:%d" % v, "int", []
    if isinstance(v, float):
        vt = v.cimtype if isinstance(v, pywbem.CIMFloat) else "float"
        x = float(v)
        if x != x:
            return "r:nan", vt, []
        if typ == "real32" or vt == "real32":
            try:
                x = f32(x)
            except OverflowError:
                return "r:unrepresentable-real32", vt, []
        return "r:" + x.hex(), vt, []
    if isinstance(v, str):
        vt = "char16" if isinstance(v, Char16) else "str"
        return "s:" + v.encode("utf-8", "surrogatepass").hex(), vt, classify(v)
    if isinstance(v, bytes):
        return "UNCLASSIFIED:bytes", "bytes", []
    return "UNCLASSIFIED:" + type(v).__name__, type(v).__name__, []


# ---------------------------------------------------------------------------
# projection of a real object (original or parsed) into element records
# ---------------------------------------------------------------------------
def _elem(path, et):
    return {"path": path, "et": et, "name": NONE, "lname": NONE, "type": "",
            "arr": "", "asize": -1, "rc": NONE, "co": NONE, "pg": "N",
            "emb": "N", "ovr": "N", "tsc": "N", "tin": "N", "trl": "N",
            "host": NONE, "ns": NONE, "sup": NONE, "isnull": False,
            "val": [], "vt": [], "cls": [], "kids": [], "scopes": [],
            "lvl": path.count("/emb:"), "hp": "N"}


def _emb(x):
    if x is None or x is False:
        return "N"
    if x in ("instance", "object"):
        return x
    return "UNCLASSIFIED:" + repr(x)[:30]


def _asize(x):
    if x is None:
        return -1
    if isinstance(x, int) and not isinstance(x, bool) and 0 <= x < 2**30:
        return x
    return -2


def _value(e, value, typ, out, with_path):
    """fill isnull/val/vt/cls of element e; nested objects are flattened
    under e's path"""
    if value is None:
        e["isnull"] = True
        return
    vals = value if isinstance(value, (list, tuple)) else [value]
    for i, v in enumerate(vals):
        t, vt, cls = vtok(v, typ)
        e["val"].append(t)
        e["vt"].append(vt)
        e["cls"].append(cls)
        if t == "@emb":
            flatten(v, "%semb:%d/" % (e["path"], i), out, with_path=False)
        elif t == "@ref":
            flatten(v, "%sref:%d/" % (e["path"], i), out, with_path=True)


def _quals(e, quals, out):
    for q in quals.values():
        e["kids"].append("qual:" + ltok(q.name))
        flatten(q, "%squal:%s/" % (e["path"], ltok(q.name)), out)


def flatten(o, path="/", out=None, with_path=True, as_value=False):
    """one projection for originals and parsed objects"""
    if out is None:
        out = []
    if isinstance(o, CIMInstanceName):
        e = _elem(path, "ipath")
        out.append(e)
        e["name"], e["lname"] = stok(o.classname), ltok(o.classname)
        e["host"], e["ns"] = ltok(o.host), ltok(o.namespace)
        for k, v in o.keybindings.items():
            kt = ltok(k)
            e["kids"].append("kb:" + kt)
            ke = _elem("%skb:%s/" % (path, kt), "kb")
            out.append(ke)
            ke["name"], ke["lname"] = stok(k), kt
            if isinstance(v, (CIMInstanceName, CIMClassName)):
                ke["type"] = "reference"
            elif isinstance(v, pywbem.CIMType):
                ke["type"] = v.cimtype
            elif isinstance(v, bool):
                ke["type"] = "boolean"
            elif isinstance(v, str):
                ke["type"] = "string"
            elif isinstance(v, (int, float)):
                ke["type"] = "numeric"
            else:
                ke["type"] = "UNCLASSIFIED:" + type(v).__name__
            ke["arr"] = "s"
            _value(ke, v, ke["type"], out, True)
    elif isinstance(o, CIMClassName):
        e = _elem(path, "cpath")
        out.append(e)
        e["name"], e["lname"] = stok(o.classname), ltok(o.classname)
        e["host"], e["ns"] = ltok(o.host), ltok(o.namespace)
    elif isinstance(o, CIMInstance):
        e = _elem(path, "inst")
        out.append(e)
        e["name"], e["lname"] = stok(o.classname), ltok(o.classname)
        _quals(e, o.qualifiers, out)
        for p in o.properties.values():
            e["kids"].append("prop:" + ltok(p.name))
            flatten(p, "%sprop:%s/" % (path, ltok(p.name)), out)
        if with_path and o.path is not None:
            e["kids"].append("path")
            flatten(o.path, path + "path/", out)
        elif o.path is not None:
            # an embedded instance object that has a path: not transmitted,
            # not compared (spec/CimWire.tla field hp)
            e["hp"] = "Y"
    elif isinstance(o, CIMClass):
        e = _elem(path, "class")
        out.append(e)
        e["name"], e["lname"] = stok(o.classname), ltok(o.classname)
        e["sup"] = ltok(o.superclass)
        _quals(e, o.qualifiers, out)
        for p in o.properties.values():
            e["kids"].append("prop:" + ltok(p.name))
            flatten(p, "%sprop:%s/" % (path, ltok(p.name)), out)
        for m in o.methods.values():
            e["kids"].append("meth:" + ltok(m.name))
            flatten(m, "%smeth:%s/" % (path, ltok(m.name)), out)
    elif isinstance(o, CIMProperty):
        e = _elem(path, "prop")
        out.append(e)
        e["name"], e["lname"] = stok(o.name), ltok(o.name)
        e["type"] = o.type if isinstance(o.type, str) else "UNCLASSIFIED"
        e["arr"] = "a" if o.is_array else "s"
        e["asize"] = _asize(o.array_size)
        e["rc"], e["co"] = ltok(o.reference_class), ltok(o.class_origin)
        e["pg"], e["emb"] = btok(o.propagated), _emb(o.embedded_object)
        _value(e, o.value, e["type"], out, True)
        _quals(e, o.qualifiers, out)
    elif isinstance(o, CIMMethod):
        e = _elem(path, "meth")
        out.append(e)
        e["name"], e["lname"] = stok(o.name), ltok(o.name)
        e["type"] = o.return_type if isinstance(o.return_type, str) \
            else "UNCLASSIFIED"
        e["co"], e["pg"] = ltok(o.class_origin), btok(o.propagated)
        _quals(e, o.qualifiers, out)
        for p in o.parameters.values():
            e["kids"].append("parm:" + ltok(p.name))
            flatten(p, "%sparm:%s/" % (path, ltok(p.name)), out)
    elif isinstance(o, CIMParameter):
        e = _elem(path, "pval" if as_value else "parm")
        out.append(e)
        e["name"], e["lname"] = stok(o.name), ltok(o.name)
        e["type"] = o.type if isinstance(o.type, str) else "UNCLASSIFIED"
        if as_value:
            # a PARAMVALUE carries name, type, value (array-ness through the
            # value), embedded-object flag
            e["arr"] = "a" if isinstance(o.value, (list, tuple)) else "s"
            e["emb"] = "N" if not o.embedded_object else "Y"
            _value(e, o.value, e["type"], out, True)
        else:
            e["arr"] = "a" if o.is_array else "s"
            e["asize"] = _asize(o.array_size)
            e["rc"] = ltok(o.reference_class)
            _quals(e, o.qualifiers, out)
    elif isinstance(o, CIMQualifier):
        e = _elem(path, "qual")
        out.append(e)
        e["name"], e["lname"] = stok(o.name), ltok(o.name)
        e["type"] = o.type if isinstance(o.type, str) else "UNCLASSIFIED"
        e["arr"] = "a" if isinstance(o.value, (list, tuple)) else "s"
        e["pg"] = btok(o.propagated)
        e["ovr"], e["tsc"] = btok(o.overridable), btok(o.tosubclass)
        e["tin"], e["trl"] = btok(o.toinstance), btok(o.translatable)
        _value(e, o.value, e["type"], out, True)
    elif isinstance(o, CIMQualifierDeclaration):
        e = _elem(path, "qdecl")
        out.append(e)
        e["name"], e["lname"] = stok(o.name), ltok(o.name)
        e["type"] = o.type if isinstance(o.type, str) else "UNCLASSIFIED"
        e["arr"] = "a" if o.is_array else "s"
        e["asize"] = _asize(o.array_size)
        e["ovr"], e["tsc"] = btok(o.overridable), btok(o.tosubclass)
        e["tin"], e["trl"] = btok(o.toinstance), btok(o.translatable)
        e["scopes"] = sorted(k.upper() for k, v in o.scopes.items() if v)
        _value(e, o.value, e["type"], out, True)
    else:
        e = _elem(path, "UNCLASSIFIED:" + type(o).__name__)
        out.append(e)
    return out


# ---------------------------------------------------------------------------
# abstract values -> concrete values
# ---------------------------------------------------------------------------
INT_RANGE = {"uint8": (0, 2**8 - 1), "sint8": (-2**7, 2**7 - 1),
             "uint16": (0, 2**16 - 1), "sint16": (-2**15, 2**15 - 1),
             "uint32": (0, 2**32 - 1), "sint32": (-2**31, 2**31 - 1),
             "uint64": (0, 2**64 - 1), "sint64": (-2**63, 2**63 - 1)}
INT_VC = ["min", "max", "zero", "one", "mid"]
REAL_VC = ["zero", "nzero", "one", "frac", "max", "nmax", "tiny", "inf",
           "ninf", "nan"]
DT_VC = ["ts", "tsneg", "iv", "star", "ivstar"]
BOOL_VC = ["T", "F"]
CHAR_VC = ["ltr", "sp", "tab", "lf", "lt", "gt", "amp", "quot", "apos",
           "rbr", "nbsp"]           # "cr" is driven separately (see c01.py)
# UTC offset classes of spec/CimWire.tla DtOffsetClass: zero / whole hours east
# and west / NOT whole hours east and west (India, Nepal, Chatham;
# Newfoundland, Marquesas, half an hour, one minute, the largest offset);
# full timestamps and timestamps with reduced precision in every class
DT_OFFSET_CLASSES = ["zero", "poswhole", "negwhole", "posfrac", "negfrac"]
DT_OFFSETS = {"zero": ["+000"],
              "poswhole": ["+060", "+120", "+540", "+840"],
              "negwhole": ["-060", "-300", "-480", "-720"],
              "posfrac": ["+330", "+345", "+765", "+030", "+001", "+999",
                          "+570"],
              "negfrac": ["-210", "-570", "-030", "-001", "-999", "-150",
                          "-090", "-059", "-061"]}
DT_BODIES = ["20260925123456.123456", "19991231235959.999999",
             "20240229010203.000001", "20200101120000.000000",
             "202001011200**.******", "20260925******.******",
             "2026**********.******", "20260925123456.12****"]
_VC_OF_OFFSET_TOKEN = {"d:ts": "ts:zero", "d:ts+h": "ts:poswhole",
                       "d:ts-h": "ts:negwhole", "d:ts+m": "ts:posfrac",
                       "d:ts-m": "ts:negfrac", "d:ts-s": "ts:negfrac"}
DT_REP = {"ts": ["20260925123456.123456+120", "19991231235959.999999+000",
                 "00010101000000.000000+000"],
          "tsneg": ["20240229010203.000001-720", "99991231235959.999999-001"],
          "iv": ["00000012012345.678901:000", "99999999235959.999999:000",
                 "00000000000000.000000:000"],
          "star": ["20260925******.******+000", "2026092512****.******+000",
                   "2026**********.******+000", "20260925123456.******+000"],
          "ivstar": ["00000012******.******:000", "**************.******:000",
                     "000000120123**.******:000"]}


def conc_scalar(typ, vc, rng):
    """vc: list of tokens (string: class sequence; else a single token)"""
    if typ == "string":
        return conc_string(vc, rng)
    t = vc[0]
    if typ == "char16":
        return Char16(rng.choice(CLS[t]))
    if typ == "boolean":
        return t == "T"
    if typ == "datetime":
        if t.startswith("ts:"):
            return CIMDateTime(rng.choice(DT_BODIES) +
                               rng.choice(DT_OFFSETS[t[3:]]))
        return CIMDateTime(rng.choice(DT_REP[t]))
    if typ in INT_RANGE:
        lo, hi = INT_RANGE[typ]
        n = {"min": lo, "max": hi, "zero": 0, "one": 1}.get(t)
        if n is None:
            n = rng.randint(lo, hi)
        return pywbem.cimvalue(n, typ)
    if typ in REAL_TYPES and t == "exp1":
        # spec/CimWire.tla RealLexForms "exp1": one significant digit and an
        # exponent in the %.11G / %.17G text (pywbem's Real32 holds the
        # double as given, so 1e22 is written 1E+22 for real32 too)
        xs = [1e22, 1e-7, 3e38, -4e30, 1e-45, -2e-20, 5e15 if
              typ == "real32" else 5e17]
        if typ == "real64":
            xs += [1e308, -4e200, 7e-300]
        return pywbem.cimvalue(rng.choice(xs), typ)
    if typ in REAL_TYPES:
        big = 3.4028234663852886e+38 if typ == "real32" else \
            1.7976931348623157e+308
        tiny = 1.401298464324817e-45 if typ == "real32" else 5e-324
        x = {"zero": 0.0, "nzero": -0.0, "one": 1.0, "max": big, "nmax": -big,
             "tiny": tiny, "inf": float("inf"), "ninf": float("-inf"),
             "nan": float("nan")}.get(t)
        if x is None:
            x = rng.choice([0.1, -2.5e-7, 123456.789, 1e21, 1e-5,
                            rng.uniform(-1e6, 1e6), rng.random() * 1e-30,
                            rng.uniform(-1, 1) * 10.0 ** rng.randint(-30, 30)])
            if typ == "real32":
                x = f32(x)
        return pywbem.cimvalue(x, typ)
    raise ValueError("conc_scalar %r %r" % (typ, vc))


def rand_vc(typ, rng, strings=None):
    if typ == "string":
        if strings and rng.random() < 0.7:
            return list(rng.choice(strings))
        return [rng.choice(CLASS_NAMES_NOCR) for _ in range(rng.randint(0, 6))]
    if typ == "char16":
        return [rng.choice(CHAR_VC)]
    if typ == "boolean":
        return [rng.choice(BOOL_VC)]
    if typ == "datetime":
        return [rng.choice(DT_VC)]
    if typ in INT_RANGE:
        return [rng.choice(INT_VC)]
    if typ in REAL_TYPES:
        return [rng.choice(REAL_VC)]
    raise ValueError(typ)


CLASS_NAMES_NOCR = [c for c in CLASS_NAMES if c != "cr"]

# ---------------------------------------------------------------------------
# names: abstract id -> concrete CIM name in random lexical case
# ---------------------------------------------------------------------------
NAME_BASE = {"a": "Alpha", "b": "beta_2", "c": "CIM_Gamma", "d": "delta",
             "e": "Épsilon", "f": "F", "g": "Gg_9", "h": "PyWBEM_Eta",
             "i": "iota", "j": "Jj", "k": "KeyK", "l": "Lambda",
             "x": "Xi_Origin", "y": "Ypsilon", "z": "Zeta_Z"}
# names with characters that need attribute escaping (never TAB/LF/CR: the
# XML attribute-value normalisation cannot keep them, and they are not CIM
# names; see notes)
NAME_EXOTIC = {"a": "A<l&pha>", "b": "be\"ta'", "c": "Ga mma", "d": " d ",
               "e": "\U0001F600e", "f": "f]]>", "g": "g g", "h": "&lt;h",
               "x": "X&#13;", "k": "K=\"k\""}
HOSTS = ["srv1.example.com", "HOST2:5989", "10.11.12.13", "[fe80::1]:5988",
         "h", "woot.com", "h<&>\"'", " h ", "é.example"]
NAMESPACES = ["root/cimv2", "interop", "root/a/b", "ROOT", "x/y",
              "root/PG_Interop", "r<&>t/\"q\"", "root/ x"]


def rand_case(s, rng):
    r = rng.random()
    if r < 0.4:
        return s
    if r < 0.55:
        return s.upper() if len(s.upper()) == len(s) else s
    if r < 0.7:
        return s.lower() if len(s.lower()) == len(s) else s
    return "".join(ch.upper() if rng.random() < 0.5 else ch.lower()
                   if len(ch.upper()) == 1 and len(ch.lower()) == 1 else ch
                   for ch in s)


class Conc:
    """concretisation of one abstract tree (seeded)"""

    def __init__(self, rng, exotic=False, strings=None):
        self.rng = rng
        self.exotic = exotic
        self.strings = strings
        self.fixed = {}        # element index -> concrete value (KeyRel cases)
        self.keyprops = {}     # name id -> concrete key property (own path)

    def name(self, nid):
        if self.exotic and nid in NAME_EXOTIC and self.rng.random() < 0.5:
            return NAME_EXOTIC[nid]
        return rand_case(NAME_BASE.get(nid, "N_" + nid), self.rng)

    def opt_name(self, tokn):
        return None if tokn == "N" else self.name(tokn)

    def host(self, tokn):
        if tokn == "N":
            return None
        hs = HOSTS if self.exotic else HOSTS[:6]
        return self.rng.choice(hs)

    def ns(self, tokn):
        if tokn == "N":
            return None
        nss = NAMESPACES if self.exotic else NAMESPACES[:6]
        return self.rng.choice(nss)


def _b(tokn):
    return {"N": None, "T": True, "F": False}[tokn]


def _kids(els, i, kinds=None):
    return [j for j, e in enumerate(els)
            if e["par"] == i + 1 and (kinds is None or e["k"] in kinds)]


def _shape_value(els, i, cx):
    """concrete value of element i (prop/qual/qdecl/pval/kb) from its shape,
    value class and (for embedded objects / references) child elements"""
    e = els[i]
    sh = e["sh"]
    if i in cx.fixed:
        return cx.fixed[i]
    if sh in ("", "null"):
        return None
    if sh == "empty":
        return []
    objs = [build(els, j, cx) for j in _kids(els, i, ("inst", "class",
                                                      "ipath", "cpath"))]

    def one():
        if objs:
            return objs.pop(0)
        return conc_scalar(e["ty"], e["vc"], cx.rng)
    if sh == "scalar":
        return one()
    if is_entry_shape(sh):
        # spec/CimWireMC.tla ShapeSeq: "v" = a value, "n" = a NULL entry
        return [one() if c == "v" else None for c in sh]
    raise ValueError("shape %r" % sh)


def is_entry_shape(sh):
    """an array shape written entry by entry ("v" value / "n" NULL), as
    ShapeSeq of spec/CimWireMC.tla"""
    return bool(sh) and set(sh) <= {"v", "n"}


def is_array_shape(sh):
    return sh == "empty" or is_entry_shape(sh)


# ---------------------------------------------------------------------------
# the instance's own path and the same-named key property: the cases of
# spec/CimWire.tla KeyRel.  An own keybinding element may carry "rel":
#   "agree"    the keybinding gets the property's concrete value
#   "value"    same type, a concrete value that differs (re-drawn if needed)
#   "lexcase"  (string / char16) the two values differ in lexical case only
# without "rel" both values are concretised independently.
# ---------------------------------------------------------------------------
def _fix_lexcase(els, i, cx):
    for pj in _kids(els, i, ("ipath",)):
        for kj in _kids(els, pj, ("kb",)):
            kb = els[kj]
            if kb.get("rel") != "lexcase":
                continue
            for qj in _kids(els, i, ("prop",)):
                pr = els[qj]
                if pr["nm"] != kb["nm"] or pr["sh"] != "scalar" or \
                        pr["ty"] != kb["ty"]:
                    continue
                if kb["ty"] == "char16":
                    c = cx.rng.choice("aqZ\u00e9\u0416")
                    cx.fixed[qj] = Char16(c)
                    cx.fixed[kj] = Char16(c.swapcase())
                elif kb["ty"] == "string":
                    base = cx.rng.choice(["Fritz", "k", "Q", "\u00e9t\u00c9"]) + \
                        conc_string([c for c in pr["vc"] if c != "cr"],
                                    cx.rng)
                    cx.fixed[qj] = base
                    cx.fixed[kj] = base.swapcase()


def _own_key_value(els, j, cx, v):
    kb = els[j]
    rel = kb.get("rel")
    prop = cx.keyprops.get(kb["nm"])
    if rel is None or prop is None or j in cx.fixed:
        return v
    if rel == "agree":
        return prop.value
    if rel == "value":
        for _ in range(20):
            if not v == prop.value:      # pylint: disable=unneeded-not
                return v
            v = conc_scalar(kb["ty"], rand_vc(kb["ty"], cx.rng), cx.rng)
    return v


def build(els, i, cx):
    """real pywbem object for abstract element i (0-based) and its subtree"""
    e = els[i]
    k = e["k"]
    if k == "ipath":
        kbs = []
        for j in _kids(els, i, ("kb",)):
            kb = els[j]
            if kb["ty"] == "numeric":      # untyped Python number
                v = cx.rng.choice([0, 1, -5, 2**40, 1.5, -0.25])
            else:
                v = _shape_value(els, j, cx)
            v = _own_key_value(els, j, cx, v)
            kbs.append((cx.name(kb["nm"]), v))
        return CIMInstanceName(cx.name(e["nm"]), keybindings=kbs,
                               host=cx.host(e["host"]),
                               namespace=cx.ns(e["ns"]))
    if k == "cpath":
        return CIMClassName(cx.name(e["nm"]), host=cx.host(e["host"]),
                            namespace=cx.ns(e["ns"]))
    if k == "qual":
        v = _shape_value(els, i, cx)
        return CIMQualifier(cx.name(e["nm"]), v, type=e["ty"],
                            propagated=_b(e["pg"]), overridable=_b(e["ovr"]),
                            tosubclass=_b(e["tsc"]), toinstance=_b(e["tin"]),
                            translatable=_b(e["trl"]))
    if k == "qdecl":
        v = _shape_value(els, i, cx)
        is_array = is_array_shape(e["sh"]) or e.get("isarr") == "T"
        scopes = {s: True for s in e.get("scopes", [])}
        for s in e.get("noscopes", []):
            scopes[s] = False
        return CIMQualifierDeclaration(
            cx.name(e["nm"]), e["ty"], value=v, is_array=is_array,
            array_size=None if e["asz"] == "N" else int(e["asz"]),
            scopes=scopes, overridable=_b(e["ovr"]), tosubclass=_b(e["tsc"]),
            toinstance=_b(e["tin"]), translatable=_b(e["trl"]))
    quals = [build(els, j, cx) for j in _kids(els, i, ("qual",))]
    if k == "prop":
        v = _shape_value(els, i, cx)
        is_array = is_array_shape(e["sh"]) or e.get("isarr") == "T"
        return CIMProperty(
            cx.name(e["nm"]), v, type=e["ty"], is_array=is_array,
            array_size=None if e["asz"] == "N" else int(e["asz"]),
            reference_class=cx.opt_name(e["rc"]),
            class_origin=cx.opt_name(e["co"]), propagated=_b(e["pg"]),
            embedded_object=None if e["emb"] == "N" else e["emb"],
            qualifiers=quals)
    if k == "pval":
        v = _shape_value(els, i, cx)
        return CIMParameter(
            cx.name(e["nm"]), e["ty"], value=v,
            is_array=isinstance(v, list) or e.get("isarr") == "T",
            embedded_object=None if e["emb"] == "N" else e["emb"])
    if k == "parm":
        is_array = e.get("isarr") == "T"
        return CIMParameter(
            cx.name(e["nm"]), e["ty"], is_array=is_array,
            array_size=None if e["asz"] == "N" else int(e["asz"]),
            reference_class=cx.opt_name(e["rc"]), qualifiers=quals)
    if k == "meth":
        parms = [build(els, j, cx) for j in _kids(els, i, ("parm",))]
        return CIMMethod(cx.name(e["nm"]), return_type=e["ty"],
                         parameters=parms, class_origin=cx.opt_name(e["co"]),
                         propagated=_b(e["pg"]), qualifiers=quals)
    if k == "inst":
        _fix_lexcase(els, i, cx)
        pidx = _kids(els, i, ("prop",))
        props = [build(els, j, cx) for j in pidx]
        saved = cx.keyprops
        cx.keyprops = {els[j]["nm"]: p for j, p in zip(pidx, props)}
        paths = [build(els, j, cx) for j in _kids(els, i, ("ipath",))]
        cx.keyprops = saved
        inst = CIMInstance(cx.name(e["nm"]), properties=props,
                           qualifiers=quals)
        if e.get("hp") == "Y" and not paths:
            # an embedded instance that HAS a path (any of the three forms)
            ns, host = cx.rng.choice(PATH_FORMS)
            inst.path = CIMInstanceName(
                inst.classname, keybindings=[("InstanceID", "emb:1")],
                namespace=cx.ns(ns), host=cx.host(host))
        if paths:
            # the path is attached to the finished instance and taken as it
            # is (CIMInstance(properties=..., path=...) would copy same-named
            # property values into the keybindings)
            inst.path = paths[0]
        return inst
    if k == "class":
        props = [build(els, j, cx) for j in _kids(els, i, ("prop",))]
        meths = [build(els, j, cx) for j in _kids(els, i, ("meth",))]
        return CIMClass(cx.name(e["nm"]), properties=props, methods=meths,
                        qualifiers=quals, superclass=cx.opt_name(e["sup"]))
    raise ValueError("kind %r" % k)


# ---------------------------------------------------------------------------
# the real round trip
# ---------------------------------------------------------------------------
def set_mode(mode):
    _cim_xml._CDATA_ESCAPING = (mode == "cdata")


def encode(obj, as_value=False):
    if as_value:
        return obj.tocimxmlstr(as_value=True)
    return pywbem.tocimxmlstr(obj)


class _Raw:
    version = 11


class _MethodResponseAdapter(object):
    """requests transport adapter that answers every request with a
    METHODRESPONSE holding the given PARAMVALUE (no network)"""

    def __init__(self):
        import requests
        from requests.adapters import BaseAdapter
        outer = self

        class _A(BaseAdapter):
            def send(self, request, **kwargs):
                resp = requests.Response()
                resp.status_code = 200
                resp.reason = "OK"
                resp.request = request
                resp.url = request.url
                resp.raw = _Raw()
                resp.headers["CIMOperation"] = "MethodResponse"
                resp.headers["Content-Type"] = 'application/xml; charset="utf-8"'
                resp._content = outer.body
                return resp

            def close(self):
                pass
        self.body = b""
        self.adapter = _A()
        self.conn = pywbem.WBEMConnection("http://c01.invalid:5988",
                                          default_namespace="root/c01",
                                          timeout=5)
        self.conn.session.mount("http://", self.adapter)

    def output_param(self, paramvalue_xml):
        self.body = (
            '<?xml version="1.0" encoding="utf-8" ?>'
            '<CIM CIMVERSION="2.0" DTDVERSION="2.0">'
            '<MESSAGE ID="1001" PROTOCOLVERSION="1.0"><SIMPLERSP>'
            '<METHODRESPONSE NAME="M">%s</METHODRESPONSE>'
            '</SIMPLERSP></MESSAGE></CIM>' % paramvalue_xml).encode("utf-8")
        _, outparams = self.conn.InvokeMethod("M", CIMClassName("C01_C"))
        if len(outparams) != 1:
            raise ValueError("UNCLASSIFIED: %d output parameters" %
                             len(outparams))
        return list(outparams.items())[0]


_MRA = []


def parse(xml, as_value=False):
    """the real parser.  A PARAMVALUE is additionally received the way a
    client receives it: as the output parameter of the REAL
    WBEMConnection.InvokeMethod() (response served by a transport adapter),
    because TupleParser.parse_paramvalue leaves the typing of the value to
    WBEMConnection._methodcall."""
    tt = xml_to_tupletree_sax(xml, "C01 round trip")
    r = TupleParser().parse_any(tt)
    if as_value:
        _name, ptype, _raw = r
        emb = tt[1].get("EmbeddedObject", tt[1].get("EMBEDDEDOBJECT"))
        if not _MRA:
            _MRA.append(_MethodResponseAdapter())
        name, val = _MRA[0].output_param(xml)
        return CIMParameter(name, ptype, value=val,
                            is_array=isinstance(val, list),
                            embedded_object=emb)
    if isinstance(r, tuple) and len(r) == 3 and isinstance(r[0], str):
        r = r[2]          # VALUE.OBJECTWITHLOCALPATH / VALUE.OBJECTWITHPATH
        if isinstance(r, tuple):
            r = r[1]
    return r


def has_unclassified(ev):
    import json
    return "UNCLASSIFIED" in json.dumps(ev)


def exc_token(exc):
    return type(exc).__name__


def run_obj(obj, mode, as_value=False):
    """-> (event, info): original -> XML -> parsed -> XML -> parsed again"""
    set_mode(mode)
    ev = {"op": "obj", "mode": mode, "enc": "ok", "parse": "", "orig": [],
          "got": [], "enc2": "", "parse2": "", "got2": [], "x1": "", "x2": "",
          "uncl": False}
    info = {}
    try:
        ev["orig"] = flatten(obj, as_value=as_value)
        try:
            x0 = encode(obj, as_value)
        except Exception as exc:       # pylint: disable=broad-except
            ev["enc"] = exc_token(exc)
            info["error"] = "encode: %s: %s" % (type(exc).__name__, exc)
            return ev, info
        info["xml"] = x0
        try:
            o1 = parse(x0, as_value)
            ev["parse"] = "ok"
        except Exception as exc:       # pylint: disable=broad-except
            ev["parse"] = exc_token(exc)
            info["error"] = "parse: %s: %s" % (type(exc).__name__,
                                               str(exc)[:300])
            return ev, info
        info["parsed"] = o1
        ev["got"] = flatten(o1, as_value=as_value)
        try:
            x1 = encode(o1, as_value)
            ev["enc2"] = "ok"
        except Exception as exc:       # pylint: disable=broad-except
            ev["enc2"] = exc_token(exc)
            info["error"] = "encode 2: %s: %s" % (type(exc).__name__, exc)
            return ev, info
        info["xml1"] = x1
        try:
            o2 = parse(x1, as_value)
            ev["parse2"] = "ok"
        except Exception as exc:       # pylint: disable=broad-except
            ev["parse2"] = exc_token(exc)
            info["error"] = "parse 2: %s: %s" % (type(exc).__name__,
                                                 str(exc)[:300])
            return ev, info
        ev["got2"] = flatten(o2, as_value=as_value)
        x2 = encode(o2, as_value)
        ev["x1"] = stok(x1)
        ev["x2"] = stok(x2)
        info["xml2"] = x2
        return ev, info
    finally:
        ev["uncl"] = has_unclassified(ev)
        set_mode("entity")


# ---------------------------------------------------------------------------
# string vectors: one string at one position, nested in `depth` embedded
# instances; the encoder's text is projected to the XmlText alphabet
# ---------------------------------------------------------------------------
def _between(xml, open_tag_prefix, close_tag):
    i = xml.find(open_tag_prefix)
    if i < 0:
        return None
    i = xml.find(">", i)
    j = xml.rfind(close_tag)
    if i < 0 or j < 0:
        return None
    return xml[i + 1:j]


def str_object(s, where, depth, rng, as_array=False):
    """a real object carrying the string s at position `where`, below `depth`
    embedded-instance levels"""
    name = rand_case("StrP", rng)
    if where == "value":
        inner = CIMProperty(name, [s] if as_array else s, type="string")
    elif where == "qualvalue":
        inner = CIMProperty(name, None, type="uint8", qualifiers=[
            CIMQualifier("Description", s, type="string")])
    elif where == "keyvalue":
        inner = CIMProperty(name, CIMInstanceName(
            "Tgt", keybindings=[("K", s)]), type="reference")
    elif where == "host":
        inner = CIMProperty(name, CIMInstanceName(
            "Tgt", keybindings=[("K", 1)], host=s, namespace="root/x"),
            type="reference")
    elif where == "char16":
        inner = CIMProperty(name, Char16(s), type="char16")
    elif where == "name":
        inner = CIMProperty(s, "v", type="string")
    else:
        raise ValueError(where)
    obj = inner
    for lvl in range(depth):
        inst = CIMInstance("Emb%d" % lvl, properties=[obj])
        if lvl % 2 and as_array:
            obj = CIMProperty("E%d" % lvl, [inst], type="string",
                              embedded_object="instance")
        else:
            obj = CIMProperty("E%d" % lvl, inst, type="string",
                              embedded_object=("instance", "object")[lvl % 2])
    return obj


def dig_string(obj, where, depth):
    """the string at the position str_object() put it (parsed object)"""
    for _ in range(depth):
        v = obj.value
        if isinstance(v, list):
            v = v[0]
        obj = list(v.properties.values())[0]
    if where == "name":
        return obj.name
    if where in ("value", "char16"):
        v = obj.value
        return v[0] if isinstance(v, list) else v
    if where == "qualvalue":
        return list(obj.qualifiers.values())[0].value
    if where == "keyvalue":
        return list(obj.value.keybindings.values())[0]
    if where == "host":
        return obj.value.host
    raise ValueError(where)


def outer_text(xml, where, depth):
    """the text the encoder wrote for the OUTERMOST escaped string: for
    depth 0 the string itself, else the embedded object's XML text"""
    if depth > 0 or where in ("value", "char16", "qualvalue"):
        return _between(xml, "<VALUE>", "</VALUE>")
    if where == "keyvalue":
        return _between(xml, "<KEYVALUE ", "</KEYVALUE>")
    if where == "host":
        return _between(xml, "<HOST>", "</HOST>")
    if where == "name":
        i = xml.find(' NAME="')
        j = xml.find('"', i + 7)
        return xml[i + 7:j] if 0 <= i < j else None
    return None


def run_str(spec, rng):
    """spec = {s: [classes], mode, depth, where}; -> (event, info)"""
    s = spec.get("concrete")
    if s is None:
        s = conc_string(spec["s"], rng)
    where, depth, mode = spec["where"], spec["depth"], spec["mode"]
    # HOST and KEYVALUE are always written through _text() (entity escaping);
    # only VALUE goes through _pcdata_nodes()
    emode = "entity" if depth == 0 and where in ("host", "keyvalue", "name") \
        else mode
    ev = {"op": "str", "mode": emode, "depth": depth, "where": where,
          "s": classify(s), "srctok": stok(s), "enc": "ok", "parse": "",
          "gottok": "", "got": [], "text": [], "inner": [],
          "x1": "", "x2": "", "stable": ""}
    info = {"source": s}
    set_mode(mode)
    try:
        obj = str_object(s, where, depth, rng, as_array=spec.get("arr", False))
        try:
            x0 = encode(obj)
        except Exception as exc:       # pylint: disable=broad-except
            ev["enc"] = exc_token(exc)
            info["error"] = "encode: %s: %s" % (type(exc).__name__, exc)
            return ev, info
        info["xml"] = x0
        t = outer_text(x0, where, depth)
        ev["text"] = text_syms(t) if t is not None else ["UNCLASSIFIED:text"]
        if depth > 0:
            # what the spec's Nest(...) stands for: the inner document
            inner = obj.value[0] if isinstance(obj.value, list) else obj.value
            ev["inner"] = text_syms(inner.tocimxml().toxml())
        try:
            o1 = parse(x0)
            ev["parse"] = "ok"
        except Exception as exc:       # pylint: disable=broad-except
            ev["parse"] = exc_token(exc)
            info["error"] = "parse: %s: %s" % (type(exc).__name__,
                                               str(exc)[:300])
            return ev, info
        try:
            got = dig_string(o1, where, depth)
        except Exception as exc:       # pylint: disable=broad-except
            ev["gottok"] = "UNCLASSIFIED:" + type(exc).__name__
            return ev, info
        info["got"] = got
        if not isinstance(got, str):
            ev["gottok"] = "UNCLASSIFIED:" + type(got).__name__
            return ev, info
        ev["gottok"] = stok(got)
        ev["got"] = classify(got)
        try:
            x1 = encode(o1)
            o2 = parse(x1)
            x2 = encode(o2)
            ev["x1"], ev["x2"] = stok(x1), stok(x2)
            ev["stable"] = "T" if flatten(o2) == flatten(o1) else "F"
        except Exception as exc:       # pylint: disable=broad-except
            ev["stable"] = exc_token(exc)
        return ev, info
    finally:
        set_mode("entity")


# ---------------------------------------------------------------------------
# abstract trees: from the TLC builder machine (CimWireMC) and from the seeded
# random driver.  Abstract element = dict(k, par, nm, ty, sh, vc, co, pg, asz,
# rc, emb, ovr, tsc, tin, trl, host, ns, sup [, isarr, scopes])
# ---------------------------------------------------------------------------
def E(k, par, nm, **kw):
    e = {"k": k, "par": par, "nm": nm, "ty": "", "sh": "", "vc": [], "co": "N",
         "pg": "N", "asz": "N", "rc": "N", "emb": "N", "ovr": "N", "tsc": "N",
         "tin": "N", "trl": "N", "host": "N", "ns": "N", "sup": "N",
         "hp": "N"}
    e.update(kw)
    return e


_VC_OF_TOKEN = {"i:min": "min", "i:max": "max", "i:int": "int", "b:T": "T",
                "b:F": "F", "d:ts": "ts", "d:iv": "iv", "r:frac": "frac",
                "r:nan": "nan", "r:inf": "inf"}


def from_builder(recs, rng, rels=None, refine_dt=True):
    """element records of the TLC builder machine -> abstract elements.
    Value classes TLC left open (which boundary, which datetime form) are
    refined at random.  `rels`: TLC's KeyRel case per element (keybindings
    of the instance's own path vs. the same-named property); "value" on
    strings is refined into another string / lexical case only."""
    idx = {r["path"]: i for i, r in enumerate(recs)}
    els = []
    for r in recs:
        path = r["path"]
        if path == "/":
            par = 0
        else:
            parent = path[:path.rstrip("/").rfind("/") + 1]
            par = idx[parent] + 1
        e = E(r["et"], par, r["name"], ty=r["type"])
        if rels is not None and rels[len(els)] in ("agree", "value"):
            e["rel"] = rels[len(els)]
            if e["rel"] == "value" and r["type"] in ("string", "char16") \
                    and rng.random() < 0.5:
                e["rel"] = "lexcase"
        if r["et"] in ("prop", "qual", "qdecl", "pval", "kb"):
            val = list(r["val"])
            if r["isnull"]:
                e["sh"] = "null"
                if r["arr"] == "a":
                    e["isarr"] = "T"
            elif r["arr"] == "s":
                e["sh"] = "scalar"
            else:
                e["sh"] = {0: "empty"}.get(len(val)) or (
                    "".join("n" if v == "~" else "v" for v in val))
            for k, v in enumerate(val):
                if v == "~" or v.startswith("@"):
                    continue
                if r["type"] in ("string", "char16"):
                    e["vc"] = list(r["cls"][k])
                else:
                    vc = _VC_OF_OFFSET_TOKEN.get(v) or _VC_OF_TOKEN[v]
                    if vc in ("min", "max") and rng.random() < 0.3:
                        vc = rng.choice(INT_VC)
                    if vc == "frac" and rng.random() < 0.5:
                        vc = rng.choice(REAL_VC)
                    if vc == "inf" and rng.random() < 0.5:
                        vc = "ninf"
                    if refine_dt and vc in ("ts:zero", "iv") and \
                            rng.random() < 0.5:
                        vc = rng.choice(DT_VC)
                    e["vc"] = [vc]
                break
        elif r["et"] in ("parm",):
            if r["arr"] == "a":
                e["isarr"] = "T"
        e["co"] = "N" if r["co"] == "~" else r["co"]
        e["rc"] = "N" if r["rc"] == "~" else r["rc"]
        e["sup"] = "N" if r["sup"] == "~" else r["sup"]
        e["host"] = "N" if r["host"] == "~" else "h"
        e["ns"] = "N" if r["ns"] == "~" else "n"
        e["asz"] = "N" if r["asize"] < 0 else str(r["asize"])
        for a in ("pg", "emb", "ovr", "tsc", "tin", "trl"):
            e[a] = r[a]
        e["hp"] = r.get("hp", "N")
        if r["scopes"]:
            e["scopes"] = list(r["scopes"])
        els.append(e)
    return els


# NULL multiplicity of an array value (spec/CimWire.tla NullMult): none / one /
# many; the "many" shapes of spec/CimWireMC.tla ShapeSeq: adjacent, separated
# by a value, before / after values, alternating with a value at the end
MANY_NULL_SHAPES = ["nn", "nvn", "nnv", "vnn", "nvnv"]
BASE_SHAPES = ["null", "scalar", "empty", "v", "n", "vn", "nv", "vv"]
SHAPES = BASE_SHAPES * 2 + MANY_NULL_SHAPES      # ~1/4 of the random values
SCOPES = ["CLASS", "ASSOCIATION", "REFERENCE", "PROPERTY", "METHOD",
          "PARAMETER", "INDICATION"]


class TreeGen:
    """seeded random abstract trees.  `clean`: avoid the input classes with a
    recorded design-level counterexample (CR, NULL entry in a non-string
    array, char16 keybinding, boolean parameter value), so that other
    failures of the same tree are not hidden behind them."""

    def __init__(self, rng, clean=False, strings=None, maxdepth=3):
        self.rng = rng
        self.clean = clean
        self.strings = strings
        self.maxdepth = maxdepth
        self.els = []

    def add(self, e):
        self.els.append(e)
        return len(self.els)

    def vc(self, typ):
        rng = self.rng
        if typ == "string":
            if self.strings and rng.random() < 0.6:
                s = list(rng.choice(self.strings))
            else:
                s = [rng.choice(CLASS_NAMES) for _ in range(rng.randint(0, 6))]
            if self.clean:
                s = [c for c in s if c != "cr"]
            return s
        return rand_vc(typ, rng)

    def valued(self, k, par, nm, depth, types=None):
        rng = self.rng
        typ = rng.choice(types or ALL_TYPES)
        sh = rng.choice(SHAPES)
        if k in ("qual", "qdecl") and typ == "reference":
            typ = "string"
        if k == "pval" and typ == "boolean" and self.clean:
            typ = "uint16"
        e = E(k, par, nm, ty=typ, sh=sh)
        me = self.add(e)
        if typ == "reference":
            if k != "pval" and sh not in ("null", "scalar"):
                e["sh"] = sh = "scalar"
            for _ in range(sh.count("v") if sh not in ("scalar",) else 1):
                self.path(me, depth + 1, allow_class=True)
            if k in ("prop",) and rng.random() < 0.5:
                e["rc"] = "x"
            return me
        if typ == "string" and k in ("prop", "pval") and \
                depth < self.maxdepth and rng.random() < 0.3:
            e["emb"] = rng.choice(["instance", "object"])
            n = 1 if sh == "scalar" else sh.count("v")
            for _ in range(n):
                if e["emb"] == "object" and rng.random() < 0.5:
                    self.klass(me, depth + 1)
                else:
                    self.inst(me, depth + 1)
            return me
        if self.clean and typ != "string" and "n" in sh and \
                sh not in ("null",) and k != "pval":
            e["sh"] = sh = sh.replace("n", "v") if sh != "n" else "v"
        if sh == "scalar" or "v" in sh:
            e["vc"] = self.vc(typ)
        return me

    def attrs(self, i):
        rng = self.rng
        e = self.els[i - 1]
        k = e["k"]
        if k in ("prop", "meth"):
            e["co"] = rng.choice(["N", "x", "y"])
            e["pg"] = rng.choice("NTF")
        if k in ("prop", "qdecl") and e["ty"] != "reference":
            if e["sh"] == "null" and rng.random() < 0.5:
                e["isarr"] = "T"
            if e["sh"] not in ("null", "scalar") or e.get("isarr") == "T":
                e["asz"] = rng.choice(["N", "0", "2", "5"])
        if k == "qual":
            for a in ("pg", "ovr", "tsc", "tin", "trl"):
                e[a] = rng.choice("NTF")
        if k == "qdecl":
            for a in ("ovr", "tsc", "tin", "trl"):
                e[a] = rng.choice("NTF")
            sc = rng.sample(SCOPES, rng.randint(0, 3))
            e["scopes"] = sc
            e["noscopes"] = [s for s in rng.sample(SCOPES, 2) if s not in sc]

    def quals(self, par, n):
        for nm in self.rng.sample("abcdefg", n):
            i = self.valued("qual", par, nm, 9)
            self.attrs(i)

    def path(self, par, depth, allow_class=False, own=False):
        rng = self.rng
        if allow_class and rng.random() < 0.15:
            e = E("cpath", par, rng.choice("abc"))
            self.add(e)
        else:
            e = E("ipath", par, rng.choice("abc"))
            me = self.add(e)
            kts = [t for t in ALL_TYPES + ["numeric"]
                   if not (self.clean and t == "char16")]
            pool = "klyz" if own else "abcdk"
            for nm in rng.sample(pool, rng.randint(1, 3)):
                typ = rng.choice(kts)
                if typ == "reference" and depth >= self.maxdepth:
                    typ = "string"
                kb = E("kb", me, nm, ty=typ, sh="scalar")
                ki = self.add(kb)
                if typ == "reference":
                    self.path(ki, depth + 1)
                elif typ != "numeric":
                    kb["vc"] = self.vc(typ)
        if rng.random() < 0.6:
            e["ns"] = "n"
            if rng.random() < 0.5:
                e["host"] = "h"

    def inst(self, par, depth):
        rng = self.rng
        me = self.add(E("inst", par, rng.choice("abc")))
        if rng.random() < 0.3:
            self.quals(me, 1)
        for nm in rng.sample("abcdefghij", rng.randint(0, 3)):
            i = self.valued("prop", me, nm, depth)
            self.attrs(i)
            if rng.random() < 0.3:
                self.quals(i, rng.randint(1, 2))
        if par == 0 and rng.random() < 0.7:
            self.path(me, 1, own=True)
        return me

    def klass(self, par, depth):
        rng = self.rng
        me = self.add(E("class", par, rng.choice("abc"),
                        sup=rng.choice(["N", "x"])))
        if rng.random() < 0.5:
            self.quals(me, rng.randint(1, 2))
        for nm in rng.sample("abcdefghij", rng.randint(0, 3)):
            i = self.valued("prop", me, nm, depth)
            self.attrs(i)
            if rng.random() < 0.3:
                self.quals(i, 1)
        for nm in rng.sample("abc", rng.randint(0, 2)):
            self.meth(me, nm)
        return me

    def meth(self, par, nm):
        rng = self.rng
        m = E("meth", par, nm,
              ty=rng.choice([t for t in ALL_TYPES if t != "reference"]))
        mi = self.add(m)
        self.attrs(mi)
        if rng.random() < 0.3:
            self.quals(mi, 1)
        for pn in rng.sample("abcd", rng.randint(0, 3)):
            self.parm(mi, pn)
        return mi

    def parm(self, par, nm):
        rng = self.rng
        p = E("parm", par, nm, ty=rng.choice(ALL_TYPES))
        pi = self.add(p)
        if rng.random() < 0.4:
            p["isarr"] = "T"
            p["asz"] = rng.choice(["N", "4"])
        if p["ty"] == "reference":
            p["rc"] = rng.choice(["N", "x"])
        if rng.random() < 0.3:
            self.quals(pi, 1)
        return pi

    def tree(self, kind=None):
        rng = self.rng
        self.els = []
        k = kind or rng.choice(["inst", "inst", "class", "class", "ipath",
                                "cpath", "prop", "meth", "parm", "pval",
                                "qual", "qdecl"])
        if k == "inst":
            self.inst(0, 0)
        elif k == "class":
            self.klass(0, 0)
        elif k in ("ipath", "cpath"):
            self.path(0, 0, allow_class=(k == "cpath"))
            if k == "cpath":
                self.els = [E("cpath", 0, rng.choice("abc"),
                              ns=self.els[0]["ns"], host=self.els[0]["host"])]
        elif k in ("prop", "pval", "qual", "qdecl"):
            i = self.valued(k, 0, "a", 0)
            self.attrs(i)
            if k == "prop" and rng.random() < 0.3:
                self.quals(1, rng.randint(1, 2))
        elif k == "meth":
            self.meth(0, "a")
        elif k == "parm":
            self.parm(0, "a")
        return self.els


def unit_tree(kind, typ, sh, vc, where="root"):
    """one valued element of the given kind/type/shape, alone (`root`) or as
    the only child of an instance / class / property"""
    e = E(kind, 0, "a", ty=typ, sh=sh, vc=list(vc))
    if where == "root":
        return [e]
    if kind == "prop":
        e["par"] = 1
        return [E("inst" if where == "inst" else "class", 0, "c"), e]
    if kind == "qual":
        e["par"] = 2
        return [E("inst", 0, "c"), E("prop", 1, "b", ty="uint8", sh="null"), e]
    if kind == "kb":
        e["par"] = 1
        e["sh"] = "scalar"
        return [E("ipath", 0, "c"), e]
    raise ValueError(kind)


def emb_unit_tree(kind, emb, sh, where="root", hp="N"):
    """one embedded-object valued element (property / parameter value) of the
    given shape: spec/CimWireMC.tla AddEmb (EmbShapes: scalar, arrays with
    objects and NULL entries, and the object-less values NULL / empty array);
    every "v" entry is an embedded instance (emb = "object": alternately a
    class) with one property"""
    e = E(kind, 0, "a", ty="string", sh=sh, emb=emb)
    els = [e]
    if where != "root" and kind == "prop":
        e["par"] = 1
        els = [E("inst" if where == "inst" else "class", 0, "c"), e]
    me = len(els)
    n = 1 if sh == "scalar" else (sh.count("v") if is_entry_shape(sh) else 0)
    for j in range(n):
        ok = "class" if emb == "object" and j % 2 == 1 else "inst"
        els.append(E(ok, me, "bc"[j % 2], hp=hp if ok == "inst" else "N"))
        els.append(E("prop", len(els), "d", ty="uint8", sh="scalar",
                     vc=["max"]))
    return els


# the cases of spec/CimWire.tla KeyRel for a keybinding of the instance's own
# path ("shape" split into its two members, "value" refined by "lexcase")
KEY_RELS = ["free", "agree", "value", "lexcase", "type", "shape-null",
            "shape-array"]
PATH_FORMS = [("N", "N"), ("n", "N"), ("n", "h")]     # (namespace, host)


def keyprop_unit_tree(typ, rel, form, vc, vc2, other_typ, extra):
    """an instance WITH its path (form: no namespace / namespace / namespace
    + host) whose keybinding `a` of CIM type `typ` stands in relation `rel`
    to the same-named property; `extra`: a non-key property and a second,
    free keybinding around it"""
    ns, host = form
    els = [E("inst", 0, "c")]
    if extra:
        els.append(E("prop", 1, "d", ty="uint16", sh="scalar", vc=["mid"]))
    if rel != "free":
        pt, psh, pvc = typ, "scalar", list(vc2 if rel == "value" else vc)
        if rel == "type":
            pt, pvc = other_typ, rand_vc_first(other_typ)
        elif rel == "shape-null":
            psh, pvc = "null", []
        elif rel == "shape-array":
            psh = "v"
        els.append(E("prop", 1, "a", ty=pt, sh=psh, vc=pvc))
    els.append(E("ipath", 1, "c", ns=ns, host=host))
    me = len(els)
    if extra:
        els.append(E("kb", me, "b", ty="string", sh="scalar", vc=["ltr"]))
    kb = E("kb", me, "a", ty=typ, sh="scalar", vc=list(vc))
    if rel in ("agree", "value", "lexcase"):
        kb["rel"] = rel
    els.append(kb)
    return els


def rand_vc_first(typ):
    return {"string": ["ltr", "ltr"], "char16": ["ltr"], "boolean": ["T"],
            "datetime": ["ts"]}.get(typ, ["one"])
