"""
Concrete repositories for the mock-server checks (C04, C10..C15).

The TLA+ specs talk about abstract ids; this module owns the concrete schema
and the cloning of a primed FakedWBEMConnection (deepcopy of a template is
~10x cheaper than recompiling the MOF).
"""
import copy
import pywbem
import pywbem_mock

NS1 = "root/v1"
NS2 = "root/v2"

QUALIFIERS = """
Qualifier Key : boolean = false, Scope(property, reference),
    Flavor(DisableOverride, ToSubclass);
Qualifier Association : boolean = false, Scope(association),
    Flavor(DisableOverride, ToSubclass);
Qualifier Indication : boolean = false, Scope(class, indication),
    Flavor(DisableOverride, ToSubclass);
Qualifier Abstract : boolean = false, Scope(class, association, indication),
    Flavor(EnableOverride, Restricted);
Qualifier Description : string = null, Scope(any),
    Flavor(EnableOverride, ToSubclass, Translatable);
Qualifier Override : string = null, Scope(property, reference, method),
    Flavor(EnableOverride, Restricted);
Qualifier In : boolean = true, Scope(parameter),
    Flavor(DisableOverride, ToSubclass);
Qualifier Out : boolean = false, Scope(parameter),
    Flavor(DisableOverride, ToSubclass);
Qualifier EmbeddedInstance : string = null, Scope(property, method, parameter),
    Flavor(EnableOverride, ToSubclass);
Qualifier EmbeddedObject : boolean = false, Scope(property, method, parameter),
    Flavor(DisableOverride, ToSubclass);
Qualifier MaxLen : uint32 = null, Scope(property, method, parameter),
    Flavor(EnableOverride, ToSubclass);
Qualifier ValueMap : string[], Scope(property, method, parameter),
    Flavor(EnableOverride, ToSubclass);
Qualifier Values : string[], Scope(property, method, parameter),
    Flavor(EnableOverride, ToSubclass, Translatable);
"""

SCHEMA = """
class VA {
    [Key] uint32 k;
    string s;
    uint8 u8a[];
    datetime d;
    boolean b;
    sint64 i64;
    real64 r;
};
class VB : VA { string sb; };
class VC : VB { sint16 sc; };
class VX {
    [Key] string name;
    [Key] uint16 n;
    string note;
};
[Association] class VAssoc {
    [Key] VA REF left;
    [Key] VX REF right;
    string note;
};
[Association] class VAssocSub : VAssoc { uint8 w; };
[Association] class VTern {
    [Key] VA REF a;
    [Key] VA REF b;
    [Key] VX REF x;
};
class VM {
    [Key] uint32 k;
    string s;
    uint32 DoIt(
        [IN] uint8 P1, [IN] string P2, [IN] uint32 P3[],
        [IN ( false ), OUT] boolean OB, [IN ( false ), OUT] boolean OBT,
        [IN ( false ), OUT] char16 OC, [IN ( false ), OUT] string OS,
        [IN ( false ), OUT] uint16 OA[], [IN ( false ), OUT] boolean OBA[]);
    uint32 DoAll(
        [IN] char16 C, [IN] char16 CA[], [IN] datetime D, [IN] datetime DA[],
        [IN] real32 R4, [IN] real64 R8, [IN] sint64 S8, [IN] uint64 U8A[],
        [IN] sint8 S1, [IN] uint16 U2A[],
        [IN] boolean B, [IN] boolean BA[], [IN] string S, [IN] string SA[],
        [IN] VA REF RF, [IN] VA REF RFA[],
        [IN, EmbeddedInstance("VA")] string EI,
        [IN, EmbeddedObject] string EO,
        [IN ( false ), OUT] string Seen[]);
};
class VN0 { [Key] uint32 k; string s; };
class VN1 { [Key] uint32 k; string s; };
class VN2 { [Key] uint32 k; string s; };
class VN3 { [Key] uint32 k; string s; };
class VN4 { [Key] uint32 k; string s; };
class VN5 { [Key] uint32 k; string s; };
class VN7 { [Key] uint32 k; string s; };
"""


def _instances_mof():
    out = []
    for n in (1, 2, 3, 4, 5, 7):
        for i in range(1, n + 1):
            out.append('instance of VN%d { k = %d; s = "n%d-%d"; };' %
                       (n, i, n, i))
    # VA tree: 2 VA, 2 VB, 1 VC
    out.append('instance of VM { k = 1; s = "m1"; };')
    out.append('instance of VA as $a1 { k = 1; s = "a1"; u8a = {1,2}; b = true; };')
    out.append('instance of VA as $a2 { k = 2; s = "a2"; i64 = -5; };')
    out.append('instance of VB as $b3 { k = 3; s = "b3"; sb = "x"; };')
    out.append('instance of VB as $b4 { k = 4; sb = "y"; };')
    out.append('instance of VC as $c5 { k = 5; sc = -3; };')
    for i in (1, 2, 3, 4):
        out.append('instance of VX as $x%d { name = "x%d"; n = %d; };' %
                   (i, i, i))
    # $a1 -- x1,x2,x3 (3 assocs, one a subclass assoc); $a2 -- x1 ; $b3 -- x4,x1
    out.append('instance of VAssoc { left = $a1; right = $x1; note = "n1"; };')
    out.append('instance of VAssoc { left = $a1; right = $x2; };')
    out.append('instance of VAssocSub { left = $a1; right = $x3; w = 3; };')
    out.append('instance of VAssoc { left = $a2; right = $x1; };')
    out.append('instance of VAssocSub { left = $b3; right = $x4; w = 1; };')
    out.append('instance of VAssoc { left = $b3; right = $x1; };')
    out.append('instance of VTern { a = $a1; b = $a2; x = $x2; };')
    return "\n".join(out)


RC_SCHEMA = """
class RA {
    [Key] uint32 K;
    [Key] string K2;
    string S;
    uint16 T;
};
class RB : RA { string U[]; };
class RX {
    [Key] uint32 K;
    [Key] string K2;
    string S;
};
"""

_TEMPLATE = None
_RC_TEMPLATE = None


def rc_fresh():
    """Connection with the RepoCore schema (RA, RB:RA, RX) in NS1 and NS2,
    no instances."""
    global _RC_TEMPLATE
    if _RC_TEMPLATE is None:
        conn = pywbem_mock.FakedWBEMConnection(default_namespace=NS1)
        for ns in (NS1, NS2):
            if ns.lower() not in [n.lower() for n in conn.namespaces]:
                conn.add_namespace(ns)
            conn.compile_mof_string(QUALIFIERS + RC_SCHEMA, namespace=ns)
        _RC_TEMPLATE = conn
    return copy.deepcopy(_RC_TEMPLATE)



def template():
    global _TEMPLATE
    if _TEMPLATE is None:
        conn = pywbem_mock.FakedWBEMConnection(default_namespace=NS1)
        for ns in (NS1, NS2):
            if ns.lower() not in [n.lower() for n in conn.namespaces]:
                conn.add_namespace(ns)
            conn.compile_mof_string(QUALIFIERS + SCHEMA, namespace=ns)
        conn.compile_mof_string(_instances_mof(), namespace=NS1)
        # small second namespace: only VN2 instances (can be emptied + removed)
        conn.compile_mof_string(
            'instance of VN3 { k = 1; s = "a"; };\n'
            'instance of VN3 { k = 2; s = "b"; };\n'
            'instance of VN3 { k = 3; s = "c"; };\n'
            'instance of VX { name = "x1"; n = 1; };\n', namespace=NS2)
        _TEMPLATE = conn
    return _TEMPLATE


def fresh(**attrs):
    """A new, independent FakedWBEMConnection with the template content."""
    conn = copy.deepcopy(template())
    for k, v in attrs.items():
        setattr(conn, k, v)
    return conn


def empty_and_remove_namespace(conn, ns):
    """Empty a namespace through public operations and remove it."""
    for path in conn.EnumerateInstanceNames_all(ns) if hasattr(
            conn, "EnumerateInstanceNames_all") else _all_instance_names(conn, ns):
        try:
            conn.DeleteInstance(path)
        except pywbem.CIMError:
            pass
    # delete classes bottom-up
    while True:
        names = conn.EnumerateClassNames(namespace=ns, DeepInheritance=True)
        if not names:
            break
        leafs = [n for n in names if not conn.EnumerateClassNames(
            namespace=ns, ClassName=n)]
        for n in leafs:
            conn.DeleteClass(pywbem.CIMClassName(n, namespace=ns))
    for q in conn.EnumerateQualifiers(namespace=ns):
        conn.DeleteQualifier(q.name, namespace=ns)
    conn.remove_namespace(ns)


def _all_instance_names(conn, ns):
    res = []
    for cn in conn.EnumerateClassNames(namespace=ns, DeepInheritance=True):
        for p in conn.EnumerateInstanceNames(cn, namespace=ns):
            if p.classname.lower() == cn.lower():
                res.append(p)
    return res


DMTF_SCHEMA_PRAGMA = "tests/schema/mofFinal2.49.0/cim_schema_2.49.0.mof"
_NSP_TEMPLATE = None


def schema_pragma_file():
    """Path of the DMTF schema pragma file: the extracted copy in the tree
    under test, else in /repo, else extracted from the tracked zip into
    /verif/.work/schema."""
    import os
    import zipfile
    root = os.path.dirname(os.path.dirname(os.path.abspath(pywbem.__file__)))
    for base in (root, "/repo"):
        p = os.path.join(base, DMTF_SCHEMA_PRAGMA)
        if os.path.exists(p):
            return p
    here = os.path.dirname(os.path.dirname(os.path.abspath(__file__)))
    dest = os.path.join(here, ".work", "schema", "mofFinal2.49.0")
    p = os.path.join(dest, "cim_schema_2.49.0.mof")
    if not os.path.exists(p):
        os.makedirs(dest, exist_ok=True)
        for base in (root, "/repo"):
            z = os.path.join(base, "tests/schema/cim_schema_2.49.0Final-MOFs.zip")
            if os.path.exists(z):
                with zipfile.ZipFile(z) as zf:
                    zf.extractall(dest)
                break
    return p


def fresh_with_namespace_provider():
    """Template content plus an Interop namespace with the CIM_Namespace
    provider installed (classes from the DMTF schema shipped in tests/)."""
    global _NSP_TEMPLATE
    if _NSP_TEMPLATE is None:
        conn = copy.deepcopy(template())
        conn.install_namespace_provider(
            "interop", schema_pragma_file=schema_pragma_file())
        _NSP_TEMPLATE = conn
    return copy.deepcopy(_NSP_TEMPLATE)


class VMMethodProvider(pywbem_mock.MethodProvider):
    """Method provider for VM.DoIt: echoes the inputs into typed outputs
    (used by the wire-equivalence check)."""
    provider_classnames = "VM"

    def InvokeMethod(self, methodname, localobject, params):
        if methodname.lower() == "doall":
            # echoes which parameters arrived, with their CIM types
            import cimcanon
            seen = sorted("%s:%s:%s:%s" % (n.lower(), p.type, bool(p.is_array),
                                           cimcanon.digest(p.value))
                          for n, p in params.items())
            return (pywbem.Uint32(len(seen)),
                    [pywbem.CIMParameter("Seen", "string", is_array=True,
                                         value=seen)])
        if methodname.lower() != "doit":
            raise pywbem.CIMError(pywbem.CIM_ERR_METHOD_NOT_AVAILABLE)
        p2 = params["P2"].value if "P2" in params else None
        p3 = params["P3"].value if "P3" in params else None
        out = [
            pywbem.CIMParameter("OB", "boolean", value=False),
            pywbem.CIMParameter("OBT", "boolean", value=True),
            pywbem.CIMParameter("OC", "char16", value="x"),
            pywbem.CIMParameter("OS", "string", value=p2),
            pywbem.CIMParameter("OA", "uint16", is_array=True,
                                value=[pywbem.Uint16(int(v) % 65536)
                                       for v in (p3 or [])]),
            pywbem.CIMParameter("OBA", "boolean", is_array=True,
                                value=[False, True, False]),
        ]
        p1 = params["P1"].value if "P1" in params else 0
        return (pywbem.Uint32(int(p1 or 0)), out)


def register_method_provider(conn):
    conn.register_provider(VMMethodProvider(conn.cimrepository),
                           namespaces=[NS1, NS2])
