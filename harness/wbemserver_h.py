"""
X06 helper: concrete WBEM servers (pywbem_mock) for the WBEMServer
specification, concretisation of abstract worlds / calls and projection of
results.  Python only builds, drives and projects; TLC judges.

Server = pywbem_mock.FakedWBEMConnection with
  * a small schema of our own carrying the DMTF names the client code asks for
    (CIM_Namespace, CIM_ObjectManager, CIM_RegisteredProfile,
    CIM_ElementConformsToProfile, CIM_ReferencedProfile) plus resource classes
    TST_S, TST_M, TST_C, TST_C2 : TST_C and associations TST_A1, TST_A2,
  * pywbem_mock's CIM_Namespace provider (where the world has one),
  * a method provider for CIM_RegisteredProfile.GetCentralInstances and a
    thin subclass that lets the *server* refuse the traversal of
    CIM_ElementConformsToProfile (CIM_ERR_NOT_SUPPORTED = central class
    methodology not implemented, the only way a server can say so).
"""
import copy
import warnings

import pywbem
import pywbem_mock
from pywbem import (CIMInstance, CIMInstanceName, CIMProperty, CIMError,
                    Uint16, Uint32)

import mockrepo

MOF = """
class CIM_ManagedElement {
  string InstanceID; string Caption; string Description; string ElementName;
};
class CIM_ObjectManager : CIM_ManagedElement {
  [Key] string SystemCreationClassName; [Key] string SystemName;
  [Key] string CreationClassName; [Key] string Name;
  string Version;
};
class CIM_RegisteredProfile : CIM_ManagedElement {
  [Key, Override("InstanceID")] string InstanceID;
  [ValueMap {"1","2","11","19"},
   Values {"Other","DMTF","SNIA","The Open Group"}]
  uint16 RegisteredOrganization;
  string RegisteredName;
  string RegisteredVersion;
  uint32 GetCentralInstances(
      [IN(false), OUT] CIM_ManagedElement REF CentralInstances[]);
};
[Association] class CIM_ElementConformsToProfile {
  [Key] CIM_RegisteredProfile REF ConformantStandard;
  [Key] CIM_ManagedElement REF ManagedElement;
};
[Association] class CIM_ReferencedProfile {
  [Key] CIM_RegisteredProfile REF Antecedent;
  [Key] CIM_RegisteredProfile REF Dependent;
};
class TST_S : CIM_ManagedElement { [Key] string Id; };
class TST_M : CIM_ManagedElement { [Key] string Id; };
class TST_C : CIM_ManagedElement { [Key] string Id; };
class TST_C2 : TST_C { };
[Association] class TST_A1 {
  [Key] CIM_ManagedElement REF Left; [Key] CIM_ManagedElement REF Right; };
[Association] class TST_A2 {
  [Key] CIM_ManagedElement REF Left; [Key] CIM_ManagedElement REF Right; };
"""
NS_KEYS = """
  [Key] string SystemCreationClassName; [Key] string SystemName;
  [Key] string ObjectManagerCreationClassName; [Key] string ObjectManagerName;
  [Key] string CreationClassName; [Key] string Name;
"""
MOF_CIM_NAMESPACE = "class CIM_Namespace : CIM_ManagedElement {%s};\n" % NS_KEYS
MOF_WBEMSERVER_NAMESPACE = \
    "class CIM_WBEMServerNamespace : CIM_ManagedElement { [Key] string Name; };\n"
MOF_UU_NAMESPACE = "class __Namespace { [Key] string Name; };\n"

RES_NS = "root/v1"
RESOURCES = {"r1": "TST_S", "r2": "TST_M", "r3": "TST_C", "r4": "TST_C2",
             "r5": "TST_S", "r6": "TST_C"}
CLASS_TOKEN = {"S": "TST_S", "M": "TST_M", "C": "TST_C", "C2": "TST_C2",
               "A1": "TST_A1", "A2": "TST_A2"}
PROFILES = ("p1", "p2", "p3")
ERR_CODE = pywbem.CIM_ERR_ACCESS_DENIED


class GciProvider(pywbem_mock.MethodProvider):
    """CIM_RegisteredProfile.GetCentralInstances as the world prescribes."""
    provider_classnames = "CIM_RegisteredProfile"

    def __init__(self, cimrepository):
        super().__init__(cimrepository)
        self.mode = "notimpl"
        self.paths = []
        self.notimpl_code = pywbem.CIM_ERR_METHOD_NOT_FOUND
        self.calls = 0

    def InvokeMethod(self, methodname, localobject, params):
        self.calls += 1
        if methodname.lower() != "getcentralinstances" or \
                self.mode == "notimpl":
            raise CIMError(self.notimpl_code, "not implemented")
        if self.mode == "failed":
            raise CIMError(pywbem.CIM_ERR_FAILED, "failed")
        if self.mode == "err":
            raise CIMError(ERR_CODE, "denied")
        if self.mode == "rcfail":
            return (Uint32(1), [])
        return (Uint32(0), [pywbem.CIMParameter(
            "CentralInstances", "reference", is_array=True,
            value=list(self.paths))])


class ShimConn(pywbem_mock.FakedWBEMConnection):
    """The server may refuse the ECTP traversal per profile."""
    x06_cm = None          # InstanceID -> "impl" | "unsup" | "err"
    x06_ops = None         # log of operations issued by the client code

    def _log(self, op):
        if self.x06_ops is not None:
            self.x06_ops.append(op)

    def AssociatorNames(self, ObjectName, AssocClass=None, **kw):
        self._log("AssociatorNames")
        if self.x06_cm and AssocClass is not None and \
                AssocClass.lower() == "cim_elementconformstoprofile" and \
                isinstance(ObjectName, CIMInstanceName):
            mode = self.x06_cm.get(ObjectName.keybindings.get("InstanceID"))
            if mode == "unsup":
                raise CIMError(pywbem.CIM_ERR_NOT_SUPPORTED,
                               "association traversal not supported")
            if mode == "err":
                raise CIMError(ERR_CODE, "denied")
        return super().AssociatorNames(ObjectName, AssocClass=AssocClass, **kw)

    def EnumerateInstances(self, *a, **kw):
        self._log("EnumerateInstances")
        return super().EnumerateInstances(*a, **kw)

    def EnumerateInstanceNames(self, *a, **kw):
        self._log("EnumerateInstanceNames")
        return super().EnumerateInstanceNames(*a, **kw)


_TEMPLATES = {}


def _new_conn(interops, with_ns_class=True, provider=True, extra_mof="",
              other_ns=(RES_NS,)):
    """Template server.  interops: concrete names of the Interop namespaces
    (the first one through the mock's API, further ones at repository level:
    the mock itself refuses a second one)."""
    conn = ShimConn(default_namespace=RES_NS)
    for i, name in enumerate(interops):
        if i == 0:
            conn.add_namespace(name)
        else:
            conn.cimrepository.add_namespace(name)
    mof = mockrepo.QUALIFIERS + MOF + extra_mof
    for ns in list(interops):
        conn.compile_mof_string(
            mof + (MOF_CIM_NAMESPACE if with_ns_class else ""), namespace=ns)
    for ns in other_ns:
        if ns.lower() not in [n.lower() for n in conn.namespaces]:
            conn.add_namespace(ns)
        conn.compile_mof_string(mockrepo.QUALIFIERS + MOF, namespace=ns)
    if interops and with_ns_class and provider:
        conn.install_namespace_provider(interops[0])
    return conn


def template(key, builder):
    if key not in _TEMPLATES:
        _TEMPLATES[key] = builder()
    return copy.deepcopy(_TEMPLATES[key])


# ----------------------------------------------------------------------------
# central instances: worlds and queries
# ----------------------------------------------------------------------------

def profile_path(p, ns):
    return CIMInstanceName("CIM_RegisteredProfile",
                           keybindings={"InstanceID": p}, namespace=ns)


def res_path(r, ns):
    return CIMInstanceName(RESOURCES[r], keybindings={"Id": r}, namespace=ns)


def _central_template(res_ns):
    def build():
        conn = _new_conn(["interop"])
        for i, p in enumerate(PROFILES):
            conn.CreateInstance(CIMInstance(
                "CIM_RegisteredProfile",
                properties=dict(InstanceID=p, RegisteredOrganization=Uint16(2),
                                RegisteredName="Prof%d" % i,
                                RegisteredVersion="1.0.0")),
                namespace="interop")
        for r, cls in RESOURCES.items():
            conn.CreateInstance(CIMInstance(cls, properties=dict(Id=r)),
                                namespace=res_ns)
        prov = GciProvider(conn.cimrepository)
        conn.register_provider(prov, namespaces="interop")
        conn.x06_gci = prov
        return conn
    return build


def vary_case(rng, s):
    x = rng.random()
    if x < 0.6:
        return s
    if x < 0.8:
        return s.lower()
    return s.upper()


class CentralWorld:
    """One abstract world built in the mock + the queries run against it."""

    def __init__(self, rng, world):
        self.rng = rng
        self.world = world
        self.res_ns = rng.choice(["interop", RES_NS])
        self.conn = template(("central", self.res_ns),
                             _central_template(self.res_ns))
        self.conn.x06_cm = dict(world["cm"])
        self.events = [dict(op="world", w=world)]
        self.info = ["world %s (resources in %s)" % (world, self.res_ns)]
        conn = self.conn
        I = "interop"
        edges = [("ectp", e) for e in world["ectp"]] + \
                [("rp", e) for e in world["rp"]] + \
                [("a1", e) for e in world["a1"]] + \
                [("a2", e) for e in world["a2"]]
        rng.shuffle(edges)
        for kind, (x, y) in edges:
            if kind == "ectp":
                inst = CIMInstance("CIM_ElementConformsToProfile", properties={
                    "ConformantStandard": profile_path(x, I),
                    "ManagedElement": res_path(y, self.res_ns)})
                conn.CreateInstance(inst, namespace=I)
            elif kind == "rp":
                inst = CIMInstance("CIM_ReferencedProfile", properties={
                    "Antecedent": profile_path(x, I),
                    "Dependent": profile_path(y, I)})
                conn.CreateInstance(inst, namespace=I)
            else:
                inst = CIMInstance(CLASS_TOKEN[kind.upper()], properties={
                    "Left": res_path(x, self.res_ns),
                    "Right": res_path(y, self.res_ns)})
                conn.CreateInstance(inst, namespace=self.res_ns)
        self.server = pywbem.WBEMServer(conn)

    # -- concretisation of one query ------------------------------------------
    def concretize(self, q):
        rng = self.rng
        kw = {}
        if q["ptype"] == "path":
            pp = profile_path(q["p"], vary_case(rng, "interop"))
            if rng.random() < 0.3:
                pp.classname = vary_case(rng, pp.classname)
        else:
            pp = rng.choice(["//host/interop:CIM_RegisteredProfile."
                             "InstanceID=\"%s\"" % q["p"], None, 42,
                             CIMInstance("CIM_RegisteredProfile")])
        if q["cc"] or rng.random() < 0.5:
            kw["central_class"] = vary_case(rng, CLASS_TOKEN[q["cc"]]) \
                if q["cc"] else None
        if q["sc"] or rng.random() < 0.5:
            kw["scoping_class"] = vary_case(rng, CLASS_TOKEN[q["sc"]]) \
                if q["sc"] else None
        if q["sp"]["given"]:
            path = [vary_case(rng, CLASS_TOKEN[t]) for t in q["sp"]["path"]]
            kw["scoping_path"] = path if rng.random() < 0.8 else tuple(path)
        elif rng.random() < 0.5:
            kw["scoping_path"] = None
        if q["dir"] in ("dmtf", "snia"):
            if q["dir"] != "dmtf" or rng.random() < 0.5:
                kw["reference_direction"] = q["dir"]
        else:
            kw["reference_direction"] = rng.choice(
                ["DMTF", "Snia", "", "other", None, "dependent"])
        prov = self.conn.x06_gci
        if q["gci"] == "off":
            if rng.random() < 0.5:
                kw["try_gci_method"] = False
            prov.mode = rng.choice(["ok", "rcfail", "err"])   # must not be asked
            prov.paths = [res_path("r6", self.res_ns)]
        else:
            kw["try_gci_method"] = True
            prov.mode = q["gci"]
            prov.notimpl_code = rng.choice([
                pywbem.CIM_ERR_METHOD_NOT_FOUND,
                pywbem.CIM_ERR_METHOD_NOT_AVAILABLE,
                pywbem.CIM_ERR_NOT_SUPPORTED])
            prov.paths = [res_path(r, self.res_ns) for r in q["gl"]]
        return pp, kw

    def project_paths(self, paths):
        out = []
        if not isinstance(paths, (list, tuple)):
            return ["UNCLASSIFIED:%s" % type(paths).__name__]
        for p in paths:
            ok = isinstance(p, CIMInstanceName) and \
                list(p.keybindings.keys()) == ["Id"] and \
                p.keybindings["Id"] in RESOURCES and \
                p.classname.lower() == RESOURCES[p.keybindings["Id"]].lower() \
                and (p.namespace or "").lower() == self.res_ns.lower()
            out.append(p.keybindings["Id"] if ok else
                       "UNCLASSIFIED:%r" % (p,))
        return out

    def run_query(self, q):
        pp, kw = self.concretize(q)
        what = "get_central_instances(%r, %s)  [gci provider: %s]" % (
            pp, ", ".join("%s=%r" % kv for kv in sorted(kw.items())),
            self.conn.x06_gci.mode)
        res = call_projected(
            lambda: self.server.get_central_instances(pp, **kw),
            self.project_paths)
        self.events.append(dict(op="gci", q=q, res=res))
        self.info.append(what)


def call_projected(fn, project):
    """Run fn; project the result or the exception to {k, code, L}."""
    try:
        with warnings.catch_warnings():
            warnings.simplefilter("ignore")
            r = fn()
    except CIMError as exc:
        return dict(k="CIMError", code=int(exc.status_code), L=[])
    except Exception as exc:  # noqa: every exception class is an observation
        return dict(k=type(exc).__name__, code=0, L=[])
    return dict(k="ok", code=0, L=project(r))


def random_world(rng, max_edges=7, res=("r1", "r2", "r3", "r4", "r5", "r6")):
    """Seeded random world, biased towards scoping scenarios."""
    res = list(res)
    w = dict(ectp=[], rp=[], a1=[], a2=[],
             cm={p: rng.choice(["impl", "impl", "unsup", "unsup", "err"])
                 for p in PROFILES})
    if rng.random() < 0.7:
        w["cm"]["p1"] = "unsup"
        w["cm"][rng.choice(["p2", "p3"])] = "impl"
    n = rng.randint(0, max_edges)
    for _ in range(n):
        k = rng.choice(["ectp", "ectp", "rp", "a1", "a1", "a2"])
        if k == "ectp":
            e = [rng.choice(PROFILES), rng.choice(res)]
        elif k == "rp":
            e = rng.sample(PROFILES, 2)
            if rng.random() < 0.6:
                e = rng.choice([["p1", "p2"], ["p2", "p1"], ["p1", "p3"]])
        else:
            e = rng.sample(res, 2)
        if e not in w[k]:
            w[k].append(e)
    return w


def world_from_tlc(v):
    """World printed by TLC (parse_tla_value + unset) -> JSON world."""
    return dict(ectp=[list(e) for e in v["ectp"]],
                rp=[list(e) for e in v["rp"]],
                a1=[list(e) for e in v["a1"]],
                a2=[list(e) for e in v["a2"]],
                cm=dict(v["cm"]))


def query_from_tlc(v):
    return dict(p=v["p"], cc=v["cc"], sc=v["sc"],
                sp=dict(given=bool(v["sp"]["given"]),
                        path=list(v["sp"]["path"])),
                dir=v["dir"], gci=v["gci"], gl=list(v["gl"]),
                ptype=v["ptype"])
