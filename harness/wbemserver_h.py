"""
X06 helper: concrete WBEM servers (pywbem_mock) for the WBEMServer
specification, concretisation of abstract worlds / calls and projection of
results.  Python only builds, drives and projects; TLC judges.

Server = pywbem_mock.FakedWBEMConnection with
  * a small schema of our own carrying the DMTF names the client code asks for
    (CIM_Namespace, CIM_ObjectManager, CIM_RegisteredProfile,
    CIM_ElementConformsToProfile, CIM_ReferencedProfile) plus resource classes
    TST_S, TST_M, TST_C, TST_C2 : TST_C and associations TST_A1, TST_A2,
  * pywbem_mock's CIM_Namespace provider (where the world has one),
  * a method provider for CIM_RegisteredProfile.GetCentralInstances and a
    thin subclass that lets the *server* refuse the traversal of
    CIM_ElementConformsToProfile (CIM_ERR_NOT_SUPPORTED = central class
    methodology not implemented, the only way a server can say so).
"""
import copy
import warnings

import pywbem
import pywbem_mock
from pywbem import (CIMInstance, CIMInstanceName, CIMProperty, CIMError,
                    Uint16, Uint32)

import mockrepo

MOF = """
class CIM_ManagedElement {
  string Caption; string Description; string ElementName;
};
class CIM_ObjectManager : CIM_ManagedElement {
  [Key] string SystemCreationClassName; [Key] string SystemName;
  [Key] string CreationClassName; [Key] string Name;
  string Version;
};
class CIM_RegisteredProfile : CIM_ManagedElement {
  [Key] string InstanceID;
  [ValueMap {"1","2","11","19"},
   Values {"Other","DMTF","SNIA","The Open Group"}]
  uint16 RegisteredOrganization;
  string RegisteredName;
  string RegisteredVersion;
  uint32 GetCentralInstances(
      [IN(false), OUT] CIM_ManagedElement REF CentralInstances[]);
};
[Association] class CIM_ElementConformsToProfile {
  [Key] CIM_RegisteredProfile REF ConformantStandard;
  [Key] CIM_ManagedElement REF ManagedElement;
};
[Association] class CIM_ReferencedProfile {
  [Key] CIM_RegisteredProfile REF Antecedent;
  [Key] CIM_RegisteredProfile REF Dependent;
};
class TST_S : CIM_ManagedElement { [Key] string Id; };
class TST_M : CIM_ManagedElement { [Key] string Id; };
class TST_C : CIM_ManagedElement { [Key] string Id; };
class TST_C2 : TST_C { };
[Association] class TST_A1 {
  [Key] CIM_ManagedElement REF Left; [Key] CIM_ManagedElement REF Right; };
[Association] class TST_A2 {
  [Key] CIM_ManagedElement REF Left; [Key] CIM_ManagedElement REF Right; };
"""
NS_KEYS = """
  [Key] string SystemCreationClassName; [Key] string SystemName;
  [Key] string ObjectManagerCreationClassName; [Key] string ObjectManagerName;
  [Key] string CreationClassName; [Key] string Name;
"""
MOF_CIM_NAMESPACE = "class CIM_Namespace : CIM_ManagedElement {%s};\n" % NS_KEYS
MOF_WBEMSERVER_NAMESPACE = \
    "class CIM_WBEMServerNamespace : CIM_ManagedElement { [Key] string Name; };\n"
MOF_UU_NAMESPACE = "class __Namespace { [Key] string Name; };\n"

RES_NS = "root/v1"
RESOURCES = {"r1": "TST_S", "r2": "TST_M", "r3": "TST_C", "r4": "TST_C2",
             "r5": "TST_S", "r6": "TST_C"}
CLASS_TOKEN = {"S": "TST_S", "M": "TST_M", "C": "TST_C", "C2": "TST_C2",
               "A1": "TST_A1", "A2": "TST_A2"}
PROFILES = ("p1", "p2", "p3")
ERR_CODE = pywbem.CIM_ERR_ACCESS_DENIED


class GciProvider(pywbem_mock.MethodProvider):
    """CIM_RegisteredProfile.GetCentralInstances as the world prescribes."""
    provider_classnames = "CIM_RegisteredProfile"

    def __init__(self, cimrepository):
        super().__init__(cimrepository)
        self.mode = "notimpl"
        self.paths = []
        self.notimpl_code = pywbem.CIM_ERR_METHOD_NOT_FOUND
        self.calls = 0

    def InvokeMethod(self, methodname, localobject, params):
        self.calls += 1
        if methodname.lower() != "getcentralinstances" or \
                self.mode == "notimpl":
            raise CIMError(self.notimpl_code, "not implemented")
        if self.mode == "failed":
            raise CIMError(pywbem.CIM_ERR_FAILED, "failed")
        if self.mode == "err":
            raise CIMError(ERR_CODE, "denied")
        if self.mode == "rcfail":
            return (Uint32(1), [])
        return (Uint32(0), [pywbem.CIMParameter(
            "CentralInstances", "reference", is_array=True,
            value=list(self.paths))])


class ShimConn(pywbem_mock.FakedWBEMConnection):
    """The server may refuse the ECTP traversal per profile."""
    x06_cm = None          # InstanceID -> "impl" | "unsup" | "err"
    x06_ops = None         # log of operations issued by the client code

    def _log(self, op):
        if self.x06_ops is not None:
            self.x06_ops.append(op)

    def AssociatorNames(self, ObjectName, AssocClass=None, **kw):
        self._log("AssociatorNames")
        if self.x06_cm and AssocClass is not None and \
                AssocClass.lower() == "cim_elementconformstoprofile" and \
                isinstance(ObjectName, CIMInstanceName):
            mode = self.x06_cm.get(ObjectName.keybindings.get("InstanceID"))
            if mode == "unsup":
                raise CIMError(pywbem.CIM_ERR_NOT_SUPPORTED,
                               "association traversal not supported")
            if mode == "err":
                raise CIMError(ERR_CODE, "denied")
        return super().AssociatorNames(ObjectName, AssocClass=AssocClass, **kw)

    def EnumerateInstances(self, *a, **kw):
        self._log("EnumerateInstances")
        return super().EnumerateInstances(*a, **kw)

    def EnumerateInstanceNames(self, *a, **kw):
        self._log("EnumerateInstanceNames")
        return super().EnumerateInstanceNames(*a, **kw)


_TEMPLATES = {}
_MASTER = None


def master():
    """(qualifier declarations, classes in superclass-first order) compiled
    once; servers are populated with add_cimobjects (a MOF compiler object
    costs ~0.2 s, far too much per world)."""
    global _MASTER
    if _MASTER is None:
        m = pywbem_mock.FakedWBEMConnection(default_namespace="m")
        m.compile_mof_string(
            mockrepo.QUALIFIERS + MOF + MOF_CIM_NAMESPACE +
            MOF_WBEMSERVER_NAMESPACE + MOF_UU_NAMESPACE, namespace="m")
        quals = m.EnumerateQualifiers(namespace="m")
        classes = []

        def rec(cn):
            for c in m.EnumerateClasses(namespace="m", ClassName=cn,
                                        LocalOnly=True, IncludeQualifiers=True,
                                        IncludeClassOrigin=False):
                classes.append(c)
                rec(c.classname)
        rec(None)
        _MASTER = (m, quals, classes)
    return _MASTER


NS_CLASSNAMES = {"CIM": "CIM_Namespace", "WSN": "CIM_WBEMServerNamespace",
                 "UU": "__Namespace"}


def populate(conn, ns, nscls=("CIM",), only_qualifiers=False):
    """Put the schema into namespace ns of conn (no MOF compiler)."""
    m, quals, classes = master()
    skip = set(v for k, v in NS_CLASSNAMES.items() if k not in nscls)
    objs = list(quals)
    if not only_qualifiers:
        objs += [c for c in classes if c.classname not in skip]
    conn.add_cimobjects(copy.deepcopy(objs), namespace=ns)
    if not only_qualifiers:
        # machinery self-check: the copy is the compiled schema
        for cn in ("CIM_RegisteredProfile", "TST_C2", "CIM_ReferencedProfile"):
            a = m.GetClass(cn, namespace="m", LocalOnly=False,
                           IncludeQualifiers=True)
            b = conn.GetClass(cn, namespace=ns, LocalOnly=False,
                              IncludeQualifiers=True)
            if a.tomof() != b.tomof():
                raise RuntimeError("schema copy differs for %s" % cn)


def _new_conn(interops, with_ns_class=True, provider=True,
              other_ns=(RES_NS,)):
    """Template server.  interops: concrete names of the Interop namespaces
    (the first one through the mock's API, further ones at repository level:
    the mock itself refuses a second one)."""
    conn = ShimConn(default_namespace=RES_NS)
    for i, name in enumerate(interops):
        if i == 0:
            conn.add_namespace(name)
        else:
            conn.cimrepository.add_namespace(name)
    for ns in list(interops):
        populate(conn, ns, ("CIM",) if with_ns_class else ())
    for ns in other_ns:
        if ns.lower() not in [n.lower() for n in conn.namespaces]:
            conn.add_namespace(ns)
        populate(conn, ns, ())
    if interops and with_ns_class and provider:
        conn.install_namespace_provider(interops[0])
    return conn


def template(key, builder):
    if key not in _TEMPLATES:
        _TEMPLATES[key] = builder()
    return copy.deepcopy(_TEMPLATES[key])


# ----------------------------------------------------------------------------
# central instances: worlds and queries
# ----------------------------------------------------------------------------

def profile_path(p, ns):
    return CIMInstanceName("CIM_RegisteredProfile",
                           keybindings={"InstanceID": p}, namespace=ns)


def res_path(r, ns):
    return CIMInstanceName(RESOURCES[r], keybindings={"Id": r}, namespace=ns)


def _central_template(res_ns):
    def build():
        conn = _new_conn(["interop"])
        for i, p in enumerate(PROFILES):
            conn.CreateInstance(CIMInstance(
                "CIM_RegisteredProfile",
                properties=dict(InstanceID=p, RegisteredOrganization=Uint16(2),
                                RegisteredName="Prof%d" % i,
                                RegisteredVersion="1.0.0")),
                namespace="interop")
        for r, cls in RESOURCES.items():
            conn.CreateInstance(CIMInstance(cls, properties=dict(Id=r)),
                                namespace=res_ns)
        prov = GciProvider(conn.cimrepository)
        conn.register_provider(prov, namespaces="interop")
        conn.x06_gci = prov
        return conn
    return build


def vary_case(rng, s):
    x = rng.random()
    if x < 0.6:
        return s
    if x < 0.8:
        return s.lower()
    return s.upper()


class CentralWorld:
    """One abstract world built in the mock + the queries run against it."""

    def __init__(self, rng, world):
        self.rng = rng
        self.world = world
        self.res_ns = rng.choice(["interop", RES_NS])
        self.conn = template(("central", self.res_ns),
                             _central_template(self.res_ns))
        self.conn.x06_cm = dict(world["cm"])
        self.events = [dict(op="world", w=world)]
        self.info = ["world %s (resources in %s)" % (world, self.res_ns)]
        conn = self.conn
        I = "interop"
        edges = [("ectp", e) for e in world["ectp"]] + \
                [("rp", e) for e in world["rp"]] + \
                [("a1", e) for e in world["a1"]] + \
                [("a2", e) for e in world["a2"]]
        rng.shuffle(edges)
        for kind, (x, y) in edges:
            if kind == "ectp":
                inst = CIMInstance("CIM_ElementConformsToProfile", properties={
                    "ConformantStandard": profile_path(x, I),
                    "ManagedElement": res_path(y, self.res_ns)})
                conn.CreateInstance(inst, namespace=I)
            elif kind == "rp":
                inst = CIMInstance("CIM_ReferencedProfile", properties={
                    "Antecedent": profile_path(x, I),
                    "Dependent": profile_path(y, I)})
                conn.CreateInstance(inst, namespace=I)
            else:
                inst = CIMInstance(CLASS_TOKEN[kind.upper()], properties={
                    "Left": res_path(x, self.res_ns),
                    "Right": res_path(y, self.res_ns)})
                conn.CreateInstance(inst, namespace=self.res_ns)
        self.server = pywbem.WBEMServer(conn)

    # -- concretisation of one query ------------------------------------------
    def concretize(self, q):
        rng = self.rng
        kw = {}
        if q["ptype"] == "path":
            pp = profile_path(q["p"], vary_case(rng, "interop"))
            if rng.random() < 0.3:
                pp.classname = vary_case(rng, pp.classname)
        else:
            pp = rng.choice(["//host/interop:CIM_RegisteredProfile."
                             "InstanceID=\"%s\"" % q["p"], None, 42,
                             CIMInstance("CIM_RegisteredProfile")])
        if q["cc"] or rng.random() < 0.5:
            kw["central_class"] = vary_case(rng, CLASS_TOKEN[q["cc"]]) \
                if q["cc"] else None
        if q["sc"] or rng.random() < 0.5:
            kw["scoping_class"] = vary_case(rng, CLASS_TOKEN[q["sc"]]) \
                if q["sc"] else None
        if q["sp"]["given"]:
            path = [vary_case(rng, CLASS_TOKEN[t]) for t in q["sp"]["path"]]
            kw["scoping_path"] = path if rng.random() < 0.8 else tuple(path)
        elif rng.random() < 0.5:
            kw["scoping_path"] = None
        if q["dir"] in ("dmtf", "snia"):
            if q["dir"] != "dmtf" or rng.random() < 0.5:
                kw["reference_direction"] = q["dir"]
        else:
            kw["reference_direction"] = rng.choice(
                ["DMTF", "Snia", "", "other", None, "dependent"])
        prov = self.conn.x06_gci
        if q["gci"] == "off":
            if rng.random() < 0.5:
                kw["try_gci_method"] = False
            prov.mode = rng.choice(["ok", "rcfail", "err"])   # must not be asked
            prov.paths = [res_path("r6", self.res_ns)]
        else:
            kw["try_gci_method"] = True
            prov.mode = q["gci"]
            prov.notimpl_code = rng.choice([
                pywbem.CIM_ERR_METHOD_NOT_FOUND,
                pywbem.CIM_ERR_METHOD_NOT_AVAILABLE,
                pywbem.CIM_ERR_NOT_SUPPORTED])
            prov.paths = [res_path(r, self.res_ns) for r in q["gl"]]
        return pp, kw

    def project_paths(self, paths):
        out = []
        if not isinstance(paths, (list, tuple)):
            return ["UNCLASSIFIED:%s" % type(paths).__name__]
        for p in paths:
            ok = isinstance(p, CIMInstanceName) and \
                list(p.keybindings.keys()) == ["Id"] and \
                p.keybindings["Id"] in RESOURCES and \
                p.classname.lower() == RESOURCES[p.keybindings["Id"]].lower() \
                and (p.namespace or "").lower() == self.res_ns.lower()
            out.append(p.keybindings["Id"] if ok else
                       "UNCLASSIFIED:%r" % (p,))
        return out

    def run_query(self, q):
        pp, kw = self.concretize(q)
        what = "get_central_instances(%r, %s)  [gci provider: %s]" % (
            pp, ", ".join("%s=%r" % kv for kv in sorted(kw.items())),
            self.conn.x06_gci.mode)
        res = call_projected(
            lambda: self.server.get_central_instances(pp, **kw),
            self.project_paths)
        self.events.append(dict(op="gci", q=q, res=res))
        self.info.append(what)


def call_projected(fn, project):
    """Run fn; project the result or the exception to {k, code, L}."""
    try:
        with warnings.catch_warnings():
            warnings.simplefilter("ignore")
            r = fn()
    except CIMError as exc:
        return dict(k="CIMError", code=int(exc.status_code), L=[])
    except Exception as exc:  # noqa: every exception class is an observation
        return dict(k=type(exc).__name__, code=0, L=[])
    return dict(k="ok", code=0, L=project(r))


def random_world(rng, max_edges=7, res=("r1", "r2", "r3", "r4", "r5", "r6")):
    """Seeded random world, biased towards scoping scenarios."""
    res = list(res)
    w = dict(ectp=[], rp=[], a1=[], a2=[],
             cm={p: rng.choice(["impl", "impl", "unsup", "unsup", "err"])
                 for p in PROFILES})
    if rng.random() < 0.7:
        w["cm"]["p1"] = "unsup"
        w["cm"][rng.choice(["p2", "p3"])] = "impl"
    n = rng.randint(0, max_edges)
    for _ in range(n):
        k = rng.choice(["ectp", "ectp", "rp", "a1", "a1", "a2"])
        if k == "ectp":
            e = [rng.choice(PROFILES), rng.choice(res)]
        elif k == "rp":
            e = rng.sample(PROFILES, 2)
            if rng.random() < 0.6:
                e = rng.choice([["p1", "p2"], ["p2", "p1"], ["p1", "p3"]])
        else:
            e = rng.sample(res, 2)
        if e not in w[k]:
            w[k].append(e)
    return w


def scoping_world(rng):
    """Seeded world around a complete scoping scenario (p1 component of a
    scoping profile, 1-hop and 2-hop chains) plus noise."""
    q = rng.choice(["p2", "p3"])
    w = dict(ectp=[], rp=[], a1=[], a2=[],
             cm={"p1": "unsup", "p2": "impl", "p3": "impl"})
    w["rp"].append(rng.choice([["p1", q], [q, "p1"]]))
    if rng.random() < 0.15:        # a second referencing profile: ambiguous
        other = "p3" if q == "p2" else "p2"
        w["rp"].append(["p1", other] if w["rp"][0][0] == "p1"
                       else [other, "p1"])
        w["ectp"].append([other, rng.choice(["r1", "r5"])])
    scoping = rng.sample(["r1", "r5", "r2"], rng.randint(1, 2))
    for r in scoping:
        w["ectp"].append([q, r])

    def edge(k, x, y):
        e = [x, y] if rng.random() < 0.5 else [y, x]
        if x != y and e not in w[k]:
            w[k].append(e)
    for s_ in scoping:
        if rng.random() < 0.7:                      # 2-hop: s -A2- m -A1- c
            edge("a2", s_, "r2")
            for c in rng.sample(["r3", "r4", "r6", "r1"], rng.randint(1, 2)):
                edge("a1", "r2", c)
        if rng.random() < 0.6:                      # 1-hop: s -A1- c
            edge("a1", s_, rng.choice(["r3", "r4", "r6", "r2"]))
    for _ in range(rng.randint(0, 3)):              # noise
        k = rng.choice(["a1", "a2", "ectp", "rp"])
        if k == "ectp":
            e = [rng.choice(PROFILES), rng.choice(list(RESOURCES))]
            if e not in w[k]:
                w[k].append(e)
        elif k == "rp":
            e = rng.sample(PROFILES, 2)
            if e not in w[k]:
                w[k].append(e)
        else:
            x, y = rng.sample(list(RESOURCES), 2)
            edge(k, x, y)
    return w


def world_from_tlc(v):
    """World printed by TLC (parse_tla_value + unset) -> JSON world."""
    return dict(ectp=[list(e) for e in v["ectp"]],
                rp=[list(e) for e in v["rp"]],
                a1=[list(e) for e in v["a1"]],
                a2=[list(e) for e in v["a2"]],
                cm=dict(v["cm"]))


def query_from_tlc(v):
    return dict(p=v["p"], cc=v["cc"], sc=v["sc"],
                sp=dict(given=bool(v["sp"]["given"]),
                        path=list(v["sp"]["path"])),
                dir=v["dir"], gci=v["gci"], gl=list(v["gl"]),
                ptype=v["ptype"])


# ----------------------------------------------------------------------------
# the WBEMServer object: worlds (servers) and calls
# ----------------------------------------------------------------------------

SPELL_A = {"i1": "interop", "i2": "root/interop", "i3": "root/PG_Interop",
           "n1": "root/n1", "n2": "root/sub/n2", "n3": "n3"}
SPELL_B = {"i1": ["Interop", "INTEROP"], "i2": ["Root/Interop", "ROOT/INTEROP"],
           "i3": ["root/pg_interop", "ROOT/PG_INTEROP"],
           "n1": ["ROOT/N1", "Root/N1"], "n2": ["Root/Sub/N2", "ROOT/sub/n2"],
           "n3": ["N3"]}
NSCLASS = {"CIM": "CIM_Namespace", "WSN": "CIM_WBEMServerNamespace",
           "UU": "__Namespace"}
NSCLASS_MOF = {"CIM": MOF_CIM_NAMESPACE, "WSN": MOF_WBEMSERVER_NAMESPACE,
               "UU": MOF_UU_NAMESPACE}
from pywbem_mock.config import (OBJECTMANAGERNAME, SYSTEMNAME,  # noqa: E402
                                SYSTEMCREATIONCLASSNAME,
                                OBJECTMANAGERCREATIONCLASSNAME)
# the keys the mock's namespace provider uses for the instances it creates
OM_KEYS = dict(SystemCreationClassName=SYSTEMCREATIONCLASSNAME,
               SystemName=SYSTEMNAME,
               CreationClassName=OBJECTMANAGERCREATIONCLASSNAME)
EN_TEXT = {"pegasus": ["Pegasus", "OpenPegasus"], "sfcb": ["sfcb", "SFCB"],
           "jwbem": ["WBEM Solutions J WBEM Server", "WS J WBEM Server"],
           "emc": ["EMC CIM Server"],
           "fujitsu": ["CIM Object Manager for FUJITSU storage system"],
           "other": ["Mock_Test", "ACME CIMOM"], "empty": [""]}
DESC_PREFIX = {"pegasus": "Pegasus CIM Server", "sfcb": "Small Footprint CIM Broker",
               "jwbem": "WS J WBEM Server", "emc": "EMC CIM Server",
               "fujitsu": "CIM Object Manager for FUJITSU storage system"}
BRAND_TOKEN = {"OpenPegasus": "OpenPegasus", "SFCB": "SFCB",
               "WBEM Solutions J WBEM Server": "JWBEM", "EMC CIM Server": "EMC",
               "FUJITSU CIM Object Manager": "FUJITSU"}
ORG_VALUE = {"dmtf": 2, "snia": 11, "other": 1, "unmapped": 7}
ORG_FILTER = {"dmtf": ["DMTF", "dmtf", "Dmtf"], "snia": ["SNIA", "snia"],
              "other": ["Other", "OTHER"], "nomatch": ["ACME"]}
NAME_VALUE = {"na": "Alpha Profile", "nb": "Beta"}
NAME_FILTER = {"na": ["Alpha Profile", "alpha profile", "ALPHA PROFILE"],
               "nb": ["Beta", "BETA"], "nomatch": ["Gamma"]}
VER_VALUE = {"v1": "1.0.0", "v2": "1.4.0a"}
VER_FILTER = {"v1": ["1.0.0"], "v2": ["1.4.0a", "1.4.0A"], "nomatch": ["9.9"]}


def _server_template(interop_names, nscls, provider):
    def build():
        conn = ShimConn(default_namespace=interop_names[0] if interop_names
                        else "root/other")
        for i, name in enumerate(interop_names):
            if i > 0:
                conn.cimrepository.add_namespace(name)
            populate(conn, name, tuple(nscls))
        if provider:
            conn.install_namespace_provider(interop_names[0])
        return conn
    return build


class ServerWorld:
    """A pywbem_mock server built from an abstract world and one WBEMServer
    object at a time; every call is recorded as one event."""

    def __init__(self, rng, world):
        self.rng = rng
        self.world = world
        self.spell = {(i, "a"): s for i, s in SPELL_A.items()}
        for i, alts in SPELL_B.items():
            self.spell[(i, "b")] = rng.choice(alts)
        self.unspell = {v: k for k, v in self.spell.items()}
        # "s": a server that lists names with leading and trailing slash
        for i, a in SPELL_A.items():
            self.spell[(i, "s")] = "/%s/" % a
        inames = [self.spell[(x["id"], x["cs"])] for x in world["interops"]]
        prov = world["nskind"] == "prov"
        self.conn = conn = template(
            ("srv", tuple(inames), tuple(world["nscls"]), prov),
            _server_template(inames, world["nscls"], prov))
        self.interop = inames[0] if inames else None
        self.events = [dict(op="world", w=world)]
        self.info = ["world %s" % (world,)]
        # ordinary namespaces
        for x in world["ns"]:
            name = self.spell[(x["id"], x["cs"])]
            if prov:
                conn.CreateInstance(self._ns_instance("CIM_Namespace", name),
                                    namespace=self.interop)
            else:
                conn._mainprovider.add_namespace(name)
            if x["full"]:
                populate(conn, name, (), only_qualifiers=True)
        # static listings (same names in every listing class)
        if world["nskind"] == "static":
            for c in world["nscls"]:
                for x in world["listed"]:
                    name = self.spell[(x["id"], x["cs"])]
                    for ins in inames:
                        conn.CreateInstance(
                            self._ns_instance(NSCLASS[c], name), namespace=ins)
                        if c == "CIM" and world.get("dup"):
                            # same Name, other keys differ: a duplicate name
                            d = self._ns_instance(NSCLASS[c], name)
                            d["SystemName"] = "othersystem"
                            conn.CreateInstance(d, namespace=ins)
        # object managers
        for n, om in enumerate(world["om"]):
            inst = self._om_instance(n, om)
            for ins in inames:
                conn.CreateInstance(inst.copy(), namespace=ins)
        # profiles
        for p in world["profs"]:
            for ins in inames:
                conn.CreateInstance(self._profile_instance(p), namespace=ins)
        self.server = pywbem.WBEMServer(conn)

    # -- instances ---------------------------------------------------------
    def _ns_instance(self, cls, name):
        if cls == "CIM_Namespace":
            props = dict(SystemCreationClassName=SYSTEMCREATIONCLASSNAME,
                         SystemName=SYSTEMNAME,
                         ObjectManagerCreationClassName=
                         OBJECTMANAGERCREATIONCLASSNAME,
                         ObjectManagerName=OBJECTMANAGERNAME,
                         CreationClassName=cls, Name=name)
        else:
            props = dict(Name=name)
        return CIMInstance(cls, properties=props)

    def _om_instance(self, n, om):
        rng = self.rng
        props = [CIMProperty(k, v) for k, v in OM_KEYS.items()]
        props.append(CIMProperty("Name", OBJECTMANAGERNAME if n == 0
                                 else "om%d" % n))
        self.om_text = getattr(self, "om_text", {})
        if om["en"] != "unset":
            en = rng.choice(EN_TEXT[om["en"]])
            props.append(CIMProperty("ElementName", en))
            self.om_text[n] = en
        elif len(self.world["om"]) == 1 and rng.random() < 0.5:
            props.append(CIMProperty("ElementName", None, type="string"))
        prefix = DESC_PREFIX.get(om["en"], "Some CIM Server")
        word = rng.choice(["Version", "version", "VERSION"])
        relword = rng.choice(["release", "Release"])
        text = {"ver": "%s %s 2.15.0" % (prefix, word),
                "verrel": "%s %s 2.15.0 Released" % (prefix, word),
                "rel": "%s %s 2.15.0" % (prefix, relword),
                "num": "%s 2.15.0" % prefix,
                "text": prefix}.get(om["desc"])
        if text is not None:
            props.append(CIMProperty("Description", text))
        elif rng.random() < 0.5:
            props.append(CIMProperty("Description", None, type="string"))
        if om["ver"] == "set":
            props.append(CIMProperty("Version", "4.5.1"))
        return CIMInstance("CIM_ObjectManager", properties=props)

    def _profile_instance(self, p):
        props = [CIMProperty("InstanceID", p["id"])]
        if p["org"] == "null":
            props.append(CIMProperty("RegisteredOrganization", None,
                                     type="uint16"))
        else:
            props.append(CIMProperty("RegisteredOrganization",
                                     Uint16(ORG_VALUE[p["org"]])))
        if p["name"] == "null":
            props.append(CIMProperty("RegisteredName", None, type="string"))
        elif p["name"] != "absent":
            props.append(CIMProperty("RegisteredName", NAME_VALUE[p["name"]]))
        if p["ver"] == "null":
            props.append(CIMProperty("RegisteredVersion", None, type="string"))
        else:
            props.append(CIMProperty("RegisteredVersion", VER_VALUE[p["ver"]]))
        return CIMInstance("CIM_RegisteredProfile", properties=props)

    # -- projection --------------------------------------------------------
    def nm(self, s):
        if not isinstance(s, str):
            return dict(id="UNCLASSIFIED:%r" % (s,), cs="?", sl=False)
        bare = s.strip("/")
        sl = bare != s
        if bare in self.unspell:
            i, cs = self.unspell[bare]
            return dict(id=i, cs=cs, sl=sl)
        for (i, cs), v in self.spell.items():
            if v.lower() == bare.lower():
                return dict(id=i, cs="?", sl=sl)
        if bare.lower() == "root/other":
            return dict(id="other", cs="a", sl=sl)
        return dict(id="UNCLASSIFIED:%s" % s, cs="?", sl=sl)

    def nm2(self, s):
        d = self.nm(s)
        if d["sl"]:           # a name with slashes is not the name
            return dict(id=d["id"],
                        cs="s" if self.spell.get((d["id"], "s")) == s else "?")
        return dict(id=d["id"], cs=d["cs"])

    def observe(self, fn, project, empty):
        """-> (dict k, code, **projected)"""
        try:
            with warnings.catch_warnings():
                warnings.simplefilter("ignore")
                r = fn()
        except CIMError as exc:
            return dict(k="CIMError", code=int(exc.status_code), **empty)
        except Exception as exc:  # noqa: every exception class is an observation
            return dict(k=type(exc).__name__, code=0, **empty)
        try:
            return dict(k="ok", code=0, **project(r))
        except Exception as exc:  # noqa
            return dict(k="UNCLASSIFIED:%s" % type(exc).__name__, code=0,
                        **empty)

    def srvns(self):
        out = [self.nm2(n) for n in self.conn.cimrepository.namespaces]
        return [x for x in out if x["id"] != "other"]

    def view(self):
        return self.observe(lambda: list(self.server.namespaces),
                            lambda r: dict(names=[self.nm2(n) for n in r
                                                  if self.nm2(n)["id"] != "other"]),
                            dict(names=[]))

    # -- calls -------------------------------------------------------------
    def record(self, ev, what):
        self.events.append(ev)
        self.info.append(what)

    def call(self, c):
        op = c["op"]
        s = self.server
        if op == "new":
            self.server = pywbem.WBEMServer(self.conn)
            self.record(dict(op="new"), "server = WBEMServer(conn)")
        elif op == "interop":
            def proj(r):
                d = self.nm(r)
                return dict(id=d["id"], cs="?" if d["sl"] else d["cs"])
            self.record(dict(op=op, res=self.observe(
                lambda: s.interop_ns, proj, dict(id="", cs=""))),
                "server.interop_ns")
        elif op == "namespaces":
            self.record(dict(op=op, res=self.view()), "server.namespaces")
        elif op == "classname":
            rev = {v: k for k, v in NSCLASS.items()}
            self.record(dict(op=op, res=self.observe(
                lambda: s.namespace_classname,
                lambda r: dict(cls=rev.get(r, "UNCLASSIFIED:%r" % (r,))),
                dict(cls=""))), "server.namespace_classname")
        elif op == "paths":
            rev = {v.lower(): k for k, v in NSCLASS.items()}

            def proj(r):
                names, cls = [], []
                for p in r:
                    names.append(self.nm2(p.keybindings["Name"]))
                    t = rev.get(p.classname.lower(), "UNCLASSIFIED")
                    if (p.namespace or "").lower() != \
                            (self.server.interop_ns or "").lower():
                        t = "UNCLASSIFIED:namespace"
                    if t not in cls:
                        cls.append(t)
                return dict(names=[n for n in names if n["id"] != "other"],
                            cls=cls)
            self.record(dict(op=op, res=self.observe(
                lambda: s.namespace_paths, proj, dict(names=[], cls=[]))),
                "server.namespace_paths")
        elif op in ("create", "delete"):
            a = c["n"]
            name = self.spell[(a["id"], a["cs"])]
            if a["sl"]:
                name = self.rng.choice(["/%s", "%s/", "/%s/", "//%s"]) % name
            fn = s.create_namespace if op == "create" else s.delete_namespace
            res = self.observe(lambda: fn(name),
                               lambda r: dict(ret=self.nm(r)),
                               dict(ret=dict(id="", cs="", sl=False)))
            self.record(dict(op=op, n=a, res=res, srvns=self.srvns(),
                             view=self.view()),
                        "server.%s_namespace(%r)" % (op, name))
        elif op in ("brand", "version"):
            def proj(r):
                if op == "brand":
                    if r in BRAND_TOKEN:
                        v = BRAND_TOKEN[r]
                    elif r == "unknown":
                        v = "unknown"
                    elif r and r == getattr(self, "om_text", {}).get(0):
                        v = "asis"
                    else:
                        v = "UNCLASSIFIED:%r" % (r,)
                else:
                    v = {None: "none", "2.15.0": "v", "2.15.0 Released": "vrest",
                         "d": "reltail",
                         "4.5.1": "prop"}.get(r, "UNCLASSIFIED:%r" % (r,))
                return dict(val=v)
            self.record(dict(op=op, res=self.observe(
                lambda: getattr(s, op), proj, dict(val=""))), "server.%s" % op)
        elif op == "profiles":
            self.record(dict(op=op, res=self.observe(
                lambda: s.profiles,
                lambda r: dict(ids=[i.path.keybindings["InstanceID"] if i.path
                                    else "UNCLASSIFIED" for i in r]),
                dict(ids=[]))), "server.profiles")
        elif op == "select":
            rng = self.rng
            args = {}
            for key, tok, table in (("registered_org", c["org"], ORG_FILTER),
                                    ("registered_name", c["name"], NAME_FILTER),
                                    ("registered_version", c["ver"], VER_FILTER)):
                if tok:
                    args[key] = rng.choice(table[tok])
                elif rng.random() < 0.5:
                    args[key] = None
            self.record(dict(op=op, org=c["org"], name=c["name"], ver=c["ver"],
                             res=self.observe(
                                 lambda: s.get_selected_profiles(**args),
                                 lambda r: dict(ids=[i["InstanceID"] for i in r]),
                                 dict(ids=[]))),
                        "server.get_selected_profiles(%s)" % args)
        else:
            raise ValueError(op)


def tlc_world(v):
    """World record printed by TLC -> JSON world."""
    return dict(
        interops=[dict(id=x["id"], cs=x["cs"]) for x in v["interops"]],
        nskind=v["nskind"], nscls=list(v["nscls"]),
        listed=[dict(id=x["id"], cs=x["cs"]) for x in v["listed"]],
        ns=[dict(id=x["id"], cs=x["cs"], full=bool(x["full"])) for x in v["ns"]],
        om=[dict(en=x["en"], desc=x["desc"], ver=x["ver"]) for x in v["om"]],
        profs=[dict(id=x["id"], org=x["org"], name=x["name"], ver=x["ver"])
               for x in v["profs"]])


PLAIN_OM = [dict(en="other", desc="ver", ver="unset")]


def random_server_world(rng):
    def nm(i, cs=None):
        return dict(id=i, cs=cs or rng.choice(["a", "b"]))
    kind = rng.choice(["prov", "prov", "prov", "static", "none"])
    if kind == "none":
        interops = rng.choice([[], [nm("i1")], [nm("i2")], [nm("i3")],
                               [nm("i2"), nm("i3")], [nm("i3"), nm("i1")],
                               [nm("i1"), nm("i2"), nm("i3")]])
    else:
        interops = [nm(rng.choice(["i1", "i2", "i3"]))]
    ns = []
    for i in rng.sample(["n1", "n2", "n3"], rng.randint(0, 3)):
        ns.append(dict(id=i, cs=rng.choice(["a", "b"]),
                       full=rng.random() < 0.35))
    nscls, listed = [], []
    if kind == "prov":
        nscls = ["CIM"]
    elif kind == "static":
        nscls = rng.choice([["WSN"], ["UU"], ["CIM"], ["WSN", "UU"],
                            ["UU", "CIM"], ["CIM", "WSN", "UU"]])
        listed = [nm(i, rng.choice(["a", "b", "s"]))
                  for i in rng.sample(["n1", "n2", "n3"], rng.randint(0, 3))]
        if rng.random() < 0.5:
            listed.append(dict(interops[0]))
        elif rng.random() < 0.3:
            listed.append(dict(id=interops[0]["id"], cs="s"))
        rng.shuffle(listed)
    profs = []
    for j in range(rng.randint(0, 3)):
        profs.append(dict(id="q%d" % (j + 1),
                          org=rng.choice(["dmtf", "snia", "other", "null"]),
                          name=rng.choice(["na", "nb", "null"]),
                          ver=rng.choice(["v1", "v2", "null"])))
    w = dict(interops=interops, nskind=kind, nscls=nscls, listed=listed,
             ns=ns, om=list(PLAIN_OM), profs=profs)
    if kind == "static" and rng.random() < 0.3:
        w["dup"] = True       # harness-only: duplicate names in the listing
    return w


def random_calls(rng, world, n, risky=False):
    """Seeded call sequence.  risky: include the calls that run into the
    listed defects (different-case create of an existing namespace /
    different-case delete), which end the judged part of a trace early."""
    calls = []
    mut = world["nskind"] in ("prov", "none")
    known = {x["id"]: x["cs"] for x in world["ns"]}
    known.update({x["id"]: x["cs"] for x in world["interops"]})
    for _ in range(n):
        x = rng.random()
        if x < 0.08:
            calls.append(dict(op="new"))
        elif x < 0.2:
            calls.append(dict(op="interop"))
        elif x < 0.38:
            calls.append(dict(op="namespaces"))
        elif x < 0.44:
            calls.append(dict(op="classname"))
        elif x < 0.52:
            calls.append(dict(op="paths"))
        elif x < 0.9 and mut:
            i = rng.choice(["n1", "n2", "n3", "n1", "n2", "i1", "i2"])
            cs = rng.choice(["a", "b"])
            op = rng.choice(["create", "delete"])
            if not risky and i in known:
                cs = known[i]                  # the spelling the server has
            calls.append(dict(op=op, n=dict(id=i, cs=cs,
                                            sl=rng.random() < 0.3)))
            if op == "create" and i not in known and i.startswith("n"):
                known[i] = cs
            # (a failed delete keeps the entry: spelling stays the same)
        elif x < 0.95:
            calls.append(dict(op=rng.choice(["brand", "version", "profiles"])))
        else:
            calls.append(dict(op="select",
                              org=rng.choice(["", "dmtf", "snia", "nomatch"]),
                              name=rng.choice(["", "na", "nb", "nomatch"]),
                              ver=rng.choice(["", "v1", "nomatch"])))
    return calls


def server_spellings(world, calls):
    """Rewrite create/delete arguments that name an existing namespace to the
    spelling the server has (first creation wins)."""
    known = {x["id"]: x["cs"] for x in world["ns"]}
    known.update({x["id"]: x["cs"] for x in world["interops"]})
    out = []
    for c in calls:
        if c["op"] in ("create", "delete"):
            n = dict(c["n"])
            if n["id"] in known:
                n["cs"] = known[n["id"]]
            elif c["op"] == "create" and n["id"].startswith("n"):
                known[n["id"]] = n["cs"]
            c = dict(op=c["op"], n=n)
        out.append(c)
    return out


class Unit:
    """One call of a CentralWorld as a trace of its own."""

    def __init__(self, w, i):
        self.world = w.world
        self.events = [w.events[0], w.events[i]]
        self.info = [w.info[0], w.info[i]]
