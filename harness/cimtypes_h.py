"""
C06 helper: concretise abstract inputs of the CimTypes* specifications, run
the real pywbem code, project what happened to monomorphic JSON vectors.

Nothing in here decides the property; the vectors go to TLC
(spec/CimTypesTrace.tla).
"""
import re
import struct
import math
from datetime import datetime, timedelta, timezone, tzinfo
try:
    import zoneinfo
    zoneinfo.ZoneInfo("Etc/GMT+5")
except Exception:  # noqa: no zoneinfo module / no tz database
    zoneinfo = None

import pywbem
from pywbem import (CIMDateTime, CIMProperty, CIMQualifier, CIMParameter,
                    CIMQualifierDeclaration, MinutesFromUTC, Real32, Real64,
                    cimvalue)
from pywbem._cim_types import atomic_to_cim_xml
from pywbem import _tupleparse, _tupletree

# ---------------------------------------------------------------------------
# integers
# ---------------------------------------------------------------------------

ANCHOR = {
    "S64MIN": -2 ** 63, "S32MIN": -2 ** 31, "S16MIN": -2 ** 15,
    "S8MIN": -2 ** 7, "Z": 0, "S8MAX": 2 ** 7 - 1, "U8MAX": 2 ** 8 - 1,
    "S16MAX": 2 ** 15 - 1, "U16MAX": 2 ** 16 - 1, "S32MAX": 2 ** 31 - 1,
    "U32MAX": 2 ** 32 - 1, "S64MAX": 2 ** 63 - 1, "U64MAX": 2 ** 64 - 1,
}
MAXDELTA = 60
INT_TYPES = ["uint8", "sint8", "uint16", "sint16", "uint32", "sint32",
             "uint64", "sint64"]
CLASS_OF = {t: getattr(pywbem, t.capitalize()) for t in INT_TYPES}
# DSP0004 ranges, independent of the minvalue/maxvalue attributes of the code
RANGE = {"uint8": (0, ANCHOR["U8MAX"]), "sint8": (ANCHOR["S8MIN"],
                                                   ANCHOR["S8MAX"]),
         "uint16": (0, ANCHOR["U16MAX"]), "sint16": (ANCHOR["S16MIN"],
                                                     ANCHOR["S16MAX"]),
         "uint32": (0, ANCHOR["U32MAX"]), "sint32": (ANCHOR["S32MIN"],
                                                     ANCHOR["S32MAX"]),
         "uint64": (0, ANCHOR["U64MAX"]), "sint64": (ANCHOR["S64MIN"],
                                                     ANCHOR["S64MAX"])}


def concrete_int(v):
    return ANCHOR[v["a"]] + v["d"]


def abstract_int(n):
    """nearest anchor + delta; |delta| > MAXDELTA is clipped to MAXDELTA+1,
    which the specification treats as unclassified."""
    best = min(ANCHOR.items(), key=lambda kv: (abs(n - kv[1]), kv[0]))
    d = n - best[1]
    if abs(d) > MAXDELTA:
        d = (MAXDELTA + 1) if d > 0 else -(MAXDELTA + 1)
    return {"a": best[0], "d": int(d)}


def _signed(n, digits):
    return ("-" if n < 0 else "") + digits


def _decorate(rng, s):
    """lexical freedom int() allows and the property does not care about"""
    r = rng.random()
    if r < 0.15:
        s = " " + s
    elif r < 0.3:
        s = s + " \n"
    if not s.strip().startswith("-") and rng.random() < 0.15:
        s = "+" + s.strip()
    return s


def _hex(rng, n, prefix):
    h = format(abs(n), "x")
    if rng.random() < 0.5:
        h = h.upper()
    if prefix:
        h = rng.choice(["0x", "0X"]) + h
    return _signed(n, h)


def offered(rng, vc, n, dt):
    """-> (args, kwargs, single value or None) for value class vc"""
    if vc == "int":
        return (n,), {}
    if vc == "str10":
        s = str(n)
        if rng.random() < 0.2:
            s = _signed(n, "00" + str(abs(n)))
        return (_decorate(rng, s),), {}
    if vc == "bytes10":
        return (str(n).encode(),), {}
    if vc == "str2":
        b = format(abs(n), "b")
        if rng.random() < 0.3:
            b = "0b" + b
        return (_signed(n, b), 2), {}
    if vc == "str8":
        o = format(abs(n), "o")
        if rng.random() < 0.3:
            o = "0o" + o
        return (_signed(n, o), 8), {}
    if vc == "str16":
        return (_decorate(rng, _hex(rng, n, rng.random() < 0.3)), 16), {}
    if vc == "str16kw":
        return (_hex(rng, n, rng.random() < 0.3),), {"base": 16}
    if vc == "xkw":
        return (), {"x": n}
    if vc == "xkwstr16":
        return (), {"x": _hex(rng, n, False), "base": 16}
    if vc == "str0":
        k = rng.randrange(4)
        if k == 0:
            s = _hex(rng, n, True)
        elif k == 1:
            s = _signed(n, "0b" + format(abs(n), "b"))
        elif k == 2:
            s = _signed(n, "0o" + format(abs(n), "o"))
        else:
            s = str(n)
        return (s, 0), {}
    if vc.startswith("ci:"):
        return (CLASS_OF[vc[3:]](n),), {}
    if vc == "float":
        return (float(n),), {}
    if vc == "floatfrac":
        return (n + 0.5,), {}
    if vc == "floatinf":
        return (float("inf"),), {}
    if vc == "floatninf":
        return (float("-inf"),), {}
    if vc == "floatnan":
        return (float("nan"),), {}
    if vc == "bool":
        return (bool(n),), {}
    if vc == "none":
        return (None,), {}
    if vc == "badstr":
        return (rng.choice(["abc", "0x", "--1", "1 2", "ff", "12L", "0x1g",
                            "1,5", "twelve"]),), {}
    if vc == "floatstr":
        return (rng.choice(["12.5", "1e3", "-0.0", "1E+22", " 7.0 "]),), {}
    if vc == "emptystr":
        return (rng.choice(["", " ", "\t\n"]),), {}
    if vc == "dtstr":
        return (rng.choice(["20180101000000.000000+000",
                            "00000001000000.000000:000",
                            "2018**********.******-720"]),), {}
    if vc == "cimdatetime":
        return (CIMDateTime("20180101000000.000000+000"),), {}
    if vc == "pydatetime":
        return (datetime(2018, 1, 1, 12, 0, 0),), {}
    if vc == "object":
        return (object(),), {}
    if vc == "real32obj":
        return (Real32(float(n)),), {}
    if vc == "real64obj":
        return (Real64(float(n)),), {}
    if vc == "list":
        extra = []
        if dt in RANGE:
            for _ in range(rng.randrange(3)):
                extra.append(rng.choice([RANGE[dt][0], RANGE[dt][1], 0, 1]))
        return ([n] + extra,), {}
    raise ValueError("unknown value class %r" % vc)


def _container_call(c, dt, val, args, kwargs, is_list):
    typ = None if dt == "infer" else dt
    if c == "ctor":
        return CLASS_OF[dt](*args, **kwargs)
    if c == "cimvalue":
        return cimvalue(val, typ)
    if c == "CIMProperty":
        return CIMProperty("P", val, type=typ).value
    if c == "CIMQualifier":
        return CIMQualifier("Q", val, type=typ).value
    if c == "CIMParameter":
        return CIMParameter("P", type=typ, value=val).value
    if c == "CIMQualifierDeclaration":
        return CIMQualifierDeclaration("Q", typ, value=val,
                                       is_array=is_list).value
    if c == "set:CIMProperty":
        o = CIMProperty("P", None, type=typ, is_array=is_list)
    elif c == "set:CIMQualifier":
        o = CIMQualifier("Q", None, type=typ)
    elif c == "set:CIMParameter":
        o = CIMParameter("P", type=typ, is_array=is_list)
    elif c == "set:CIMQualifierDeclaration":
        o = CIMQualifierDeclaration("Q", typ, is_array=is_list)
    else:
        raise ValueError("unknown container %r" % c)
    o.value = val
    return o.value


def run_store_cell(rng, cell):
    """cell = {c, dt, vc, v}; returns (vector for TLC, description)"""
    c, dt, vc, v = cell["c"], cell["dt"], cell["vc"], cell["v"]
    n = concrete_int(v)
    ev = dict(k="store", c=c, dt=dt, vc=vc, v=v, out="stored", st="",
              hasv=False, sv={"a": "Z", "d": 0})
    desc = "%s(<%s %d>) type=%s" % (c, vc, n, dt)
    try:
        # building the offered value is part of the observed expression,
        # e.g. cimvalue(Uint8(255), 'uint16')
        args, kwargs = offered(rng, vc, n, dt)
        val = args[0] if (len(args) == 1 and not kwargs) else None
        desc = "%s(%s%s) type=%s" % (
            c, ", ".join(_short(a) for a in args),
            "".join(", %s=%s" % (k, _short(x)) for k, x in kwargs.items()),
            dt)
        res = _container_call(c, dt, val, args, kwargs, vc == "list")
    except Exception as exc:  # noqa: every exception class is an observation
        ev["out"] = type(exc).__name__
        if ev["out"] == "stored":  # cannot happen; keep the token unambiguous
            ev["out"] = "stored-exception"
        return ev, desc + " -> " + _short(exc)
    if isinstance(res, list):
        names = sorted(set(type(x).__name__ for x in res))
        ev["st"] = "list:" + (names[0] if len(names) == 1 else
                              "mixed" if names else "empty")
        elem = res[0] if res else None
    else:
        ev["st"] = type(res).__name__
        elem = res
    if isinstance(elem, int):
        ev["hasv"] = True
        ev["sv"] = abstract_int(int(elem))
    return ev, desc + " -> " + _short(res)


def run_arr_cell(rng, cell):
    """array cell = {c, dt, items: [{vc, v}, ...]} (CimTypesInt.ArrShapes);
    every item is concretised from its own value class; returns (vector for
    TLC (ArrFails), description)"""
    c, dt, items = cell["c"], cell["dt"], cell["items"]
    ev = dict(k="arr", c=c, dt=dt, items=items, out="stored", islist=False,
              sts=[], hasvs=[], svs=[])
    desc = "%s([%s]) type=%s" % (c, ", ".join(
        "<%s %d>" % (it["vc"], concrete_int(it["v"])) for it in items), dt)
    try:
        val = []
        for it in items:
            args, kwargs = offered(rng, it["vc"], concrete_int(it["v"]), dt)
            val.append(args[0])
        desc = "%s(%s) type=%s array" % (c, _short(val), dt)
        res = _container_call(c, dt, val, (val,), {}, True)
    except Exception as exc:  # noqa: every exception class is an observation
        ev["out"] = type(exc).__name__
        if ev["out"] == "stored":
            ev["out"] = "stored-exception"
        return ev, desc + " -> " + _short(exc)
    ev["islist"] = isinstance(res, list)
    for x in (res if isinstance(res, list) else [res]):
        ev["sts"].append(type(x).__name__)
        isint = isinstance(x, int)
        ev["hasvs"].append(isint)
        ev["svs"].append(abstract_int(int(x)) if isint else {"a": "Z", "d": 0})
    return ev, desc + " -> " + _short(res)


def _short(x):
    r = repr(x)
    return r if len(r) <= 70 else r[:67] + "..."


def random_store_cell(rng):
    """seeded random cell outside TLC's delta grid (|delta| <= MAXDELTA)"""
    a = rng.choice(sorted(ANCHOR))
    d = rng.randint(-MAXDELTA, MAXDELTA)
    n = ANCHOR[a] + d
    v = abstract_int(n)
    dt = rng.choice(INT_TYPES)
    c = rng.choice(["ctor", "cimvalue", "CIMProperty", "CIMQualifier",
                    "CIMParameter", "CIMQualifierDeclaration",
                    "set:CIMProperty", "set:CIMQualifier", "set:CIMParameter",
                    "set:CIMQualifierDeclaration"])
    vcs = ["int", "str10", "bytes10", "list"]
    if c == "ctor":
        vcs = ["int", "str10", "bytes10", "str2", "str8", "str16", "str16kw",
               "xkw", "xkwstr16", "str0"]
    for t in INT_TYPES:
        if RANGE[t][0] <= n <= RANGE[t][1]:
            vcs.append("ci:" + t)
    return dict(c=c, dt=dt, vc=rng.choice(vcs), v=v)


# ---------------------------------------------------------------------------
# datetime
# ---------------------------------------------------------------------------

NOVALUE = {"kind": "none", "f": [], "off": 0, "prec": -1}
NORT = {"built": "none", "eq": False, "obs": NOVALUE}


def observe_dt(x):
    """abstract value of a CIMDateTime through its public attributes"""
    prec = x.precision
    prec = -1 if prec is None else int(prec)
    off = int(x.minutes_from_utc)
    if x.is_interval:
        td = x.timedelta
        sec = td.seconds
        return {"kind": "iv",
                "f": [_i31(td.days), sec // 3600, (sec % 3600) // 60, sec % 60,
                      td.microseconds],
                "off": off, "prec": prec}
    d = x.datetime
    return {"kind": "ts",
            "f": [d.year, d.month, d.day, d.hour, d.minute, d.second,
                  d.microsecond],
            "off": off, "prec": prec}


def _i31(n):
    return max(-2 ** 31 + 1, min(2 ** 31 - 1, int(n)))


def observe_built(build):
    """build() -> CIMDateTime; returns (object or None, partial vector)"""
    ev = dict(built="ok", obs=NOVALUE, s=[], rt=NORT)
    try:
        x = build()
    except Exception as exc:  # noqa
        ev["built"] = type(exc).__name__
        return None, ev
    ev["obs"] = observe_dt(x)
    text = str(x)
    ev["s"] = list(text)
    rt = dict(built="ok", eq=False, obs=NOVALUE)
    try:
        x2 = CIMDateTime(text)
        rt["eq"] = bool(x2 == x) and bool(x == x2) and not bool(x2 != x)
        rt["obs"] = observe_dt(x2)
    except Exception as exc:  # noqa
        rt["built"] = type(exc).__name__
    ev["rt"] = rt
    return x, ev


def dt_vector(route, build, want=None, inp=None, carrier=""):
    x, ev = observe_built(build)
    ev.update(k="dt", route=route, haswant=want is not None,
              want=want if want is not None else NOVALUE,
              inp=list(inp) if inp is not None else [], carrier=carrier)
    return x, ev


class UserTz(tzinfo):
    """a user-defined fixed-offset tzinfo (spec carrier class "usertz")"""

    def __init__(self, minutes, dst=0):
        self._off = timedelta(minutes=minutes)
        self._dst = timedelta(minutes=dst)

    def utcoffset(self, dt):
        return self._off

    def dst(self, dt):
        return self._dst

    def tzname(self, dt):
        return "user%+d" % (self._off.total_seconds() // 60)

    def __repr__(self):
        return "UserTz(%d)" % (self._off.total_seconds() // 60)


def carrier_available(carrier):
    return carrier != "zoneinfo" or zoneinfo is not None


def tzinfo_of(rng, carrier, off):
    """concrete tzinfo object of the spec's TzCarriers class for offset off
    (minutes); the spec (CarrierCan) decides which classes can carry off"""
    if carrier == "naive":
        return None
    if carrier == "MinutesFromUTC":
        return MinutesFromUTC(off)
    if carrier == "timezone":
        if off == 0 and rng.random() < 0.5:
            return timezone.utc
        if rng.random() < 0.5:
            return timezone(timedelta(minutes=off), "Z%d" % off)
        return timezone(timedelta(minutes=off))
    if carrier == "usertz":
        return UserTz(off, rng.choice([0, 0, 60]))
    if carrier == "zoneinfo":
        h = off // 60   # Etc/GMT+5 is 5 hours WEST of UTC
        return zoneinfo.ZoneInfo("Etc/GMT%s%d" % ("-" if h > 0 else "+",
                                                    abs(h)) if h else
                                 rng.choice(["Etc/GMT", "UTC", "Etc/UTC"]))
    raise ValueError("unknown tz carrier %r" % carrier)


def pick_carrier(rng, table, off):
    """a random carrier class that the spec's table allows for off"""
    cs = sorted(c for c, offs in table.items()
                if off in offs and carrier_available(c))
    return rng.choice(cs)


def from_object(rng, arg):
    """entry points that build a CIMDateTime from a datetime / timedelta
    object: -> (build, description)"""
    via = rng.choice(["CIMDateTime", "CIMDateTime", "cimvalue",
                      "cimvalue-infer", "CIMProperty", "CIMProperty-infer",
                      "CIMQualifier", "CIMParameter"])
    if via == "CIMDateTime":
        build = lambda: CIMDateTime(arg)
    elif via == "cimvalue":
        build = lambda: cimvalue(arg, "datetime")
    elif via == "cimvalue-infer":
        build = lambda: cimvalue(arg, None)
    elif via == "CIMProperty":
        build = lambda: CIMProperty("P", arg, type="datetime").value
    elif via == "CIMProperty-infer":
        build = lambda: CIMProperty("P", arg).value
    elif via == "CIMQualifier":
        build = lambda: CIMQualifier("Q", arg, type="datetime").value
    else:
        build = lambda: CIMParameter("P", "datetime", value=arg).value
    return build, "%r via %s" % (arg, via)


def dt_vectors_for_value(rng, x, s, carriers=()):
    """all construction routes for abstract value x whose DSP0004 string
    (computed by TLC) is s; carriers = the tzinfo carrier classes (computed
    by TLC) under which x is given as a datetime object; returns list of
    (vector, description)"""
    out = []
    text = "".join(s)
    via = rng.choice(["str", "bytes", "unpack_datetime", "cimvalue"])
    if via == "str":
        build = lambda: CIMDateTime(text)
    elif via == "bytes":
        build = lambda: CIMDateTime(text.encode("utf-8"))
    elif via == "unpack_datetime":
        build = lambda: _tupleparse.TupleParser().unpack_datetime(text)
    else:
        build = lambda: cimvalue(text, "datetime")
    obj, ev = dt_vector("str", build, want=x, inp=text)
    out.append((ev, "CIMDateTime(%r) via %s" % (text, via)))
    f = x["f"]
    if x["prec"] == -1:
        if x["kind"] == "ts":
            o2 = None
            for carrier in carriers:
                if not carrier_available(carrier):
                    continue
                tz = tzinfo_of(rng, carrier, x["off"])
                arg = datetime(f[0], f[1], f[2], f[3], f[4], f[5], f[6], tz)
                build, how = from_object(rng, arg)
                o2, ev2 = dt_vector("datetime", build, want=x,
                                    carrier=carrier)
                out.append((ev2, "CIMDateTime(%s)" % how))
        else:
            if rng.random() < 0.5:
                arg = timedelta(days=f[0], hours=f[1], minutes=f[2],
                                seconds=f[3], microseconds=f[4])
            else:
                arg = timedelta(f[0], f[1] * 3600 + f[2] * 60 + f[3], f[4])
            build, how = from_object(rng, arg)
            o2, ev2 = dt_vector("timedelta", build, want=x)
            out.append((ev2, "CIMDateTime(%s)" % how))
        if o2 is not None and rng.random() < 0.5:
            src = o2
            o3, ev3 = dt_vector("copy", lambda: CIMDateTime(src),
                                want=ev2["obs"])
            out.append((ev3, "CIMDateTime(CIMDateTime(%r))" % (arg,)))
    if obj is not None:
        o4, ev4 = dt_vector("copy", lambda: CIMDateTime(obj), want=ev["obs"])
        out.append((ev4, "CIMDateTime(CIMDateTime(%r))" % text))
    return out


def dt_vector_for_mutation(m):
    text = "".join(m)
    obj, ev = dt_vector("mut", lambda: CIMDateTime(text), inp=text)
    return ev, "CIMDateTime(%r)" % text


def _biased(rng, lo, hi):
    r = rng.random()
    if r < 0.15:
        return lo
    if r < 0.3:
        return hi
    if r < 0.4:
        return min(hi, lo + 1)
    if r < 0.5:
        return max(lo, hi - 1)
    return rng.randint(lo, hi)


def random_dt_value(rng):
    """seeded random DSP0004-expressible value with precision -1, and a
    random legal precision to mask its string with"""
    if rng.random() < 0.6:
        y = _biased(rng, 1, 9999)
        mo = _biased(rng, 1, 12)
        dim = [31, 29 if (y % 4 == 0 and (y % 100 != 0 or y % 400 == 0))
               else 28, 31, 30, 31, 30, 31, 31, 30, 31, 30, 31][mo - 1]
        x = {"kind": "ts",
             "f": [y, mo, _biased(rng, 1, dim), _biased(rng, 0, 23),
                   _biased(rng, 0, 59), _biased(rng, 0, 59),
                   _biased(rng, 0, 999999)],
             "off": _biased(rng, -999, 999), "prec": -1}
        precs = [-1, 4, 6, 8, 10, 12, 15, 16, 17, 18, 19, 20]
    else:
        x = {"kind": "iv",
             "f": [_biased(rng, 0, 99999999), _biased(rng, 0, 23),
                   _biased(rng, 0, 59), _biased(rng, 0, 59),
                   _biased(rng, 0, 999999)],
             "off": 0, "prec": -1}
        precs = [-1, 0, 8, 10, 12, 15, 16, 17, 18, 19, 20]
    return x, rng.choice(precs)


def mask(text, prec):
    """replace the digits from index prec up to the end of the microsecond
    field by asterisks (DSP0004 precision notation)"""
    if prec < 0:
        return text
    chars = list(text)
    for i in range(prec, 21):
        if chars[i] != ".":
            chars[i] = "*"
    return "".join(chars)


def random_dt_vectors(rng, x, prec, carrier="MinutesFromUTC"):
    """routes for one random value: datetime/timedelta object (the offset
    of a datetime carried by a tzinfo of class carrier), copy, the string
    printed by the real code masked to a random legal precision"""
    out = []
    f = x["f"]
    if x["kind"] == "ts":
        arg = datetime(f[0], f[1], f[2], f[3], f[4], f[5], f[6],
                       tzinfo_of(rng, carrier, x["off"]))
        route = "datetime"
    else:
        arg = timedelta(days=f[0], hours=f[1], minutes=f[2], seconds=f[3],
                        microseconds=f[4])
        route = "timedelta"
        carrier = ""
    build, how = from_object(rng, arg)
    obj, ev = dt_vector(route, build, want=x, carrier=carrier)
    out.append((ev, "CIMDateTime(%s)" % how))
    if obj is None:
        return out
    text = mask(str(obj), prec)
    o2, ev2 = dt_vector("str", lambda: CIMDateTime(text), inp=text)
    out.append((ev2, "CIMDateTime(%r)" % text))
    if o2 is not None:
        o3, ev3 = dt_vector("copy", lambda: CIMDateTime(o2), want=ev2["obs"])
        out.append((ev3, "CIMDateTime(CIMDateTime(%r))" % text))
    return out


# ---------------------------------------------------------------------------
# reals
# ---------------------------------------------------------------------------

def f32(x):
    """nearest IEEE-754 single as a python float"""
    return struct.unpack(">f", struct.pack(">f", x))[0]


def bits64(x):
    return struct.pack(">d", x)


def bits32(x):
    try:
        return struct.pack(">f", x)
    except OverflowError:
        return None


def _from_bits64(b):
    return struct.unpack(">d", struct.pack(">Q", b))[0]


def _from_bits32(b):
    return struct.unpack(">f", struct.pack(">I", b))[0]


def next32(x, up):
    """neighbouring IEEE-754 single of a positive single"""
    b = struct.unpack(">I", struct.pack(">f", x))[0]
    return _from_bits32(b + 1 if up else max(0, b - 1))


def real_class_of(x):
    if not isinstance(x, float):
        return "notfloat:" + type(x).__name__
    if math.isnan(x):
        return "nan"
    if math.isinf(x):
        return "pinf" if x > 0 else "ninf"
    return "finite"


def real_representatives(rng, t, cls, n):
    """concrete members of a spec-named class for CIM type t; for real32
    every member is float32-representable"""
    r32 = (t == "real32")
    sgn = lambda x: x if rng.random() < 0.5 else -x
    if cls == "pinf":
        return [float("inf")]
    if cls == "ninf":
        return [float("-inf")]
    if cls == "nan":
        return [float("nan"), -float("nan")]
    if cls == "pzero":
        return [0.0]
    if cls == "nzero":
        return [-0.0]
    if r32:
        mk = _from_bits32
        dmin, dmax, nmin, mx = mk(1), mk(0x007FFFFF), mk(0x00800000), \
            mk(0x7F7FFFFF)
    else:
        mk = _from_bits64
        dmin, dmax, nmin, mx = mk(1), mk(0x000FFFFFFFFFFFFF), \
            mk(0x0010000000000000), mk(0x7FEFFFFFFFFFFFFF)
    fit = f32 if r32 else (lambda x: x)
    if cls == "denorm_min":
        return [dmin, -dmin, mk(2), mk(3)]
    if cls == "denorm_max":
        return [dmax, -dmax]
    if cls == "denorm":
        hi = 0x007FFFFF if r32 else 0x000FFFFFFFFFFFFF
        return [sgn(mk(rng.randint(1, hi))) for _ in range(n)]
    if cls == "norm_min":
        return [nmin, -nmin, mk((0x00800001 if r32 else 0x0010000000000001))]
    if cls == "max":
        return [mx, mk((0x7F7FFFFE if r32 else 0x7FEFFFFFFFFFFFFE))]
    if cls == "neg_max":
        return [-mx]
    if cls == "one_third":
        return [fit(1.0 / 3), fit(-1.0 / 3), fit(2.0 / 3), fit(1.0 / 7)]
    if cls == "short_decimal":
        return [fit(x) for x in (0.1, 0.2, 0.3, 1.5, -2.25, 100.0, 1e-5,
                                 123.456, 5e-324 if not r32 else 1e-40)]
    if cls == "int_with_exponent":
        xs = []
        for e in range(17, 23):
            if r32 and e > 38:
                continue
            base = fit(float(10 ** e))
            xs += [base, -base,
                   next32(base, True) if r32 else
                   math.nextafter(base, math.inf),
                   fit(3.0 * 10 ** e), fit(float(12345678901234567890 *
                                                 10 ** (e - 19)))]
        return xs
    if cls == "int_no_exponent":
        top = 10 if r32 else 16
        return [fit(float(10 ** e)) for e in range(0, top + 1)] + \
               [fit(float(rng.randint(1, 10 ** rng.randint(1, top))))
                for _ in range(n)]
    if cls == "beyond_2p53":
        p = 24 if r32 else 53
        return [fit(float(2 ** p + k)) for k in (-2, -1, 0, 2, 4)] + \
               [fit(float(2 ** (p + 1) + 2)), fit(float(-(2 ** p)))]
    if cls == "near_pow10":
        xs = []
        lo, hi = (-37, 38) if r32 else (-307, 308)
        for _ in range(n):
            e = rng.randint(lo, hi)
            b = fit(float("1e%d" % e))
            if r32:
                xs += [b, next32(b, False), next32(b, True)]
            else:
                xs += [b, math.nextafter(b, 0.0), math.nextafter(b, math.inf)]
        return xs
    if cls == "pow2":
        lo, hi = (-149, 127) if r32 else (-1074, 1023)
        return [sgn(math.ldexp(1.0, rng.randint(lo, hi))) for _ in range(n)]
    if cls == "float32_boundary":
        b = [_from_bits32(0x7F7FFFFF), _from_bits32(0x00800000),
             _from_bits32(1), _from_bits32(0x007FFFFF), f32(16777216.0),
             f32(16777218.0)]
        if not r32:   # doubles adjacent to the float32 boundaries
            b += [math.nextafter(b[0], math.inf), math.nextafter(b[1], 0.0),
                  math.nextafter(b[2], 0.0)]
        return b + [-x for x in b[:3]]
    if cls == "random_bits":
        xs = []
        while len(xs) < n:
            x = mk(rng.getrandbits(32 if r32 else 64))
            if math.isnan(x) or math.isinf(x):
                continue
            xs.append(x)
        return xs
    raise ValueError("unknown real class %r" % cls)


_SHAPE = re.compile(r"[0-9]+")


def run_real(rng, t, cls, route, x):
    cimcls = Real32 if t == "real32" else Real64
    ev = dict(k="real", t=t, route=route, cls=cls, wrote="ok", text="",
              shape="", parsed="ok", back="", same=False, btype="")
    desc = "%s %s %r (%s)" % (t, route, x, x.hex() if isinstance(x, float)
                              else "")
    plain = (t == "real64" and route == "atomic" and rng.random() < 0.3)
    try:
        # a plain python float is documented as real64
        obj = x if plain else cimcls(x)
        if route == "atomic":
            text = atomic_to_cim_xml(obj)
        elif route == "keybinding":
            xml = pywbem.CIMInstanceName("C", {"K": cimcls(x)}).tocimxmlstr()
            m = re.search(r"<KEYVALUE[^>]*>(.*)</KEYVALUE>", xml, re.S)
            text = m.group(1) if m else "UNCLASSIFIED-no-KEYVALUE-element"
        else:
            xml = CIMProperty("P", cimcls(x)).tocimxmlstr()
            m = re.search(r"<VALUE>(.*)</VALUE>", xml, re.S)
            text = m.group(1) if m else "UNCLASSIFIED-no-VALUE-element"
    except Exception as exc:  # noqa
        ev["wrote"] = type(exc).__name__
        return ev, desc
    ev["text"] = text if isinstance(text, str) and len(text) < 60 else \
        "UNCLASSIFIED:" + repr(text)[:40]
    ev["shape"] = _SHAPE.sub("d", ev["text"])
    try:
        if route == "atomic":
            pad = rng.choice(["", " ", "\n "])
            back = _tupleparse.TupleParser().unpack_numeric(pad + text + pad,
                                                            t)
        elif route == "keybinding":
            tt = _tupletree.xml_to_tupletree_sax(xml.encode("utf-8"), "C06")
            back = _tupleparse.TupleParser().parse_instancename(tt)["K"]
        else:
            tt = _tupletree.xml_to_tupletree_sax(xml.encode("utf-8"), "C06")
            back = _tupleparse.TupleParser().parse_property(tt).value
    except Exception as exc:  # noqa
        ev["parsed"] = type(exc).__name__
        return ev, desc + " -> " + ev["text"]
    ev["btype"] = type(back).__name__
    ev["back"] = real_class_of(float(back) if isinstance(back, float)
                               else back)
    if isinstance(back, float) and ev["back"] == "finite":
        if t == "real32":
            ev["same"] = bits32(float(back)) == bits32(x)
        else:
            ev["same"] = bits64(float(back)) == bits64(x)
    return ev, desc + " -> " + ev["text"]
