"""
Common machinery for the pywbem model-based checks.

* TLC runner (exhaustive / simulate / trace batch) with output parsing
* total trace verdicts (the trace specs never block: every trace ends in an
  "ok" or "rej" verdict line printed by TLC with the failing Req clauses)
* evidence writer (EVIDENCE.schema.json), known-findings matching, replay files

Verdict discipline (DESIGN.md R-sound): a VIOLATION is produced only from a
verdict line printed by TLC for a trace recorded from the real code (or, for the
transcribed functions, for a <input, observed output> pair), i.e. the TLA+
requirement module is the oracle.  Python never decides a property on its own;
it only concretises, drives, projects.
"""
import json
import os
import re
import shutil
import subprocess
import sys
import time
import random
import hashlib

VERIF = os.path.dirname(os.path.dirname(os.path.abspath(__file__)))
SPEC = os.path.join(VERIF, "spec")
WORK = os.environ.get("VERIF_WORK") or os.path.join(VERIF, ".work")
REPLAYS = os.environ.get("VERIF_REPLAYS") or os.path.join(VERIF, "replays")
EVIDENCE = os.environ.get("VERIF_EVIDENCE") or os.path.join(VERIF, "evidence")
KNOWN = os.path.join(VERIF, "known_findings.json")
TLA_JAR = "/opt/veriftools/tla/tla2tools.jar"
TLA_CP = TLA_JAR + ":/opt/veriftools/tla/CommunityModules-deps.jar"


class MachineryError(Exception):
    """Something in the checking machinery (not the code under test) failed."""


# ----------------------------------------------------------------------------
# TLC
# ----------------------------------------------------------------------------

_RE_STATES = re.compile(
    r"(\d+) states generated, (\d+) distinct states found, (\d+) states left")
_RE_SIMSTATES = re.compile(r"(\d+) states checked")
_RE_INV = re.compile(r"Error: Invariant (\S+) is violated")
_RE_PROP = re.compile(r"Error: (?:Action|Temporal) propert(?:y|ies) (\S+)? ?(?:is|were) violated")
_RE_DEPTH = re.compile(r"The depth of the complete state graph search is (\d+)")


class TlcResult:
    def __init__(self, rc, out, wall):
        self.rc = rc
        self.out = out
        self.wall = wall
        self.generated = 0
        self.distinct = 0
        self.queue = 0
        self.depth = 0
        m = None
        for m in _RE_STATES.finditer(out):
            pass
        if m:
            self.generated, self.distinct, self.queue = (
                int(m.group(1)), int(m.group(2)), int(m.group(3)))
        else:
            m = None
            for m in _RE_SIMSTATES.finditer(out):
                pass
            if m:
                self.generated = int(m.group(1))
        m = _RE_DEPTH.search(out)
        if m:
            self.depth = int(m.group(1))
        m = _RE_INV.search(out)
        self.violated = m.group(1) if m else None
        if self.violated is None and "is violated" in out:
            m2 = re.search(r"Error: (.*violated.*)", out)
            self.violated = m2.group(1) if m2 else "unknown"
        if self.violated is None and "Deadlock reached" in out:
            self.violated = "Deadlock"
        self.finished = ("Model checking completed" in out or
                         "Finished in" in out)
        self.errors = [l for l in out.splitlines()
                       if l.startswith("Error:") or "Exception" in l[:80]]

    @property
    def ok(self):
        return self.rc == 0 and self.violated is None

    def printed(self, tag):
        """Return the TLA+ values printed by PrintT(<<tag, ...>>) as python
        lists (parsed by `parse_tla_value`; values may span several lines)."""
        res = []
        for m in re.finditer(r'^<<\s*"%s"' % re.escape(tag), self.out, re.M):
            try:
                res.append(parse_tla_value(self.out, m.start()))
            except Exception as exc:  # pragma: no cover
                raise MachineryError(
                    "cannot parse TLC output at %r: %s" %
                    (self.out[m.start():m.start() + 200], exc))
        return res

    def counterexample(self, maxlen=6000):
        i = self.out.find("Error:")
        return self.out[i:i + maxlen] if i >= 0 else ""

    def coverage_actions(self):
        """Parse '-coverage' output: action name -> (distinct, total)."""
        cov = {}
        for m in re.finditer(
                r"<(\w+) line \d+, col \d+ to line \d+, col \d+ of module "
                r"(\w+)>: (\d+):(\d+)", self.out):
            name = m.group(1)
            d, t = int(m.group(3)), int(m.group(4))
            old = cov.get(name, (0, 0))
            cov[name] = (max(old[0], d), max(old[1], t))
        return cov


def parse_tla_value(s, start=0):
    """Parse a (printed) TLA+ value made of <<>>, {}, [a |-> v], strings, ints,
    TRUE/FALSE into python lists / sets-as-sorted-lists / dicts."""
    pos = [start]
    n = len(s)

    def ws():
        while pos[0] < n and s[pos[0]] in " \t\r\n":
            pos[0] += 1

    def val():
        ws()
        if s.startswith("<<", pos[0]):
            pos[0] += 2
            items = seq(">>")
            return items
        c = s[pos[0]]
        if c == "{":
            pos[0] += 1
            items = seq("}")
            return {"$set": items}
        if c == "[":
            pos[0] += 1
            d = {}
            ws()
            if s[pos[0]] == "]":
                pos[0] += 1
                return d
            while True:
                ws()
                m = re.compile(r"[A-Za-z_0-9]+").match(s, pos[0])
                key = m.group(0)
                pos[0] = m.end()
                ws()
                assert s.startswith("|->", pos[0]), s[pos[0]:pos[0] + 20]
                pos[0] += 3
                d[key] = val()
                ws()
                if s[pos[0]] == ",":
                    pos[0] += 1
                    continue
                assert s[pos[0]] == "]", s[pos[0]:pos[0] + 20]
                pos[0] += 1
                return d
        if c == "(":
            # function printed as (a :> b @@ c :> d)
            pos[0] += 1
            d = {}
            while True:
                k = val()
                ws()
                assert s.startswith(":>", pos[0])
                pos[0] += 2
                v = val()
                d[json.dumps(k) if not isinstance(k, (str, int)) else k] = v
                ws()
                if s.startswith("@@", pos[0]):
                    pos[0] += 2
                    continue
                assert s[pos[0]] == ")"
                pos[0] += 1
                return d
        if c == '"':
            j = pos[0] + 1
            buf = []
            while s[j] != '"':
                if s[j] == "\\":
                    j += 1
                    buf.append({"n": "\n", "t": "\t", "r": "\r"}.get(s[j], s[j]))
                else:
                    buf.append(s[j])
                j += 1
            pos[0] = j + 1
            return "".join(buf)
        m = re.compile(r"-?\d+").match(s, pos[0])
        if m:
            pos[0] = m.end()
            return int(m.group(0))
        m = re.compile(r"[A-Za-z_][A-Za-z_0-9]*").match(s, pos[0])
        if m:
            pos[0] = m.end()
            w = m.group(0)
            if w == "TRUE":
                return True
            if w == "FALSE":
                return False
            return w
        raise ValueError("unexpected %r at %d" % (s[pos[0]:pos[0] + 20], pos[0]))

    def seq(close):
        items = []
        ws()
        if s.startswith(close, pos[0]):
            pos[0] += len(close)
            return items
        while True:
            items.append(val())
            ws()
            if s[pos[0]] == ",":
                pos[0] += 1
                continue
            assert s.startswith(close, pos[0]), s[pos[0]:pos[0] + 20]
            pos[0] += len(close)
            return items

    v = val()
    return v


def unset(v):
    """{"$set": [...]} -> sorted python list (recursively)."""
    if isinstance(v, dict):
        if "$set" in v and len(v) == 1:
            return sorted((unset(x) for x in v["$set"]), key=repr)
        return {k: unset(x) for k, x in v.items()}
    if isinstance(v, list):
        return [unset(x) for x in v]
    return v


# ----------------------------------------------------------------------------
# check context
# ----------------------------------------------------------------------------

class Ctx:
    def __init__(self, pid, tier, seed, level="model_checking"):
        self.pid = pid
        self.tier = tier
        self.seed = seed
        self.level = level
        self.rng = random.Random(seed)
        self.t0 = time.time()
        self.work = os.path.join(WORK, pid)
        shutil.rmtree(self.work, ignore_errors=True)
        os.makedirs(self.work, exist_ok=True)
        self.states = 0
        self.transitions = 0
        self.traces = 0
        self.events = 0
        self.samples = []
        self.tlc_runs = []
        self.violations = []      # list of dict(signature, what, replay)
        self.known_hits = {}      # signature -> count
        self.drift = []           # impl_drift entries (never violations)
        self.extra = {}
        self.assumptions = []
        self.actions_covered = {}
        self.actions_bound = {}
        self._tlc_n = 0
        self.exhaustive = False
        self.known = load_known(pid)
        self._replay_n = 0

    # -- TLC ---------------------------------------------------------------
    def tlc(self, module, cfg, workers=16, env=None, simulate=None, depth=None,
            timeout=1800, coverage=False, dfid=None, label=None, count=True,
            must_pass=True, extra=None, jvm=None):
        """Run TLC on spec/<module>.tla with spec/<cfg>.  Returns TlcResult.
        `count`: add state counts to the evidence totals."""
        self._tlc_n += 1
        meta = os.path.join(self.work, "tlc%d" % self._tlc_n)
        os.makedirs(meta, exist_ok=True)
        cmd = ["java", "-XX:+UseParallelGC", "-Xmx8g"]
        if jvm:
            cmd += jvm
        cmd += ["-cp", TLA_CP, "tlc2.TLC", "-metadir", meta,
                "-noGenerateSpecTE", "-workers", str(workers),
                "-config", cfg]
        if simulate:
            cmd += ["-simulate", simulate]
        if depth:
            cmd += ["-depth", str(depth)]
        if coverage:
            cmd += ["-coverage", "1"]
        if dfid:
            cmd += ["-dfid", str(dfid)]
        if extra:
            cmd += list(extra)
        cmd += [module]
        e = dict(os.environ)
        e.pop("JAVA_TOOL_OPTIONS", None)
        if env:
            e.update({k: str(v) for k, v in env.items()})
        t0 = time.time()
        try:
            p = subprocess.run(cmd, cwd=SPEC, env=e, stdout=subprocess.PIPE,
                               stderr=subprocess.STDOUT, timeout=timeout,
                               text=True, errors="replace")
            out, rc = p.stdout, p.returncode
        except subprocess.TimeoutExpired as exc:
            out = (exc.stdout or b"")
            if isinstance(out, bytes):
                out = out.decode("utf-8", "replace")
            rc = -9
        wall = time.time() - t0
        with open(os.path.join(self.work, "tlc%d.out" % self._tlc_n), "w") as f:
            f.write(" ".join(cmd) + "\n" + out)
        shutil.rmtree(meta, ignore_errors=True)
        r = TlcResult(rc, out, wall)
        if count:
            self.states += r.distinct or r.generated
            self.transitions += r.generated
        self.tlc_runs.append({
            "label": label or ("%s/%s" % (module, cfg)),
            "module": module, "cfg": cfg, "rc": rc,
            "generated": r.generated, "distinct": r.distinct,
            "depth": r.depth, "wall_s": round(wall, 2),
            "violated": r.violated,
            "mode": ("simulate " + simulate) if simulate else "exhaustive"})
        if must_pass and not r.ok:
            if rc == -9 and simulate:
                return r     # simulation stopped by the outer timeout: fine
            raise MachineryError(
                "TLC failed on %s/%s rc=%s violated=%s\n%s" %
                (module, cfg, rc, r.violated, out[-3000:]))
        if coverage:
            for k, v in r.coverage_actions().items():
                old = self.actions_covered.get(k, 0)
                self.actions_covered[k] = old + v[1]
        return r

    def simulate_behaviours(self, module, cfg, num, depth, var="hist",
                            label=None, timeout=900, env=None):
        """tlc -simulate file=...: one file per behaviour; returns the value of
        history variable `var` in the last state of every behaviour."""
        d = os.path.join(self.work, "sim%d" % (self._tlc_n + 1))
        shutil.rmtree(d, ignore_errors=True)
        os.makedirs(d)
        r = self.tlc(module, cfg, workers=1,
                     simulate="file=%s/tr,num=%d" % (d, num), depth=depth,
                     extra=["-seed", str(self.seed)], label=label,
                     timeout=timeout, env=env)
        out = []
        needle = "/\\ %s = " % var
        for fn in sorted(os.listdir(d)):
            with open(os.path.join(d, fn)) as f:
                txt = f.read()
            i = txt.rfind("STATE_")
            j = txt.find(needle, i)
            if j < 0:
                continue
            out.append(unset(parse_tla_value(txt, j + len(needle))))
        shutil.rmtree(d, ignore_errors=True)
        return r, out

    def simulate_actions(self, module, cfg, num, depth, label=None,
                         timeout=900):
        """tlc -simulate file=...: returns, per behaviour, the list of action
        names taken, e.g. [("M0", ""), ("S0", "s1"), ...]."""
        d = os.path.join(self.work, "sima%d" % (self._tlc_n + 1))
        shutil.rmtree(d, ignore_errors=True)
        os.makedirs(d)
        r = self.tlc(module, cfg, workers=1,
                     simulate="file=%s/tr,num=%d" % (d, num), depth=depth,
                     extra=["-seed", str(self.seed)], label=label,
                     timeout=timeout)
        out = []
        for fn in sorted(os.listdir(d)):
            acts = []
            with open(os.path.join(d, fn)) as f:
                for line in f:
                    m = re.match(r'\\\* <(\w+)(?:\("?([^")]*)"?\))? line', line)
                    if m and m.group(1) != "Init":
                        acts.append((m.group(1), m.group(2) or ""))
            out.append(acts)
        shutil.rmtree(d, ignore_errors=True)
        return r, out

    # -- trace batches -------------------------------------------------------
    def validate_traces(self, module, cfg, traces, meta=None, label=None,
                        env=None, timeout=1800, chunk=4000):
        """Validate a list of traces (each a list of JSON-able events) against
        spec/<module>.tla.  The trace module prints one verdict line per trace:
            <<"V", tid, "ok", nEvents>>    or
            <<"V", tid, "rej", eventIndex, {failing clause names}>>
        Returns list of verdict dicts aligned with `traces`."""
        verdicts = [None] * len(traces)
        for base in range(0, len(traces), chunk):
            part = traces[base:base + chunk]
            n = self._tlc_n + 1
            path = os.path.join(self.work, "batch%d.json" % n)
            with open(path, "w") as f:
                json.dump({"meta": meta or {}, "traces": part}, f)
            e = {"TRACE_FILE": path}
            if env:
                e.update(env)
            r = self.tlc(module, cfg, workers=1, env=e, timeout=timeout,
                         label=label or ("trace-validate %s" % module),
                         must_pass=False)
            if r.rc != 0 or r.violated:
                raise MachineryError(
                    "trace validation run failed (%s rc=%s):\n%s" %
                    (module, r.rc, r.out[-4000:]))
            for v in r.printed("V"):
                tid = v[1]
                if v[2] == "ok":
                    verdicts[base + tid - 1] = {"ok": True, "n": v[3]}
                else:
                    verdicts[base + tid - 1] = {
                        "ok": False, "at": v[3],
                        "clauses": unset(v[4]) if len(v) > 4 else []}
            for i in range(len(part)):
                if verdicts[base + i] is None:
                    raise MachineryError(
                        "no verdict for trace %d from %s\n%s" %
                        (base + i, module, r.out[-3000:]))
        self.traces += len(traces)
        self.events += sum(len(t) for t in traces)
        return verdicts

    # -- verdict bookkeeping ---------------------------------------------------
    def report(self, signature, what, replay_obj):
        """Record a Req-level failure.  Matching a known finding => KNOWN-FINDING
        line (printed once at the end); otherwise a VIOLATION."""
        for k in self.known:
            if k["status"] == "known" and sig_match(k["signature"], signature):
                ent = self.known_hits.setdefault(
                    k["signature"], {"what": k["what"], "count": 0,
                                     "example": replay_obj})
                ent["count"] += 1
                return False
        for v in self.violations:
            if v["signature"] == signature:
                v["count"] += 1
                return True
        self._replay_n += 1
        d = os.path.join(REPLAYS, self.pid)
        os.makedirs(d, exist_ok=True)
        path = os.path.join(d, "%d.json" % self._replay_n)
        with open(path, "w") as f:
            json.dump({"property": self.pid, "signature": signature,
                       "what": what, "seed": self.seed, "tier": self.tier,
                       "case": replay_obj}, f, indent=1, default=repr)
        self.violations.append({"signature": signature, "what": what,
                                "replay": path, "count": 1})
        return True

    def sample(self, obj, maxn=6):
        if len(self.samples) < maxn:
            self.samples.append(obj)

    def note_drift(self, what, example=None):
        for d in self.drift:
            if d["what"] == what:
                d["count"] += 1
                return
        self.drift.append({"what": what, "count": 1, "example": example})

    # -- finish ----------------------------------------------------------------
    def finish(self):
        wall = time.time() - self.t0
        cov = {
            "states": self.states,
            "transitions": self.transitions,
            "traces_validated_against_impl": self.traces,
            "events_validated": self.events,
            "samples": self.samples or ["(none)"],
            "exhaustive": bool(self.exhaustive),
            "tlc_runs": self.tlc_runs,
            "impl_drift": self.drift,
            "known_findings_hit": [
                {"signature": s, "count": v["count"], "what": v["what"]}
                for s, v in sorted(self.known_hits.items())],
            "violations": [
                {k: v[k] for k in ("signature", "what", "replay", "count")}
                for v in self.violations],
            "checker_cmd": "tlc (tla2tools 1.8.0) via harness/vlib.py",
        }
        if self.actions_covered:
            cov["actions_covered"] = self.actions_covered
        if self.actions_bound:
            cov["actions_bound"] = self.actions_bound
            cov["actions_unbound"] = sorted(
                a for a in self.actions_covered
                if a not in self.actions_bound and
                not a.startswith(("Init", "vars")))
        cov.update(self.extra)
        ev = {
            "property_id": self.pid,
            "tier": self.tier,
            "seed": self.seed,
            "level": self.level,
            "coverage": cov,
            "assumptions": self.assumptions,
            "wall_s": round(wall, 2),
            "violations": len(self.violations),
        }
        # extension checks (ids X..: behaviour beyond the listed properties)
        # keep their evidence apart and never print property verdict lines
        ext = self.pid.startswith("X")
        evdir = EVIDENCE + "_ext" if ext else EVIDENCE
        os.makedirs(evdir, exist_ok=True)
        tmp = os.path.join(evdir, "%s.json.tmp" % self.pid)
        with open(tmp, "w") as f:
            json.dump(ev, f, indent=1, default=repr)
        os.replace(tmp, os.path.join(evdir, "%s.json" % self.pid))
        for s, v in sorted(self.known_hits.items()):
            print("%s=%s %s [signature %s; %d occurrence(s)]"
                  % ("EXT-KNOWN: ext" if ext else "KNOWN-FINDING: property",
                     self.pid, v["what"], s, v["count"]))
        for v in self.violations:
            print("%s=%s replay=%s" % ("EXT-DEVIATION ext" if ext else
                                       "VIOLATION property", self.pid,
                                       v["replay"]))
            print("  what: %s (signature %s, %d occurrence(s))" %
                  (v["what"], v["signature"], v["count"]))
        print("%s %s: states=%d transitions=%d traces=%d events=%d "
              "known=%d violations=%d drift=%d wall=%.1fs" %
              (self.pid, self.tier, self.states, self.transitions, self.traces,
               self.events, len(self.known_hits), len(self.violations),
               len(self.drift), wall))
        return 1 if self.violations else 0


def sig_match(pattern, signature):
    """Known-finding signatures are exact strings or fnmatch patterns."""
    import fnmatch
    return pattern == signature or fnmatch.fnmatchcase(signature, pattern)


def load_known(pid):
    path = KNOWN
    if pid.startswith("X"):      # extension checks have their own list
        path = os.path.join(os.path.dirname(KNOWN), "ext_known", pid + ".json")
    if not os.path.exists(path):
        return []
    with open(path) as f:
        data = json.load(f)
    return [k for k in data.get("findings", []) if k["property"] == pid]


def digest(obj):
    return hashlib.sha1(
        json.dumps(obj, sort_keys=True, default=repr).encode()).hexdigest()[:12]


def repo_root():
    import pywbem
    return os.path.dirname(os.path.dirname(os.path.abspath(pywbem.__file__)))
