"""
respgen - concretisation for C02 (RespPipeline.tla).

An abstract response cell (chosen by TLC) is
    shape   : result shape of the operation (RespPipeline!Shapes)
    defects : <= 2 records [k, site, ty, cls] (RespPipeline!Kinds)
`render()` turns a cell into a concrete HTTP exchange (status line, headers,
body bytes or a transport exception) for one operation; everything the cell
does not fix (names, lexical case, whitespace, attribute order, number of
objects, property mix, where exactly a fault is placed) is drawn from the
seeded rng.  The XML is built by a small writer of its own (not by pywbem's
encoder) so that the generator does not depend on the code under test.

Part 1: XML nodes and valid content.  Part 2: defects.  Part 3: transport
adapter, operation table, result type checks, watchdog.
"""
import io
import re
import signal
import socket
import http.client

import requests
import urllib3
from requests.adapters import BaseAdapter, HTTPAdapter

INT_TYPES = ["uint8", "sint8", "uint16", "sint16", "uint32", "sint32",
             "uint64", "sint64"]
REAL_TYPES = ["real32", "real64"]
NUM_TYPES = INT_TYPES + REAL_TYPES
RANGE = {"uint8": (0, 2**8 - 1), "sint8": (-2**7, 2**7 - 1),
         "uint16": (0, 2**16 - 1), "sint16": (-2**15, 2**15 - 1),
         "uint32": (0, 2**32 - 1), "sint32": (-2**31, 2**31 - 1),
         "uint64": (0, 2**64 - 1), "sint64": (-2**63, 2**63 - 1)}


class NotRenderable(Exception):
    """The cell cannot be rendered for this operation (site not present)."""


# ---------------------------------------------------------------------------
# XML nodes
# ---------------------------------------------------------------------------

def esc_text(s):
    return s.replace("&", "&amp;").replace("<", "&lt;").replace(">", "&gt;")


def esc_attr(s):
    return (s.replace("&", "&amp;").replace("<", "&lt;")
            .replace('"', "&quot;").replace("\n", "&#10;")
            .replace("\t", "&#9;").replace("\r", "&#13;"))


class E:
    """XML element: name, ordered attribute dict, children (E or str)."""
    __slots__ = ("name", "attrs", "kids")

    def __init__(self, name, attrs=None, kids=None):
        self.name = name
        self.attrs = dict(attrs or {})
        if kids is None:
            kids = []
        elif isinstance(kids, (str, E)):
            kids = [kids]
        self.kids = list(kids)

    def ser(self, rng=None):
        """Serialise (iteratively: documents may be nested very deeply)."""
        out = []
        stack = [self]
        while stack:
            x = stack.pop()
            if isinstance(x, str):
                out.append(x)
                continue
            items = list(x.attrs.items())
            if rng is not None and len(items) > 1 and rng.random() < 0.5:
                rng.shuffle(items)
            a = "".join(' %s="%s"' % (k, esc_attr(v)) for k, v in items)
            if not x.kids:
                if rng is not None and rng.random() < 0.3:
                    out.append("<%s%s></%s>" % (x.name, a, x.name))
                else:
                    out.append("<%s%s/>" % (x.name, a))
                continue
            out.append("<%s%s>" % (x.name, a))
            parts = []
            only_elems = all(isinstance(k, E) for k in x.kids)
            for k in x.kids:
                if isinstance(k, E):
                    if only_elems and rng is not None and rng.random() < 0.15:
                        parts.append(rng.choice(["\n", " ", "\n  ", "\t"]))
                    parts.append(k)
                else:
                    parts.append(esc_text(k))
            parts.append("</%s>" % x.name)
            stack.extend(reversed(parts))
        return "".join(out)

    def copy(self):
        root = E(self.name, self.attrs)
        stack = [(self, root)]
        while stack:
            src, dst = stack.pop()
            for k in src.kids:
                if isinstance(k, E):
                    c = E(k.name, k.attrs)
                    dst.kids.append(c)
                    stack.append((k, c))
                else:
                    dst.kids.append(k)
        return root

    def walk(self):
        """Every element (pre-order)."""
        out = []
        stack = [self]
        while stack:
            x = stack.pop()
            out.append(x)
            stack.extend(reversed([k for k in x.kids if isinstance(k, E)]))
        return out

    def walk_parents(self):
        """(parent, index, element) for every non-root element."""
        out = []
        stack = [self]
        while stack:
            x = stack.pop()
            for i, k in enumerate(x.kids):
                if isinstance(k, E):
                    out.append((x, i, k))
                    stack.append(k)
        return out

    def find(self, *names):
        return [e for e in self.walk() if e.name in names]

    def elems(self):
        return [k for k in self.kids if isinstance(k, E)]


def V(text):
    return E("VALUE", None, [text] if text != "" else [])


# ---------------------------------------------------------------------------
# valid content
# ---------------------------------------------------------------------------

STR_POOL = ["", "a", "Fritz & <the cat>", "x y", " lead", "äö",
            "\U00010122", "]]>", "&amp;", "line1\nline2", "tab\there", "'q\"",
            "0", "true", "12345678901234567890123456789"]
NAME_POOL = ["P1", "Name", "caption", "InstanceID", "p_2", "Value", "X"]
CLS_POOL = ["CIM_Foo", "PyWBEM_Person", "c1", "CIM_ComputerSystem", "X_y"]
NS_POOL = [["root", "cimv2"], ["interop"], ["root"], ["a", "b", "c"]]
HOST_POOL = ["srv", "10.1.2.3:5989", "[::1]", "Host.example.com:5988"]
DT_POOL = ["20140924193040.654321+120", "20140924193040.654321-000",
           "00000183132542.234567:000", "20140924193040.******+000",
           "2014092419****.******+000", "99991231115959.999999+999"]


class Gen:
    """Random valid CIM-XML content."""

    def __init__(self, rng):
        self.rng = rng
        self.n = 0

    def case(self, s):
        r = self.rng.random()
        if r < 0.7:
            return s
        if r < 0.85:
            return s.upper()
        return s.lower()

    def uniq(self, base):
        self.n += 1
        return "%s%d" % (base, self.n)

    def cls(self):
        return self.case(self.rng.choice(CLS_POOL))

    def good_text(self, ty):
        rng = self.rng
        if ty == "string":
            return rng.choice(STR_POOL)
        if ty == "boolean":
            return rng.choice(["true", "false", "TRUE", "False", " true "])
        if ty == "datetime":
            return rng.choice(DT_POOL)
        if ty == "char16":
            return rng.choice(["a", "Z", "ä", " ", "&", "￮"])
        if ty in INT_TYPES:
            lo, hi = RANGE[ty]
            v = rng.choice([lo, hi, 0, 1, hi // 2, lo // 2 if lo else 7])
            r = rng.random()
            if r < 0.15:
                return ("-0x%X" % -v) if v < 0 else ("0x%x" % v)
            if r < 0.25:
                return " %d " % v
            if r < 0.30 and v >= 0:
                return "+%d" % v
            return str(v)
        if ty in REAL_TYPES:
            return rng.choice(["0", "1.5", "-1.5", "1.0E+2", "3e-5", "INF",
                               "-INF", "NaN", ".5", "5.", " 2.5 ", "1e400"
                               if ty == "real64" else "1e30", "42"])
        raise AssertionError(ty)

    # -- naming -------------------------------------------------------------
    def localnamespacepath(self):
        return E("LOCALNAMESPACEPATH", None,
                 [E("NAMESPACE", {"NAME": self.case(c)})
                  for c in self.rng.choice(NS_POOL)])

    def namespacepath(self):
        return E("NAMESPACEPATH", None,
                 [E("HOST", None, [self.rng.choice(HOST_POOL)]),
                  self.localnamespacepath()])

    def classname(self):
        return E("CLASSNAME", {"NAME": self.cls()})

    def keyvalue(self, depth=0):
        rng = self.rng
        r = rng.random()
        if r < 0.3:
            a = {}
            if rng.random() < 0.6:
                a["VALUETYPE"] = "string"
            if rng.random() < 0.5:
                a["TYPE"] = "string"
            return E("KEYVALUE", a, [rng.choice(STR_POOL[1:])])
        if r < 0.55:
            ty = rng.choice(NUM_TYPES)
            a = {"VALUETYPE": "numeric"}
            if rng.random() < 0.7:
                a["TYPE"] = ty
            txt = self.good_text(ty)
            return E("KEYVALUE", a, [txt])
        if r < 0.7:
            a = {"VALUETYPE": "boolean"}
            if rng.random() < 0.5:
                a["TYPE"] = "boolean"
            return E("KEYVALUE", a, [rng.choice(["true", "FALSE"])])
        if r < 0.8:
            return E("KEYVALUE", {"VALUETYPE": "string", "TYPE": "datetime"},
                     [rng.choice(DT_POOL)])
        if r < 0.9 and depth < 2:
            return self.value_reference(depth + 1, inst_only=True)
        return E("KEYVALUE", {"TYPE": ""} if rng.random() < 0.3 else {},
                 ["v%d" % rng.randint(0, 99)])

    def instancename(self, depth=0, nkeys=None):
        rng = self.rng
        if nkeys is None:
            nkeys = rng.choice([1, 1, 2, 3])
        kbs = [E("KEYBINDING", {"NAME": self.uniq("k")}, [self.keyvalue(depth)])
               for _ in range(nkeys)]
        return E("INSTANCENAME", {"CLASSNAME": self.cls()}, kbs)

    def localinstancepath(self, depth=0):
        return E("LOCALINSTANCEPATH", None,
                 [self.localnamespacepath(), self.instancename(depth)])

    def instancepath(self, depth=0):
        return E("INSTANCEPATH", None,
                 [self.namespacepath(), self.instancename(depth)])

    def classpath(self):
        return E("CLASSPATH", None, [self.namespacepath(), self.classname()])

    def localclasspath(self):
        return E("LOCALCLASSPATH", None,
                 [self.localnamespacepath(), self.classname()])

    def value_reference(self, depth=0, inst_only=False):
        r = self.rng.random()
        if inst_only:
            r *= 0.75
        if r < 0.4:
            c = self.instancename(depth)
        elif r < 0.6:
            c = self.instancepath(depth)
        elif r < 0.75:
            c = self.localinstancepath(depth)
        elif r < 0.85:
            c = self.classname()
        elif r < 0.93:
            c = self.classpath()
        else:
            c = self.localclasspath()
        return E("VALUE.REFERENCE", None, [c])

    # -- qualifiers / properties -----------------------------------------------
    def flavors(self):
        a = {}
        for f in ("OVERRIDABLE", "TOSUBCLASS", "TOINSTANCE", "TRANSLATABLE"):
            if self.rng.random() < 0.25:
                a[f] = self.rng.choice(["true", "false"])
        return a

    def qualifier(self, ty=None, text=None, array=None):
        rng = self.rng
        if ty is None:
            ty = rng.choice(["string", "boolean", "uint32", "sint64",
                             "real32", "datetime", "char16"])
        if array is None:
            array = rng.random() < 0.25
        a = {"NAME": self.uniq("Q"), "TYPE": ty}
        a.update(self.flavors())
        if rng.random() < 0.2:
            a["PROPAGATED"] = rng.choice(["true", "false"])
        if rng.random() < 0.1:
            a["xml:lang"] = "en"
        if array:
            vals = [V(self.good_text(ty)) for _ in range(rng.randint(0, 3))]
            if text is not None:
                vals.insert(rng.randint(0, len(vals)), V(text))
            kid = E("VALUE.ARRAY", None, vals)
        else:
            kid = V(self.good_text(ty) if text is None else text)
        return E("QUALIFIER", a, [kid])

    def quals(self, pmax=0.3):
        return [self.qualifier() for _ in range(
            self.rng.choice([0, 0, 1, 2]) if self.rng.random() < pmax * 2
            else 0)]

    def prop_attrs(self, name=None):
        rng = self.rng
        a = {"NAME": name or self.uniq(rng.choice(NAME_POOL))}
        if rng.random() < 0.2:
            a["CLASSORIGIN"] = self.cls()
        if rng.random() < 0.2:
            a["PROPAGATED"] = rng.choice(["true", "false"])
        return a

    def property(self, ty=None, text=None, null=False, depth=0):
        rng = self.rng
        if ty is None:
            ty = rng.choice(["string", "string", "boolean", "datetime",
                             "char16"] + NUM_TYPES)
        a = self.prop_attrs()
        a["TYPE"] = ty
        kids = self.quals()
        if not null and (text is not None or rng.random() < 0.85):
            kids.append(V(self.good_text(ty) if text is None else text))
        return E("PROPERTY", a, kids)

    def property_array(self, ty=None, text=None, with_null=False, size=None):
        rng = self.rng
        if ty is None:
            ty = rng.choice(["string", "boolean", "datetime", "char16"] +
                            NUM_TYPES)
        a = self.prop_attrs()
        a["TYPE"] = ty
        if size is not None:
            a["ARRAYSIZE"] = size
        elif rng.random() < 0.15:
            a["ARRAYSIZE"] = str(rng.randint(1, 9))
        kids = self.quals()
        vals = [V(self.good_text(ty)) for _ in range(rng.randint(0, 3))]
        if text is not None:
            vals.insert(rng.randint(0, len(vals)), V(text))
        if with_null:
            vals.insert(rng.randint(0, len(vals)), E("VALUE.NULL"))
        if vals or rng.random() < 0.8:
            kids.append(E("VALUE.ARRAY", None, vals))
        return E("PROPERTY.ARRAY", a, kids)

    def property_reference(self, depth=0):
        rng = self.rng
        a = self.prop_attrs()
        if rng.random() < 0.5:
            a["REFERENCECLASS"] = self.cls()
        kids = self.quals()
        if rng.random() < 0.85:
            kids.append(self.value_reference(depth + 1))
        return E("PROPERTY.REFERENCE", a, kids)

    def embedded_property(self, depth=0, inner=None, kind=None, attr=None,
                          array=False):
        rng = self.rng
        kind = kind or rng.choice(["instance", "object"])
        if inner is None:
            if kind == "object" and rng.random() < 0.4:
                inner = self.klass(depth + 1).ser(rng)
            else:
                inner = self.instance(depth + 1).ser(rng)
        a = self.prop_attrs()
        a["TYPE"] = "string"
        a[attr or rng.choice(["EmbeddedObject", "EMBEDDEDOBJECT"])] = kind
        if array:
            return E("PROPERTY.ARRAY", a,
                     [E("VALUE.ARRAY", None, [V(inner)])])
        return E("PROPERTY", a, [V(inner)])

    def props(self, depth=0, n=None):
        rng = self.rng
        if n is None:
            n = rng.choice([0, 1, 2, 3, 5])
        out = []
        for _ in range(n):
            r = rng.random()
            if r < 0.55:
                out.append(self.property())
            elif r < 0.75:
                out.append(self.property_array())
            elif r < 0.88 and depth < 2:
                out.append(self.property_reference(depth))
            elif depth < 2:
                out.append(self.embedded_property(depth))
            else:
                out.append(self.property())
        return out

    def instance(self, depth=0, n=None):
        a = {"CLASSNAME": self.cls()}
        if self.rng.random() < 0.1:
            a["xml:lang"] = "en-US"
        return E("INSTANCE", a, self.quals() + self.props(depth, n))

    def parameter(self):
        rng = self.rng
        r = rng.random()
        q = self.quals()
        if r < 0.4:
            return E("PARAMETER", {"NAME": self.uniq("a"),
                                   "TYPE": rng.choice(NUM_TYPES + ["string"])},
                     q)
        if r < 0.6:
            a = {"NAME": self.uniq("a"), "TYPE": rng.choice(NUM_TYPES)}
            if rng.random() < 0.5:
                a["ARRAYSIZE"] = str(rng.randint(1, 20))
            return E("PARAMETER.ARRAY", a, q)
        if r < 0.8:
            a = {"NAME": self.uniq("a")}
            if rng.random() < 0.5:
                a["REFERENCECLASS"] = self.cls()
            return E("PARAMETER.REFERENCE", a, q)
        a = {"NAME": self.uniq("a")}
        if rng.random() < 0.5:
            a["ARRAYSIZE"] = str(rng.randint(1, 20))
        return E("PARAMETER.REFARRAY", a, q)

    def method(self):
        rng = self.rng
        a = {"NAME": self.uniq("M"), "TYPE": rng.choice(NUM_TYPES + ["string"])}
        if rng.random() < 0.2:
            a["CLASSORIGIN"] = self.cls()
        if rng.random() < 0.2:
            a["PROPAGATED"] = "false"
        return E("METHOD", a, self.quals() +
                 [self.parameter() for _ in range(rng.randint(0, 3))])

    def klass(self, depth=0):
        rng = self.rng
        a = {"NAME": self.cls()}
        if rng.random() < 0.5:
            a["SUPERCLASS"] = self.cls()
        kids = self.quals(0.5) + self.props(max(depth, 1))
        kids += [self.method() for _ in range(rng.choice([0, 1, 2]))]
        return E("CLASS", a, kids)

    def qualifier_declaration(self, ty=None, text=None, array=None, size=None):
        rng = self.rng
        if ty is None:
            ty = rng.choice(["string", "boolean", "uint32", "sint8", "real64",
                             "datetime", "char16"])
        if array is None:
            array = rng.random() < 0.3
        a = {"NAME": self.uniq("QD"), "TYPE": ty}
        if array or rng.random() < 0.3:
            a["ISARRAY"] = "true" if array else "false"
        if array and size is None and rng.random() < 0.3:
            size = str(rng.randint(1, 9))
        if size is not None:
            a["ARRAYSIZE"] = size
        a.update(self.flavors())
        kids = []
        if rng.random() < 0.7:
            sc = {}
            for s in ("CLASS", "ASSOCIATION", "REFERENCE", "PROPERTY",
                      "METHOD", "PARAMETER", "INDICATION"):
                if rng.random() < 0.4:
                    sc[s] = rng.choice(["true", "false"])
            kids.append(E("SCOPE", sc))
        if text is not None or rng.random() < 0.6:
            if array:
                vals = [V(self.good_text(ty))
                        for _ in range(rng.randint(0, 2))]
                if text is not None:
                    vals.append(V(text))
                kids.append(E("VALUE.ARRAY", None, vals))
            else:
                kids.append(V(self.good_text(ty) if text is None else text))
        return E("QUALIFIER.DECLARATION", a, kids)

    # -- result elements --------------------------------------------------------
    def irv_elem(self, kind):
        """One valid child element of IRETURNVALUE of the given element kind."""
        if kind == "CLASSNAME":
            return self.classname()
        if kind == "INSTANCENAME":
            return self.instancename()
        if kind == "VALUE":
            return V(self.rng.choice(STR_POOL))
        if kind == "VALUE.OBJECTWITHPATH":
            return self.objwithpath(self.rng.random() < 0.5)
        if kind == "VALUE.OBJECTWITHPATH/i":
            return self.objwithpath(True)
        if kind == "VALUE.OBJECTWITHPATH/c":
            return self.objwithpath(False)
        if kind == "VALUE.OBJECTWITHLOCALPATH":
            return self.objwithlocalpath(self.rng.random() < 0.5)
        if kind == "VALUE.OBJECTWITHLOCALPATH/i":
            return self.objwithlocalpath(True)
        if kind == "VALUE.OBJECTWITHLOCALPATH/c":
            return self.objwithlocalpath(False)
        if kind == "VALUE.OBJECT":
            return E("VALUE.OBJECT", None,
                     [self.instance() if self.rng.random() < 0.5
                      else self.klass()])
        if kind == "VALUE.OBJECT/i":
            return E("VALUE.OBJECT", None, [self.instance()])
        if kind == "VALUE.OBJECT/c":
            return E("VALUE.OBJECT", None, [self.klass()])
        if kind == "OBJECTPATH":
            return E("OBJECTPATH", None,
                     [self.instancepath() if self.rng.random() < 0.5
                      else self.classpath()])
        if kind == "OBJECTPATH/i":
            return E("OBJECTPATH", None, [self.instancepath()])
        if kind == "OBJECTPATH/c":
            return E("OBJECTPATH", None, [self.classpath()])
        if kind == "QUALIFIER.DECLARATION":
            return self.qualifier_declaration()
        if kind == "VALUE.ARRAY":
            return E("VALUE.ARRAY", None, [V("a"), V("b")])
        if kind == "VALUE.REFERENCE":
            return self.value_reference()
        if kind == "CLASS":
            return self.klass()
        if kind == "INSTANCE":
            return self.instance()
        if kind == "INSTANCEPATH":
            return self.instancepath()
        if kind == "VALUE.NAMEDINSTANCE":
            return E("VALUE.NAMEDINSTANCE", None,
                     [self.instancename(), self.instance()])
        if kind == "VALUE.INSTANCEWITHPATH":
            return E("VALUE.INSTANCEWITHPATH", None,
                     [self.instancepath(), self.instance()])
        if kind == "VALUE.NAMEDOBJECT":
            return E("VALUE.NAMEDOBJECT", None,
                     [self.instancename(), self.instance()])
        if kind == "UNKNOWN":
            return E("FOO", {"NAME": "x"})
        raise AssertionError(kind)

    def objwithpath(self, inst):
        if inst:
            return E("VALUE.OBJECTWITHPATH", None,
                     [self.instancepath(), self.instance()])
        return E("VALUE.OBJECTWITHPATH", None, [self.classpath(), self.klass()])

    def objwithlocalpath(self, inst):
        if inst:
            return E("VALUE.OBJECTWITHLOCALPATH", None,
                     [self.localinstancepath(), self.instance()])
        return E("VALUE.OBJECTWITHLOCALPATH", None,
                 [self.localclasspath(), self.klass()])


IRV_KINDS = ["CLASSNAME", "INSTANCENAME", "VALUE", "VALUE.OBJECTWITHPATH/i",
             "VALUE.OBJECTWITHPATH/c", "VALUE.OBJECTWITHLOCALPATH/i",
             "VALUE.OBJECTWITHLOCALPATH/c", "VALUE.OBJECT/i", "VALUE.OBJECT/c",
             "OBJECTPATH/i", "OBJECTPATH/c", "QUALIFIER.DECLARATION",
             "VALUE.ARRAY", "VALUE.REFERENCE", "CLASS", "INSTANCE",
             "INSTANCEPATH", "VALUE.NAMEDINSTANCE", "VALUE.INSTANCEWITHPATH",
             "VALUE.NAMEDOBJECT", "UNKNOWN"]

# shape -> (IRETURNVALUE child kind, exactly one?)  (None: no IRETURNVALUE)
SHAPE_IRV = {
    "void": None, "export": None, "method": None,
    "inst": ("INSTANCE", True), "instname": ("INSTANCENAME", True),
    "namedinsts": ("VALUE.NAMEDINSTANCE", False),
    "instnames": ("INSTANCENAME", False),
    "objs_i": ("VALUE.OBJECTWITHPATH/i", False),
    "objs_c": ("VALUE.OBJECTWITHPATH/c", False),
    "paths_i": ("OBJECTPATH/i", False), "paths_c": ("OBJECTPATH/c", False),
    "queryobjs": ("VALUE.OBJECT/i", False),
    "pull_inst": ("VALUE.INSTANCEWITHPATH", False),
    "pull_path": ("INSTANCEPATH", False),
    "pull_query": ("INSTANCE", False),
    # OpenQueryInstances / IterQueryInstances with ReturnQueryResultClass=True
    "pull_queryc": ("INSTANCE", False),
    "classes": ("CLASS", False), "classnames": ("CLASSNAME", False),
    "class": ("CLASS", True),
    "qualdecls": ("QUALIFIER.DECLARATION", False),
    "qualdecl": ("QUALIFIER.DECLARATION", True),
}
SHAPES = sorted(SHAPE_IRV)
PULL_SHAPES = ("pull_inst", "pull_path", "pull_query", "pull_queryc")
QRC_SHAPES = ("pull_query", "pull_queryc")
# shapes whose result is a list of any number of objects
LIST_SHAPES = ("namedinsts", "instnames", "objs_i", "objs_c", "paths_i",
               "paths_c", "queryobjs", "classes", "classnames",
               "qualdecls") + PULL_SHAPES


def pull_params(gen, eos=None, ctx=True):
    rng = gen.rng
    if eos is None:
        eos = rng.random() < 0.5
    out = []
    if ctx or not eos:
        a = {"NAME": "EnumerationContext"}
        if rng.random() < 0.8:
            a["PARAMTYPE"] = "string"
        out.append(E("PARAMVALUE", a, [V("ctx-%d" % rng.randint(1, 999))]))
    a = {"NAME": "EndOfSequence"}
    if rng.random() < 0.8:
        a["PARAMTYPE"] = "boolean"
    txt = ("TRUE" if eos else "FALSE")
    out.append(E("PARAMVALUE", a, [V(gen.case(txt))]))
    if rng.random() < 0.5:
        out.reverse()
    return out


def method_outparam(gen, ty=None, text=None, array=False, with_null=False):
    rng = gen.rng
    r = rng.random()
    name = gen.uniq("Out")
    if ty is None and r < 0.15:
        return E("PARAMVALUE", {"NAME": name, "PARAMTYPE": "reference"},
                 [gen.value_reference()])
    if ty is None and r < 0.25:
        return E("PARAMVALUE", {"NAME": name, "PARAMTYPE": "reference"},
                 [E("VALUE.REFARRAY", None,
                    [gen.value_reference() for _ in range(rng.randint(0, 2))])])
    if ty is None and r < 0.35:
        return E("PARAMVALUE", {"NAME": name, "PARAMTYPE": "string",
                                "EmbeddedObject": "instance"},
                 [V(gen.instance(1).ser(rng))])
    if ty is None and r < 0.4:
        return E("PARAMVALUE", {"NAME": name, "PARAMTYPE": "string"}, [])
    if ty is None:
        # hex spellings are left out on purpose for method values: see
        # notes (cimvalue() does not take them); they are a defect class
        ty = rng.choice(["string", "boolean", "datetime", "char16",
                         "uint8", "sint32", "uint64", "real64"])
        array = rng.random() < 0.3
    a = {"NAME": name}
    a[rng.choice(["PARAMTYPE", "PARAMTYPE", "TYPE"])] = ty

    def good():
        while True:
            t = gen.good_text(ty)
            if ty in NUM_TYPES and (("x" in t.lower()) or t.strip() != t
                                    and ty in INT_TYPES):
                continue
            return t
    if array:
        vals = [V(good()) for _ in range(rng.randint(0, 3))]
        if text is not None:
            vals.insert(rng.randint(0, len(vals)), V(text))
        if with_null:
            vals.insert(rng.randint(0, len(vals)), E("VALUE.NULL"))
        return E("PARAMVALUE", a, [E("VALUE.ARRAY", None, vals)])
    return E("PARAMVALUE", a, [V(good() if text is None else text)])


def baseline(shape, wire_name, gen, need_objects=False, eos=None):
    """Valid response document (root element CIM) for an operation of the
    given result shape."""
    rng = gen.rng
    kids = []
    if shape == "method":
        r = rng.random()
        if r < 0.8:
            ty = rng.choice(["uint32", "uint8", "sint64", "string", "boolean",
                             "real32"])
            txt = gen.good_text(ty)
            while ty in NUM_TYPES and ("x" in txt.lower() or
                                       txt.strip() != txt or "+" in txt):
                txt = gen.good_text(ty)
            kids.append(E("RETURNVALUE", {"PARAMTYPE": ty}, [V(txt)]))
        elif r < 0.9:
            kids.append(E("RETURNVALUE", {"PARAMTYPE": "reference"},
                          [gen.value_reference()]))
        for _ in range(rng.choice([0, 1, 2, 3])):
            kids.append(method_outparam(gen))
        resp = E("METHODRESPONSE", {"NAME": wire_name}, kids)
        rsp = E("SIMPLERSP", None, [resp])
    elif shape == "export":
        resp = E("EXPMETHODRESPONSE", {"NAME": wire_name}, kids)
        rsp = E("SIMPLEEXPRSP", None, [resp])
    else:
        spec = SHAPE_IRV[shape]
        if spec is not None:
            kind, single = spec
            if shape == "queryobjs":
                kind = rng.choice(["VALUE.OBJECT/i",
                                   "VALUE.OBJECTWITHLOCALPATH/i",
                                   "VALUE.OBJECTWITHPATH/i"])
            if single:
                n = 1
            else:
                n = rng.choice([0, 1, 2, 3])
                if need_objects and n == 0:
                    n = 1
            objs = [gen.irv_elem(kind) for _ in range(n)]
            if objs or single or rng.random() < 0.7 or \
                    shape not in PULL_SHAPES and rng.random() < 0.5:
                kids.append(E("IRETURNVALUE", None, objs))
        if shape in PULL_SHAPES:
            pv = pull_params(gen, eos=eos, ctx=rng.random() < 0.7)
            if wire_name == "OpenQueryInstances":
                pv.insert(rng.randint(0, len(pv)),
                          E("PARAMVALUE", {"NAME": "QueryResultClass"},
                            [gen.klass()]))
            if rng.random() < 0.2:
                kids = pv + kids
            else:
                kids = kids + pv
        resp = E("IMETHODRESPONSE", {"NAME": wire_name}, kids)
        rsp = E("SIMPLERSP", None, [resp])
    msg = E("MESSAGE", {"ID": rng.choice(["1001", "1001", "42", "x"]),
                        "PROTOCOLVERSION": rng.choice(["1.0", "1.0", "1.4",
                                                       "1.x"])}, [rsp])
    return E("CIM", {"CIMVERSION": rng.choice(["2.0", "2.0", "2.54.1"]),
                     "DTDVERSION": rng.choice(["2.0", "2.4", "2.3.1"])},
             [msg])


# ---------------------------------------------------------------------------
# Part 2: defects
# ---------------------------------------------------------------------------

INST_SITES = ["prop", "proparr", "qual", "qualarr", "emb", "key", "keyuntyped",
              "obj", "ref"]
CLASS_SITES = INST_SITES + ["paramarr", "paramrefarr", "param", "cls",
                            "method"]
PATH_SITES = ["key", "keyuntyped", "ref"]
SHAPE_SITES = {
    "void": [], "export": [], "classnames": [], "paths_c": ["path"],
    "inst": INST_SITES, "namedinsts": INST_SITES,
    "objs_i": INST_SITES + ["path"],
    "queryobjs": INST_SITES, "pull_inst": INST_SITES + ["path"],
    "pull_query": INST_SITES, "pull_queryc": INST_SITES,
    "instname": PATH_SITES, "instnames": PATH_SITES,
    "paths_i": PATH_SITES + ["path"], "pull_path": PATH_SITES + ["path"],
    "class": CLASS_SITES, "classes": CLASS_SITES,
    "objs_c": CLASS_SITES + ["path"],
    "qualdecl": ["qdval", "qdarr"], "qualdecls": ["qdval", "qdarr"],
    "method": ["retval", "outparam", "outparamarr", "refarr"] + INST_SITES,
}
# an ERROR element can carry INSTANCE children: with an error-stage defect in
# the cell these sites exist for every shape
ERROR_SITES = INST_SITES

NUM_CLS = ["dec", "neg", "hex", "inf", "ninf", "nan", "e999", "oor", "empty",
           "ws", "frac", "alpha", "plus", "usc", "udig", "long", "junk",
           # huge magnitudes: integer lexemes int() accepts (decimal: below
           # the 4300 digit limit of int(); hex: no limit) but no float /
           # CIM integer can hold; mantissa / exponent of many digits
           "big", "hexbig", "hexlong", "fracbig", "expneg"]


def num_text(ty, cls, rng):
    lo, hi = RANGE.get(ty, (-10, 10))
    if cls == "dec":
        return str(rng.choice([0, 1, hi, 7]))
    if cls == "neg":
        return str(rng.choice([-1, lo if lo else -5]))
    if cls == "hex":
        return rng.choice(["0x1f", "0X7F", "0x0", "+0x10"])
    if cls == "inf":
        return rng.choice(["INF", "inf", "Infinity", "+INF"])
    if cls == "ninf":
        return rng.choice(["-INF", "-inf"])
    if cls == "nan":
        return rng.choice(["NaN", "nan", "NAN"])
    if cls == "e999":
        return rng.choice(["1e999", "1E+999", "-1e999"])
    if cls == "oor":
        if ty in RANGE:
            return str(rng.choice([hi + 1, lo - 1, hi * 2 + 5, 2**64, -2**63 - 1]))
        return "1e39" if ty == "real32" else "1e309"
    if cls == "empty":
        return ""
    if cls == "ws":
        return rng.choice([" ", "\n", "\t  "])
    if cls == "frac":
        return rng.choice(["1.5", "0.0", "2.", ".5", "1e1"])
    if cls == "alpha":
        return rng.choice(["x", "abc", "0x", "--1", "1-", "truE", "None"])
    if cls == "plus":
        return "+%d" % rng.choice([0, 5])
    if cls == "usc":
        return rng.choice(["1_0", "1_1"])
    if cls == "udig":
        return rng.choice(["٣", "１２", "५"])
    if cls == "long":
        return rng.choice(["9" * 5000, "1" + "0" * 4400, "0" * 4500 + "1"])
    if cls == "junk":
        # a number followed by junk (decimal and hex spelling)
        return rng.choice(["5 x", "5;", "1,000", "1 2", "5\u00a0",
                           "0x1Fzz", "0x10 x", "-0x8&", "0X7F;", "0x1,0"])
    if cls == "big":
        n = rng.choice([310, 400, 1000, 4299])
        t = rng.choice(["9" * n, "1" + "0" * (n - 1),
                        "".join(rng.choice("123456789") for _ in range(n))])
        return rng.choice(["", "", "-", "-", "+", " "]) + t
    if cls in ("hexbig", "hexlong"):
        # hexbig: above every float, decimal form below 4300 digits;
        # hexlong: decimal form above the 4300 digit limit of str(int)
        n = rng.choice([300, 400, 3500] if cls == "hexbig" else [3600, 5000])
        return rng.choice(["0x", "0X", "-0x", "+0x"]) + \
            rng.choice(["f" * n, "1" + "0" * (n - 1), "7F" * (n // 2)])
    if cls == "fracbig":
        if rng.random() < 0.5:
            n = rng.choice([310, 400, 5000])
            return rng.choice(["9" * n + ".0", "9" * n + "e0",
                               "1" + "0" * n + ".", "-" + "9" * n + ".5",
                               "9." + "9" * n + "e400"])
        return rng.choice(["1e", "1E+", "-2.5e", "9E"]) + \
            rng.choice(["400", "9" * 30, "1" + "0" * 400, "9" * 5000])
    if cls == "expneg":
        return rng.choice(["1e-", "1E-", "-2.5e-", "0.0001E-"]) + \
            rng.choice(["400", "9" * 30, "1" + "0" * 400, "9" * 5000])
    raise AssertionError(cls)


class Ctx:
    def __init__(self, shape, wire, rng, tree, gen):
        self.shape = shape
        self.wire = wire
        self.rng = rng
        self.gen = gen
        self.tree = tree
        self.status = 200
        self.reason = "OK"
        self.headers = []            # list of (name, value)
        self.hdr_tx = []             # functions (final body) -> [(name, value)]
        self.byte_tx = []            # functions bytes -> bytes
        self.raw_body = None         # overrides the tree
        self.exc = None              # transport exception (instance)
        self.body_reader = None      # file-like replacing the body stream
        self.redirect = None
        self.decl = True

    # hosts -----------------------------------------------------------------
    def resp(self):
        r = self.tree.find("IMETHODRESPONSE", "METHODRESPONSE",
                           "EXPMETHODRESPONSE")
        if not r:
            raise NotRenderable("no response element")
        return r[0]

    def irv(self):
        r = [k for k in self.resp().elems() if k.name == "IRETURNVALUE"]
        return r[0] if r else None

    def pick(self, elems):
        if not elems:
            raise NotRenderable("no host element")
        return self.rng.choice(elems)

    def host_obj(self, want=("INSTANCE", "CLASS")):
        hs = self.tree.find(*want)
        if hs:
            return self.rng.choice(hs)
        err = self.tree.find("ERROR")
        if err and "INSTANCE" in want:
            inst = self.gen.instance(n=1)
            err[0].kids.append(inst)
            return inst
        if self.shape == "method" and "INSTANCE" in want:
            rs = self.tree.find("METHODRESPONSE")
            if rs:
                inst = self.gen.instance(n=1)
                rs[0].kids.append(E("PARAMVALUE", {"NAME": self.gen.uniq("Oi"),
                                                   "PARAMTYPE": "string"},
                                    [inst]))
                return inst
        raise NotRenderable("no INSTANCE/CLASS host")

    def host_instancename(self):
        hs = [e for e in self.tree.find("INSTANCENAME")
              if all(k.name == "KEYBINDING" for k in e.elems())]
        if hs:
            return self.rng.choice(hs)
        if self.shape == "method" and not self.tree.find("ERROR"):
            rs = self.tree.find("METHODRESPONSE")
            if rs:
                inn = self.gen.instancename(1)
                rs[0].kids.append(E("PARAMVALUE", {"NAME": self.gen.uniq("Or"),
                                                   "PARAMTYPE": "reference"},
                                    [E("VALUE.REFERENCE", None, [inn])]))
                return inn
        obj = self.host_obj()
        inn = self.gen.instancename(1)
        pr = E("PROPERTY.REFERENCE", {"NAME": self.gen.uniq("Ref")},
               [E("VALUE.REFERENCE", None, [inn])])
        self.add_prop(obj, pr)
        return inn

    def add_prop(self, obj, pr):
        # keep METHOD children of a CLASS last
        idx = len(obj.kids)
        for i, k in enumerate(obj.kids):
            if isinstance(k, E) and k.name == "METHOD":
                idx = i
                break
        obj.kids.insert(idx, pr)

    def host_qualified(self):
        return self.pick(self.tree.find(
            "INSTANCE", "CLASS", "PROPERTY", "PROPERTY.ARRAY",
            "PROPERTY.REFERENCE", "METHOD", "PARAMETER", "PARAMETER.ARRAY",
            "PARAMETER.REFERENCE", "PARAMETER.REFARRAY") or [self.host_obj()])

    def host_method(self):
        ms = self.tree.find("METHOD")
        if ms:
            return self.rng.choice(ms)
        c = self.host_obj(("CLASS",))
        m = self.gen.method()
        c.kids.append(m)
        return m

    # placing a typed value at a site ------------------------------------------
    def place(self, site, ty, text, attrs=None, null=False):
        """Insert a fresh typed value element at `site`.  ty None: no TYPE
        attribute at all."""
        g = self.gen
        attrs = attrs or {}

        def tyattr(a, key="TYPE"):
            if ty is not None:
                a[key] = ty
            a.update(attrs)
            return a
        if site == "prop":
            a = tyattr({"NAME": g.uniq("Pz")})
            kid = E("VALUE.NULL") if null else V(text)
            el = E("PROPERTY", a, [kid])
            self.add_prop(self.host_obj(), el)
            return el
        elif site == "proparr":
            a = tyattr({"NAME": g.uniq("Pz")})
            vals = [V(g.good_text(ty if ty in NUM_TYPES + ["string", "boolean",
                                                           "datetime", "char16"]
                                  else "string"))
                    for _ in range(self.rng.randint(0, 2))]
            vals.insert(self.rng.randint(0, len(vals)),
                        E("VALUE.NULL") if null else V(text))
            el = E("PROPERTY.ARRAY", a, [E("VALUE.ARRAY", None, vals)])
            self.add_prop(self.host_obj(), el)
            return el
        elif site in ("qual", "qualarr"):
            a = tyattr({"NAME": g.uniq("Qz")})
            if site == "qual":
                kid = E("VALUE.NULL") if null else V(text)
            else:
                vals = [V("1")] if ty in NUM_TYPES and self.rng.random() < 0.5 \
                    else []
                vals.insert(self.rng.randint(0, len(vals)),
                            E("VALUE.NULL") if null else V(text))
                kid = E("VALUE.ARRAY", None, vals)
            el = E("QUALIFIER", a, [kid])
            self.host_qualified().kids.insert(0, el)
            return el
        elif site in ("key", "keyuntyped"):
            a = {"VALUETYPE": "numeric" if (ty in NUM_TYPES or ty is None)
                 else ("boolean" if ty == "boolean" else "string")}
            if site == "key":
                tyattr(a)
            else:
                a.update(attrs)
            if self.rng.random() < 0.3 and "TYPE" in a:
                del a["VALUETYPE"]
            self.host_instancename().kids.append(
                E("KEYBINDING", {"NAME": g.uniq("Kz")},
                  [E("KEYVALUE", a, [text])]))
        elif site in ("qdval", "qdarr"):
            qd = self.pick(self.tree.find("QUALIFIER.DECLARATION"))
            if ty is None:
                qd.attrs.pop("TYPE", None)
            else:
                qd.attrs["TYPE"] = ty
            qd.attrs.update(attrs)
            qd.kids = [k for k in qd.kids
                       if not (isinstance(k, E) and k.name.startswith("VALUE"))]
            if site == "qdval":
                qd.attrs.pop("ISARRAY", None)
                qd.attrs.pop("ARRAYSIZE", None)
                qd.kids.append(E("VALUE.NULL") if null else V(text))
            else:
                qd.attrs["ISARRAY"] = "true"
                vals = [E("VALUE.NULL") if null else V(text)]
                qd.kids.append(E("VALUE.ARRAY", None, vals))
            return qd
        elif site == "retval":
            r = self.resp()
            if r.name != "METHODRESPONSE":
                raise NotRenderable("retval")
            r.kids = [k for k in r.kids if not (isinstance(k, E) and
                                                k.name == "RETURNVALUE")]
            a = tyattr({}, "PARAMTYPE")
            el = E("RETURNVALUE", a, [E("VALUE.NULL") if null else V(text)])
            r.kids.insert(0, el)
            return el
        elif site in ("outparam", "outparamarr"):
            r = self.resp()
            if r.name != "METHODRESPONSE":
                raise NotRenderable("outparam")
            a = tyattr({"NAME": g.uniq("Oz")},
                       self.rng.choice(["PARAMTYPE", "PARAMTYPE", "TYPE"]))
            if site == "outparam":
                kid = E("VALUE.NULL") if null else V(text)
            else:
                vals = [V("1")] if ty in NUM_TYPES and self.rng.random() < 0.5 \
                    else []
                vals.insert(self.rng.randint(0, len(vals)),
                            E("VALUE.NULL") if null else V(text))
                kid = E("VALUE.ARRAY", None, vals)
            el = E("PARAMVALUE", a, [kid])
            r.kids.append(el)
            return el
        elif site == "emb":
            a = tyattr({"NAME": g.uniq("Pe")})
            inner = E("INSTANCE", {"CLASSNAME": g.cls()},
                      [E("PROPERTY", a, [E("VALUE.NULL") if null else V(text)])])
            self.add_prop(self.host_obj(),
                          g.embedded_property(inner=inner.ser(self.rng),
                                              kind="instance"))
        elif site == "param":
            a = tyattr({"NAME": g.uniq("az")})
            self.host_method().kids.append(E("PARAMETER", a))
        else:
            raise NotRenderable("site " + site)


KINDS = {}       # kind -> dict(stage, fn, sites, tys, clss, shapes)


def kind(name, stage, sites=None, tys=None, clss=None, shapes=None, ok=None):
    def deco(fn):
        KINDS[name] = dict(stage=stage, fn=fn, sites=sites, tys=tys,
                           clss=clss, shapes=shapes, ok=ok)
        return fn
    return deco


# -- transport ---------------------------------------------------------------
_POOL = urllib3.connectionpool.HTTPConnectionPool("srv", 5988)


class _FailingBody(io.BytesIO):
    def __init__(self, data, exc):
        super().__init__(data)
        self._exc = exc

    def read(self, *a):
        raise self._exc

    def read1(self, *a):
        raise self._exc

    def readinto(self, b):
        raise self._exc


@kind("t_exc", "transport", clss=["refused", "reset", "disconnected",
                                   "readtimeout", "connecttimeout",
                                   "retrytimeout", "ssl", "urllib3", "proxy",
                                   "chunked", "bodytimeout", "gzip",
                                   "redirloop", "redirbad"])
def t_exc(ctx, d):
    c = d["cls"]
    u3 = urllib3.exceptions
    rq = requests.exceptions
    if c == "refused":
        ctx.exc = rq.ConnectionError(u3.MaxRetryError(
            _POOL, "/cimom", u3.NewConnectionError(
                _POOL, "Failed to establish a new connection: [Errno 111] "
                "Connection refused")))
    elif c == "reset":
        ctx.exc = rq.ConnectionError(u3.ProtocolError(
            "Connection aborted.", ConnectionResetError(104, "reset by peer")))
    elif c == "disconnected":
        ctx.exc = rq.ConnectionError(u3.ProtocolError(
            "Connection aborted.", http.client.RemoteDisconnected(
                "Remote end closed connection without response")))
    elif c == "readtimeout":
        ctx.exc = rq.ReadTimeout(u3.ReadTimeoutError(
            _POOL, "/cimom", "Read timed out. (read timeout=5)"))
    elif c == "connecttimeout":
        ctx.exc = rq.ConnectTimeout(u3.MaxRetryError(
            _POOL, "/cimom", u3.ConnectTimeoutError(
                _POOL, "Connection to srv timed out. (connect timeout=9.99)")))
    elif c == "retrytimeout":
        ctx.exc = rq.ConnectionError(u3.MaxRetryError(
            _POOL, "/cimom", u3.ReadTimeoutError(
                _POOL, "/cimom", "Read timed out. (read timeout=%s)" %
                ctx.rng.choice(["5", "9.99"]))))
    elif c == "ssl":
        ctx.exc = rq.SSLError(u3.MaxRetryError(
            _POOL, "/cimom", u3.SSLError("[SSL: WRONG_VERSION_NUMBER]")))
    elif c == "proxy":
        ctx.exc = rq.ProxyError(u3.MaxRetryError(
            _POOL, "/cimom", u3.ProxyError("Cannot connect to proxy.",
                                           OSError("Tunnel failed"))))
    elif c == "urllib3":
        ctx.exc = ctx.rng.choice([
            u3.ProtocolError("Connection aborted."),
            u3.MaxRetryError(_POOL, "/cimom", u3.ProtocolError("broken")),
            u3.LocationParseError("http://[x")])
    elif c == "chunked":
        ctx.body_reader = lambda data: _FailingBody(
            data, http.client.IncompleteRead(b"abc", 10))
    elif c == "bodytimeout":
        ctx.body_reader = lambda data: _FailingBody(
            data, socket.timeout("timed out"))
    elif c == "gzip":
        ctx.headers.append(("Content-Encoding", ctx.rng.choice(
            ["gzip", "deflate", "gzip, deflate"])))
    elif c == "redirloop":
        ctx.status = ctx.rng.choice([301, 302, 303, 307, 308])
        ctx.reason = "Moved"
        ctx.headers.append(("Location", ctx.rng.choice(
            ["http://srv:5988/cimom", "/cimom", "http://other/"])))
        ctx.redirect = "loop"
    elif c == "redirbad":
        ctx.status = 302
        ctx.reason = "Found"
        ctx.headers.append(("Location", ctx.rng.choice(
            ["http://[bad", "ftp://srv/x", "http://"])))
        ctx.redirect = "bad"
    else:
        raise AssertionError(c)


# -- status ------------------------------------------------------------------
@kind("s_401", "status", clss=["basic", "none", "digest", "multi", "odd"])
def s_401(ctx, d):
    ctx.status, ctx.reason = 401, ctx.rng.choice(["Unauthorized", "", "x y"])
    h = {"basic": 'Basic realm="cimom"', "none": None,
         "digest": 'Digest realm="x", nonce="abc"',
         "multi": 'Negotiate, Basic realm="a, b"',
         "odd": ctx.rng.choice(["", ",", " ", "Basic", ",,Basic x"])}[d["cls"]]
    if h is not None:
        ctx.headers.append(("WWW-Authenticate", h))


@kind("s_err", "status", clss=["403", "404", "500", "501", "503", "400",
                                "204", "201", "206", "301", "304", "100",
                                "999", "0"])
def s_err(ctx, d):
    c = d["cls"]
    ctx.status = int(c)
    ctx.reason = ctx.rng.choice(["Some Reason", "", "Fehler ä"])
    if c in ("204", "304", "100"):
        ctx.raw_body = b""      # these statuses cannot carry content
    # 301 without Location header: requests does not follow


@kind("s_cimerror", "status", clss=["plain", "pgdetail", "pgbad", "empty"])
def s_cimerror(ctx, d):
    ctx.status = ctx.rng.choice([400, 500, 501, 403])
    ctx.reason = "Bad"
    c = d["cls"]
    ctx.headers.append(("CIMError", "" if c == "empty" else ctx.rng.choice(
        ["request-not-valid", "unsupported-operation", "x y ä"])))
    if c == "pgdetail":
        ctx.headers.append(("PGErrorDetail",
                            "Validation%20failed%3A%20x%0D%0A"))
    elif c == "pgbad":
        ctx.headers.append(("PGErrorDetail",
                            ctx.rng.choice(["%zz%FF%", "%", "%E4%F6", "",
                                            "%00%0A", "%u20AC", "a%2", "%%41",
                                            "%C3%28", "%ED%A0%80",
                                            "%41" * 3000, "+%2B+", "\u00e4%"])))


# -- content type ------------------------------------------------------------
@kind("c_type", "ctype", clss=["missing", "textxml", "plain", "html", "json",
                                "empty", "upper", "xmlish", "charset"])
def c_type(ctx, d):
    c = d["cls"]
    v = {"missing": None, "textxml": 'text/xml; charset="utf-8"',
         "plain": "text/plain", "html": "text/html; charset=bogus-enc",
         "json": "application/json", "empty": "",
         "upper": "Application/XML", "xmlish": "application/xml-dtd",
         "charset": "application/xml; charset=bogus"}[c]
    ctx.headers = [(k, x) for k, x in ctx.headers
                   if k.lower() != "content-type"]
    if v is not None:
        ctx.headers.append((ctx.rng.choice(["Content-Type", "content-type",
                                            "CONTENT-TYPE"]), v))


# -- numeric response headers ---------------------------------------------------
# Header values are part of "every response".  Kind h_num = ONE header whose
# value the client side converts to a number, carrying a lexeme of every
# numeric text class the body values have (NUM_CLS): ty = which header
#   resptime  WBEMServerResponseTime (pywbem: float(value) / 1000000 in
#             wbem_request(), for every status)
#   clen      Content-Length (requests/urllib3 below pywbem: int(value), framing
#             of the body)
# A header value is a latin-1 string without CR/LF.
HDR_NUM = {"resptime": ["WBEMServerResponseTime", "wbemserverresponsetime",
                        "WBEMSERVERRESPONSETIME"],
           "clen": ["Content-Length", "content-length"]}


def hdr_num_text(cls, rng):
    if cls == "ws":
        return rng.choice([" ", "\t  ", "  "])
    if cls == "udig":
        # digits outside ASCII that latin-1 can carry
        return rng.choice(["\u00b2", "\u00b9\u00b2", "1\u00b3"])
    t = num_text("uint64", cls, rng)
    return t.replace("\n", " ")


@kind("h_num", "header", tys=sorted(HDR_NUM), clss=NUM_CLS)
def h_num(ctx, d):
    c = d["cls"]
    name = ctx.rng.choice(HDR_NUM[d["ty"]])
    if d["ty"] == "clen" and c in ("dec", "oor"):
        # dec: the true length (a valid header); oor: a length the body
        # does not have
        k = ctx.rng.choice([1, 7, 2**31, 2**64])

        def tx(body, name=name, c=c, k=k):
            return [(name, str(len(body) + (k if c == "oor" else 0)))]
        ctx.hdr_tx.append(tx)
        return
    text = hdr_num_text(c, ctx.rng)
    if d["ty"] == "resptime" and c == "dec":
        text = str(ctx.rng.choice([0, 1, 1234, 98765432]))
    ctx.headers.append((name, text))


# -- byte level: UTF-8 / XML characters / well-formedness ------------------------
def _text_spot(data, rng):
    """Offset inside character data or an attribute value of the document."""
    spots = [m.end() for m in re.finditer(rb'(NAME|CLASSNAME|ID)="', data)]
    spots += [m.end() for m in re.finditer(rb"<(VALUE|HOST|KEYVALUE[^>]*)>",
                                           data)]
    if not spots:
        spots = [len(data) // 2]
    return rng.choice(spots)


def _ins(ctx, payload):
    def tx(data):
        i = _text_spot(data, ctx.rng)
        return data[:i] + payload + data[i:]
    ctx.byte_tx.append(tx)


@kind("u_bad", "utf8", clss=["surrogate", "ff", "truncseq", "overlong",
                              "lone80", "cesu"])
def u_bad(ctx, d):
    _ins(ctx, {"surrogate": b"\xed\xa0\x80", "ff": b"\xff",
               "truncseq": b"\xe2\x82", "overlong": b"\xc0\x80",
               "lone80": b"\x80",
               "cesu": b"\xed\xa0\x80\xed\xb4\xa2"}[d["cls"]])


@kind("x_char", "utf8", clss=["ctrl", "nul", "fffe", "charref", "ffff"])
def x_char(ctx, d):
    _ins(ctx, {"ctrl": bytes([ctx.rng.choice([1, 8, 11, 12, 14, 31])]),
               "nul": b"\x00", "fffe": b"\xef\xbf\xbe", "ffff": b"\xef\xbf\xbf",
               "charref": ctx.rng.choice([b"&#1;", b"&#0;", b"&#xFFFE;",
                                          b"&#xD800;", b"&#x110000;"])
               }[d["cls"]])


@kind("w_form", "xml", clss=["trunc", "mismatch", "dupattr", "rawamp",
                              "rawlt", "entity", "tworoots", "empty", "ws",
                              "junkafter", "junkbefore", "html", "json", "bin",
                              "cdata", "comment", "declate", "declv2", "pi",
                              "quote"])
def w_form(ctx, d):
    c = d["cls"]
    rng = ctx.rng

    def tx(data):
        if c == "trunc":
            m = re.search(rb"<CIM", data)
            lo = (m.end() if m else 0) + 1
            return data[:rng.randint(lo, max(lo, len(data) - 4))]
        if c == "mismatch":
            ends = [m for m in re.finditer(rb"</([A-Z.]+)>", data)]
            m = rng.choice(ends)
            return data[:m.start()] + b"</X" + m.group(1) + b">" + data[m.end():]
        if c == "dupattr":
            ms = [m for m in re.finditer(rb' ([A-Za-z:]+)="[^"]*"', data)
                  if b"?>" not in data[m.end():m.end() + 20] or True]
            ms = [m for m in ms if m.start() > data.find(b"<CIM")]
            m = rng.choice(ms)
            return data[:m.end()] + m.group(0) + data[m.end():]
        if c in ("rawamp", "rawlt", "entity", "cdata", "comment", "pi",
                 "quote"):
            i = _text_spot(data, rng)
            p = {"rawamp": b"a & b", "rawlt": b"a < b", "entity": b"&nbsp;",
                 "cdata": b"<![CDATA[ open", "comment": b"<!-- open ",
                 "pi": b"<?bad", "quote": b'"> x="'}[c]
            if c in ("cdata", "comment", "pi"):
                ms = [m.end() for m in re.finditer(rb"<VALUE>|<HOST>", data)]
                ms = ms or [m.end() for m in re.finditer(rb">", data)]
                i = rng.choice(ms)
            if c == "quote":
                ms = [m.end() for m in re.finditer(rb'NAME="', data)]
                i = rng.choice(ms)
                p = b'a"b'
            return data[:i] + p + data[i:]
        if c == "tworoots":
            i = data.find(b"<CIM")
            return data + b"\n" + data[i:]
        if c == "empty":
            return b""
        if c == "ws":
            return rng.choice([b" ", b"\n\n", b"\r\n\t"])
        if c == "junkafter":
            return data + rng.choice([b"x", b"<", b"</CIM>", b"&"])
        if c == "junkbefore":
            i = data.find(b"<CIM")
            return data[:i] + b"junk " + data[i:]
        if c == "html":
            return b"<html><head><title>500</title></head><body><p>Oops<br>" \
                   b"</body></html>"
        if c == "json":
            return b'{"error": "not xml"}'
        if c == "bin":
            return bytes(rng.randrange(256) for _ in range(rng.randint(1, 200)))
        if c == "declate":
            return b"\n " + (data if data.startswith(b"<?xml") else
                             b'<?xml version="1.0"?>' + data)
        if c == "declv2":
            i = data.find(b"<CIM")
            return b'<?xml version="2.0" encoding="utf-8"?>' + data[i:]
        raise AssertionError(c)
    ctx.byte_tx.append(tx)


@kind("w_enc", "xml", clss=["bogus", "sjis", "eucjp", "hex", "utf16decl",
                             "utf7", "utf16", "utf16nobom", "latin1", "bom",
                             "doctype", "cp037", "idna", "empty"])
def w_enc(ctx, d):
    c = d["cls"]

    def tx(data):
        i = data.find(b"<CIM")
        body = data[i:]
        names = {"bogus": b"no-such-enc", "sjis": b"shift_jis",
                 "eucjp": b"euc-jp", "hex": b"hex", "utf16decl": b"utf-16",
                 "utf7": b"utf-7", "cp037": b"cp037", "idna": b"idna",
                 "empty": b""}
        if c in names:
            return b'<?xml version="1.0" encoding="' + names[c] + b'"?>\n' + \
                body
        if c == "utf16":
            return ('<?xml version="1.0" encoding="utf-16"?>' +
                    body.decode("utf-8", "replace")).encode("utf-16")
        if c == "utf16nobom":
            return ('<?xml version="1.0" encoding="utf-16"?>' +
                    body.decode("utf-8", "replace")).encode("utf-16-le")
        if c == "latin1":
            return b'<?xml version="1.0" encoding="iso-8859-1"?>' + \
                body.decode("utf-8", "replace").encode("latin-1", "replace")
        if c == "bom":
            return b"\xef\xbb\xbf" + data
        if c == "doctype":
            return (b'<?xml version="1.0"?><!DOCTYPE CIM [<!ENTITY e "x">'
                    b'<!ENTITY f "&e;&e;&e;">]>' +
                    body.replace(b'<HOST>', b'<HOST>&f;', 1))
        raise AssertionError(c)
    ctx.byte_tx.append(tx)


@kind("f_bytes", "fuzz", clss=["bitflip", "trunc", "delbyte", "insbyte",
                                "dupslice", "swap"])
def f_bytes(ctx, d):
    c = d["cls"]
    rng = ctx.rng

    def tx(data):
        if not data:
            return data
        b = bytearray(data)
        n = len(b)
        if c == "bitflip":
            for _ in range(rng.choice([1, 1, 2, 5])):
                i = rng.randrange(n)
                b[i] ^= 1 << rng.randrange(8)
        elif c == "trunc":
            del b[rng.randrange(n):]
        elif c == "delbyte":
            del b[rng.randrange(n)]
        elif c == "insbyte":
            b.insert(rng.randrange(n), rng.randrange(256))
        elif c == "dupslice":
            i = rng.randrange(n)
            j = min(n, i + rng.randint(1, 60))
            b[i:i] = b[i:j]
        elif c == "swap":
            i, j = rng.randrange(n), rng.randrange(n)
            b[i], b[j] = b[j], b[i]
        return bytes(b)
    ctx.byte_tx.append(tx)


@kind("f_tree", "fuzz", clss=["dup", "del", "rename", "delattr", "addattr",
                               "swap", "text", "emptyattr", "unwrap"])
def f_tree(ctx, d):
    c = d["cls"]
    rng = ctx.rng
    trip = list(ctx.tree.walk_parents())
    if not trip:
        raise NotRenderable("empty tree")
    p, i, e = rng.choice(trip)
    if c == "dup":
        p.kids.insert(i, e.copy())
    elif c == "del":
        del p.kids[i]
    elif c == "rename":
        e.name = rng.choice([x.name for x in ctx.tree.walk()] +
                            ["FOO", "VALUE.NULL", "INSTANCE", "CLASS", "ERROR",
                             "value", "VALUE.OBJECT", "MULTIRSP",
                             "CORRELATOR", "DECLGROUP.WITHPATH"])
    elif c == "delattr":
        es = [x for x in ctx.tree.walk() if x.attrs]
        e = rng.choice(es)
        del e.attrs[rng.choice(sorted(e.attrs))]
    elif c == "addattr":
        e.attrs[rng.choice(["FOO", "TYPE", "NAME", "ARRAYSIZE", "PARAMTYPE",
                            "EmbeddedObject", "xml:lang", "CODE"])] = \
            rng.choice(["", "x", "1", "true", "uint8", "instance"])
    elif c == "swap":
        ps = [x for x in ctx.tree.walk() if len(x.kids) > 1]
        if not ps:
            p.kids.insert(i, e.copy())
        else:
            x = rng.choice(ps)
            a, b = rng.sample(range(len(x.kids)), 2)
            x.kids[a], x.kids[b] = x.kids[b], x.kids[a]
    elif c == "text":
        e.kids.insert(rng.randint(0, len(e.kids)), rng.choice(["x", "0", "&"]))
    elif c == "emptyattr":
        es = [x for x in ctx.tree.walk() if x.attrs]
        e = rng.choice(es)
        e.attrs[rng.choice(sorted(e.attrs))] = ""
    elif c == "unwrap":
        p.kids[i:i + 1] = e.kids


# -- envelope ----------------------------------------------------------------
ENV_CLS = ["root_other", "root_message", "cim_nocimversion",
           "cim_nodtdversion", "cim_extraattr", "cimversion_3",
           "dtdversion_1", "cimversion_empty", "cim_nochild", "cim_twomsg",
           "cim_declaration", "cim_text", "msg_noid", "msg_noprotover",
           "protover_2", "protover_empty", "msg_nochild", "msg_dupchild",
           "msg_simplereq", "msg_multirsp", "msg_wrongrsp", "msg_extraattr",
           "msg_multiexprsp", "rsp_nochild", "rsp_dupchild", "rsp_wrongkind",
           "rsp_unknownchild", "rsp_attr", "name_missing", "name_wrong",
           "name_case", "name_empty", "resp_extraattr", "resp_unknownchild",
           "resp_text", "lower_names", "nsprefix"]


@kind("e_env", "envelope", clss=ENV_CLS)
def e_env(ctx, d):
    c = d["cls"]
    rng = ctx.rng
    cim = ctx.tree
    msg = cim.elems()[0]
    rsp = msg.elems()[0]
    resp = rsp.elems()[0]
    if c == "root_other":
        cim.name = rng.choice(["FOO", "cim", "CIMX", "html"])
    elif c == "root_message":
        ctx.tree = rng.choice([msg, rsp, resp])
    elif c == "cim_nocimversion":
        del cim.attrs["CIMVERSION"]
    elif c == "cim_nodtdversion":
        del cim.attrs["DTDVERSION"]
    elif c == "cim_extraattr":
        cim.attrs[rng.choice(["FOO", "xmlns", "cimversion"])] = "x"
    elif c == "cimversion_3":
        cim.attrs["CIMVERSION"] = rng.choice(["3.0", "1.0", "x", " 2.0"])
    elif c == "dtdversion_1":
        cim.attrs["DTDVERSION"] = rng.choice(["1.0", "3.1", "two"])
    elif c == "cimversion_empty":
        cim.attrs[rng.choice(["CIMVERSION", "DTDVERSION"])] = ""
    elif c == "cim_nochild":
        cim.kids = []
    elif c == "cim_twomsg":
        cim.kids.append(msg.copy())
    elif c == "cim_declaration":
        cim.kids = [E("DECLARATION", None, [E("DECLGROUP", None, rng.choice([
            [ctx.gen.qualifier_declaration()],
            [E("VALUE.OBJECT", None, [ctx.gen.instance()])], [],
            [ctx.gen.localnamespacepath(), ctx.gen.qualifier_declaration()]]))
        ])]
    elif c == "cim_text":
        cim.kids.insert(rng.randint(0, 1), "stray")
    elif c == "msg_noid":
        del msg.attrs["ID"]
    elif c == "msg_noprotover":
        del msg.attrs["PROTOCOLVERSION"]
    elif c == "protover_2":
        msg.attrs["PROTOCOLVERSION"] = rng.choice(["2.0", "0.9", "x"])
    elif c == "protover_empty":
        msg.attrs["PROTOCOLVERSION"] = ""
    elif c == "msg_nochild":
        msg.kids = []
    elif c == "msg_dupchild":
        msg.kids.append(rsp.copy())
    elif c == "msg_simplereq":
        msg.kids = [E("SIMPLEREQ", None, [E("IMETHODCALL", {"NAME": ctx.wire}, [
            ctx.gen.localnamespacepath()])])]
    elif c == "msg_multirsp":
        msg.kids = [E("MULTIRSP", None, [rsp, rsp.copy()])]
    elif c == "msg_multiexprsp":
        msg.kids = [E(rng.choice(["MULTIEXPRSP", "MULTIREQ", "MULTIEXPREQ",
                                  "SIMPLEEXPREQ"]), None, [rsp])]
    elif c == "msg_wrongrsp":
        if rsp.name == "SIMPLERSP":
            msg.kids = [E("SIMPLEEXPRSP", None, [
                E("EXPMETHODRESPONSE", {"NAME": ctx.wire})])]
        else:
            msg.kids = [E("SIMPLERSP", None, [
                E("IMETHODRESPONSE", {"NAME": ctx.wire})])]
    elif c == "msg_extraattr":
        msg.attrs["FOO"] = "1"
    elif c == "rsp_nochild":
        rsp.kids = []
    elif c == "rsp_dupchild":
        rsp.kids.append(resp.copy())
    elif c == "rsp_wrongkind":
        resp.name = {"IMETHODRESPONSE": "METHODRESPONSE",
                     "METHODRESPONSE": "IMETHODRESPONSE",
                     "EXPMETHODRESPONSE": "IMETHODRESPONSE"}[resp.name]
    elif c == "rsp_unknownchild":
        rsp.kids = [E(rng.choice(["FOO", "IMETHODCALL", "ERROR",
                                  "IRETURNVALUE"]), {"NAME": ctx.wire})]
    elif c == "rsp_attr":
        rsp.attrs["NAME"] = "x"
    elif c == "name_missing":
        del resp.attrs["NAME"]
    elif c == "name_wrong":
        resp.attrs["NAME"] = rng.choice(["GetClass", "Foo", ctx.wire + "x",
                                         " " + ctx.wire, "DeleteInstance"]
                                        ) if ctx.wire != "GetClass" else "Foo"
    elif c == "name_case":
        resp.attrs["NAME"] = ctx.wire.lower() if ctx.wire.lower() != ctx.wire \
            else ctx.wire.upper()
    elif c == "name_empty":
        resp.attrs["NAME"] = ""
    elif c == "resp_extraattr":
        resp.attrs[rng.choice(["FOO", "TYPE"])] = "x"
    elif c == "resp_unknownchild":
        resp.kids.insert(rng.randint(0, len(resp.kids)), E(rng.choice(
            ["FOO", "VALUE", "INSTANCE", "RETURNVALUE" if resp.name !=
             "METHODRESPONSE" else "IRETURNVALUE", "CORRELATOR"])))
    elif c == "resp_text":
        resp.kids.insert(rng.randint(0, len(resp.kids)), "text")
    elif c == "lower_names":
        for e in cim.walk():
            e.name = e.name.lower()
    elif c == "nsprefix":
        cim.name = "x:CIM"
    else:
        raise AssertionError(c)


# -- ERROR ---------------------------------------------------------------------
ERR_CODE_CLS = ["num", "zero", "huge", "neg", "empty", "alpha", "hex",
                "float", "ws", "missing", "plus", "usc", "udig", "long"]


def _make_error(ctx, code, desc=True):
    a = {}
    if code is not None:
        a["CODE"] = code
    if desc and ctx.rng.random() < 0.7:
        a["DESCRIPTION"] = ctx.rng.choice(["failed", "", "a <b> & c", "ä"])
    return E("ERROR", a)


@kind("r_code", "error", clss=ERR_CODE_CLS)
def r_code(ctx, d):
    c = d["cls"]
    rng = ctx.rng
    code = {"num": str(rng.randint(1, 28)), "zero": "0",
            "huge": rng.choice(["99999999999999999999999", "2147483648",
                                "4294967296"]),
            "neg": "-%d" % rng.randint(1, 9), "empty": "",
            "alpha": rng.choice(["x", "CIM_ERR_FAILED", "one"]),
            "hex": rng.choice(["0x5", "0X10"]), "float": rng.choice(
                ["5.0", "1e1", "NaN", "INF"]),
            "ws": rng.choice([" 5 ", "\n6", "7\t"]), "missing": None,
            "plus": "+5", "usc": "1_0", "udig": "٥", "long": "9" * 5000}[c]
    ctx.resp().kids = [_make_error(ctx, code)]


@kind("r_child", "error", clss=["insts", "value", "text", "extraattr"])
def r_child(ctx, d):
    c = d["cls"]
    err = _make_error(ctx, str(ctx.rng.randint(1, 28)))
    if c == "insts":
        err.kids = [ctx.gen.instance() for _ in range(ctx.rng.randint(1, 2))]
    elif c == "value":
        err.kids = [ctx.rng.choice([V("x"), ctx.gen.klass(),
                                    ctx.gen.instancename(), E("FOO")])]
    elif c == "text":
        err.kids = ["some text"]
    elif c == "extraattr":
        err.attrs["FOO"] = "1"
    ctx.resp().kids = [err]


@kind("r_mixed", "error", clss=["err_irv", "irv_err", "two", "err_param"])
def r_mixed(ctx, d):
    c = d["cls"]
    r = ctx.resp()
    err = _make_error(ctx, str(ctx.rng.randint(1, 28)))
    rv = "RETURNVALUE" if r.name == "METHODRESPONSE" else "IRETURNVALUE"
    if c == "err_irv":
        r.kids = [err, E(rv)] + [k for k in r.kids if isinstance(k, E)
                                 and k.name == "PARAMVALUE"]
    elif c == "irv_err":
        others = [k for k in r.kids if isinstance(k, E)] or [E(rv)]
        r.kids = others + [err]
    elif c == "two":
        r.kids = [err, _make_error(ctx, "x" if ctx.rng.random() < 0.3
                                   else "2")]
    elif c == "err_param":
        r.kids = [err, E("PARAMVALUE", {"NAME": "EndOfSequence"},
                         [V("TRUE")])]


# -- values ----------------------------------------------------------------------
NUM_SITES = ["prop", "proparr", "qual", "qualarr", "key", "keyuntyped",
             "qdval", "qdarr", "retval", "outparam", "outparamarr", "emb"]


@kind("v_num", "value", sites=NUM_SITES, tys=NUM_TYPES, clss=NUM_CLS)
def v_num(ctx, d):
    ty = d["ty"]
    ctx.place(d["site"], None if d["site"] == "keyuntyped" else ty,
              num_text(ty, d["cls"], ctx.rng))


TYPED_SITES = ["prop", "proparr", "qual", "key", "qdval", "retval",
               "outparam", "outparamarr", "emb"]


@kind("v_bool", "value", sites=TYPED_SITES,
      clss=["true", "upper", "ws", "empty", "yes", "one", "wsonly"])
def v_bool(ctx, d):
    t = {"true": "true", "upper": "FALSE", "ws": " True\n", "empty": "",
         "yes": ctx.rng.choice(["yes", "T", "truee"]), "one": "1",
         "wsonly": "  "}[d["cls"]]
    ctx.place(d["site"], "boolean", t)


@kind("v_dt", "value", sites=TYPED_SITES,
      clss=["ts", "interval", "bad", "empty", "ws", "short", "badmonth",
            "nonascii"])
def v_dt(ctx, d):
    t = {"ts": "20140924193040.654321+120",
         "interval": "00000183132542.234567:000",
         "bad": ctx.rng.choice(["yesterday", "2014-09-24T19:30:40Z",
                                "20140924193040.654321+12"]),
         "empty": "", "ws": " 20140924193040.654321+120 ",
         "short": "20140924", "badmonth": ctx.rng.choice(
             ["20141324193040.654321+120", "20140230193040.654321+000",
              "20140924256040.654321+120", "00000183132542.23456x:000",
              "20140924193040.654321+1x0"]),
         "nonascii": "２０１４０９２４１９３０４０.654321+120"}[d["cls"]]
    ctx.place(d["site"], "datetime", t)


@kind("v_c16", "value", sites=TYPED_SITES,
      clss=["one", "empty", "two", "astral", "ws"])
def v_c16(ctx, d):
    t = {"one": "x", "empty": "", "two": "ab", "astral": "\U00010122",
         "ws": " "}[d["cls"]]
    ctx.place(d["site"], "char16", t)


@kind("v_type", "value", sites=TYPED_SITES + ["param"],
      clss=["unknown", "empty", "upper", "reference", "missing", "ws",
            "trail"])
def v_type(ctx, d):
    c = d["cls"]
    ty = {"unknown": ctx.rng.choice(["uint128", "int", "String[]", "real16"]),
          "empty": "", "upper": ctx.rng.choice(["UINT8", "String", "Boolean"]),
          "reference": "reference", "missing": None,
          "ws": " uint8 ",
          "trail": None}[c]
    if c == "trail":
        # a valid type name with one leading / trailing control character
        # (written as a character reference, so that attribute value
        # normalisation keeps it) and a value that is valid for the type
        base = ctx.rng.choice(NUM_TYPES + ["boolean", "string", "datetime",
                                           "char16"])
        ch = ctx.rng.choice(["\n", "\n", "\r", "\t", "\n\n"])
        ty = base + ch if ctx.rng.random() < 0.75 else ch + base
        ctx.place(d["site"], ty, ctx.gen.good_text(base))
        return
    ctx.place(d["site"], ty, ctx.rng.choice(["1", "true", "x", ""]))


@kind("v_asize", "value", sites=["proparr", "paramarr", "paramrefarr", "qdarr"],
      clss=["dec", "zero", "empty", "alpha", "neg", "hex", "huge", "float",
            "ws", "plus"])
def v_asize(ctx, d):
    rng = ctx.rng
    t = {"dec": str(rng.randint(1, 9)), "zero": "0", "empty": "",
         "alpha": rng.choice(["x", "ten"]), "neg": "-1", "hex": "0x10",
         "huge": rng.choice(["99999999999999999999", "9" * 5000]),
         "float": rng.choice(["1.5", "1e3", "INF"]), "ws": " 3 ",
         "plus": "+3"}[d["cls"]]
    s = d["site"]
    if s == "proparr":
        ctx.add_prop(ctx.host_obj(), ctx.gen.property_array(size=t))
    elif s == "qdarr":
        qd = ctx.pick(ctx.tree.find("QUALIFIER.DECLARATION"))
        qd.attrs["ISARRAY"] = "true"
        qd.attrs["ARRAYSIZE"] = t
        for k in qd.elems():
            if k.name == "VALUE":
                k.name = "VALUE.ARRAY"
                k.kids = [V("".join(x for x in k.kids if isinstance(x, str)))]
    else:
        m = ctx.host_method()
        a = {"NAME": ctx.gen.uniq("az"), "ARRAYSIZE": t}
        if s == "paramarr":
            a["TYPE"] = rng.choice(NUM_TYPES + ["string"])
            m.kids.append(E("PARAMETER.ARRAY", a))
        else:
            m.kids.append(E("PARAMETER.REFARRAY", a))


@kind("v_null", "value",
      sites=["prop", "proparr", "qual", "qualarr", "qdval", "qdarr", "retval",
             "outparam", "outparamarr", "emb", "refarr"],
      tys=["string", "uint8", "sint64", "real32", "boolean", "datetime",
           "char16"])
def v_null(ctx, d):
    if d["site"] == "refarr":
        r = ctx.resp()
        if r.name != "METHODRESPONSE":
            raise NotRenderable("refarr")
        r.kids.append(E("PARAMVALUE", {"NAME": ctx.gen.uniq("Oz"),
                                       "PARAMTYPE": "reference"},
                        [E("VALUE.REFARRAY", None,
                           [ctx.gen.value_reference(), E("VALUE.NULL")])]))
        return
    ctx.place(d["site"], d["ty"], None, null=True)


SHAPE_COMBOS = {
    "arr_in_scalar": ("prop", "retval"),
    "scalar_in_arr": ("proparr",),
    "two_values": ("prop", "proparr", "qual", "qdval", "retval", "outparam"),
    "nested_value": ("prop", "qual", "outparam"),
    "ref_in_value": ("prop", "proparr", "qual", "qdval", "outparam"),
}


@kind("v_shape", "value", sites=["prop", "proparr", "qual", "qdval", "retval",
                                 "outparam"],
      clss=sorted(SHAPE_COMBOS),
      ok=lambda d: d["site"] in SHAPE_COMBOS[d["cls"]])
def v_shape(ctx, d):
    c, s = d["cls"], d["site"]
    ty = ctx.rng.choice(["string", "uint8"])
    host = ctx.place(s, ty, "1")
    vi = [i for i, k in enumerate(host.kids) if isinstance(k, E) and
          k.name in ("VALUE", "VALUE.ARRAY")][0]
    v = host.kids[vi]
    if c == "arr_in_scalar":
        host.kids[vi] = E("VALUE.ARRAY", None, [v])
    elif c == "scalar_in_arr":
        host.kids[vi] = V("1")
    elif c == "two_values":
        host.kids.insert(vi, v.copy())
    elif c == "nested_value":
        v.kids = [V("1")]
    elif c == "ref_in_value":
        host.kids[vi] = ctx.gen.value_reference()


EMB_CLS = ["ok_instance", "ok_class", "notxml", "illformed", "wrongroot",
           "badattr", "numtype", "empty", "badinner", "array", "utf8",
           "both_attrs", "false_attr"]


@kind("v_emb", "value", sites=["prop", "outparam", "retval"], clss=EMB_CLS)
def v_emb(ctx, d):
    c, s = d["cls"], d["site"]
    g = ctx.gen
    rng = ctx.rng
    kind_ = "instance"
    ty = "string"
    array = False
    attrs = {}
    if c == "ok_instance":
        inner = g.instance(1).ser(rng)
    elif c == "ok_class":
        inner, kind_ = g.klass(1).ser(rng), "object"
    elif c == "notxml":
        inner = rng.choice(["hello", "12", " "])
    elif c == "illformed":
        inner = rng.choice(['<INSTANCE CLASSNAME="C">', "<INSTANCE",
                            '<INSTANCE CLASSNAME="C"></CLASS>', "<a>&</a>"])
    elif c == "wrongroot":
        inner = rng.choice(['<VALUE>1</VALUE>', g.instancename().ser(),
                            '<CIM/>', '<instance CLASSNAME="C"/>'])
    elif c == "badattr":
        inner, kind_ = g.instance(1).ser(rng), rng.choice(["foo", "true",
                                                           "INSTANCE"])
    elif c == "numtype":
        inner, ty = g.instance(1).ser(rng), rng.choice(["uint8", "boolean",
                                                        "datetime"])
    elif c == "empty":
        inner = ""
    elif c == "badinner":
        inner = rng.choice([
            '<INSTANCE CLASSNAME="C"><PROPERTY NAME="p" TYPE="uint8">'
            '<VALUE>x</VALUE></PROPERTY></INSTANCE>',
            '<INSTANCE><PROPERTY NAME="p" TYPE="string"/></INSTANCE>',
            '<INSTANCE CLASSNAME="C"><FOO/></INSTANCE>',
            '<CLASS><PROPERTY NAME="p"/></CLASS>'])
    elif c == "array":
        inner, array = g.instance(1).ser(rng), True
    elif c == "utf8":
        inner = '<INSTANCE CLASSNAME="C\x01"/>'
    elif c == "both_attrs":
        inner = g.instance(1).ser(rng)
        attrs["EMBEDDEDOBJECT"] = "object"
    elif c == "false_attr":
        inner, kind_ = g.instance(1).ser(rng), ""
    if s == "prop":
        p = g.embedded_property(inner=inner, kind=kind_, array=array,
                                attr="EmbeddedObject")
        p.attrs["TYPE"] = ty
        p.attrs.update(attrs)
        ctx.add_prop(ctx.host_obj(), p)
    else:
        r = ctx.resp()
        if r.name != "METHODRESPONSE":
            raise NotRenderable("method site")
        a = {"PARAMTYPE": ty, "EmbeddedObject": kind_}
        a.update(attrs)
        kid = E("VALUE.ARRAY", None, [V(inner)]) if array and s == "outparam" \
            else V(inner)
        if s == "retval":
            r.kids = [k for k in r.kids if not (isinstance(k, E) and
                                                k.name == "RETURNVALUE")]
            r.kids.insert(0, E("RETURNVALUE", a, [kid]))
        else:
            a["NAME"] = g.uniq("Oe")
            r.kids.append(E("PARAMVALUE", a, [kid]))


BATTRS = ["PROPAGATED", "OVERRIDABLE", "TOSUBCLASS", "TOINSTANCE",
          "TRANSLATABLE", "ISARRAY", "SCOPE"]


@kind("v_battr", "value", sites=["prop", "qual", "qdval", "method"],  # noqa
      clss=["bad", "empty", "upper", "ws"])
def v_battr(ctx, d):
    s = d["site"]
    rng = ctx.rng
    val = {"bad": rng.choice(["maybe", "1", "yes"]), "empty": "",
           "upper": "TRUE", "ws": " true "}[d["cls"]]
    if s == "prop":
        ctx.place("prop", "string", "x", attrs={"PROPAGATED": val})
    elif s == "qual":
        ctx.place("qual", "string", "x", attrs={rng.choice(BATTRS[:5]): val})
    elif s == "qdval":
        qd = ctx.pick(ctx.tree.find("QUALIFIER.DECLARATION"))
        a = rng.choice(BATTRS[1:])
        if a == "SCOPE":
            sc = [k for k in qd.elems() if k.name == "SCOPE"]
            if not sc:
                sc = [E("SCOPE")]
                qd.kids.insert(0, sc[0])
            sc[0].attrs[rng.choice(["CLASS", "PROPERTY", "INDICATION"])] = val
        else:
            qd.attrs[a] = val
    elif s == "method":
        ctx.host_method().attrs["PROPAGATED"] = val


KEY_CLS = ["valuetype_bogus", "type_bogus", "dupname", "noname", "two_kids",
           "unnamed", "keyless", "refkey", "mixed", "emptykb", "child_elem",
           "bool_bad", "valuetype_empty"]


@kind("v_key", "value", sites=["key"], clss=KEY_CLS)
def v_key(ctx, d):
    c = d["cls"]
    g = ctx.gen
    n = ctx.host_instancename()
    if c == "valuetype_bogus":
        n.kids.append(E("KEYBINDING", {"NAME": "kz"},
                        [E("KEYVALUE", {"VALUETYPE": "foo"}, ["1"])]))
    elif c == "valuetype_empty":
        n.kids.append(E("KEYBINDING", {"NAME": "kz"},
                        [E("KEYVALUE", {"VALUETYPE": ""}, ["1"])]))
    elif c == "type_bogus":
        n.kids.append(E("KEYBINDING", {"NAME": "kz"},
                        [E("KEYVALUE", {"VALUETYPE": "numeric",
                                        "TYPE": ctx.rng.choice(
                                            ["uint128", "reference", "x"])},
                           ["1"])]))
    elif c == "dupname":
        n.kids.append(E("KEYBINDING", {"NAME": "KD"}, [E("KEYVALUE", {}, ["a"])]))
        n.kids.append(E("KEYBINDING", {"NAME": "kd"}, [E("KEYVALUE", {}, ["b"])]))
    elif c == "noname":
        n.kids.append(E("KEYBINDING", {}, [E("KEYVALUE", {}, ["a"])]))
    elif c == "two_kids":
        n.kids.append(E("KEYBINDING", {"NAME": "kz"},
                        [E("KEYVALUE", {}, ["a"]), E("KEYVALUE", {}, ["b"])]))
    elif c == "unnamed":
        n.kids = [ctx.rng.choice([E("KEYVALUE", {}, ["a"]),
                                  E("KEYVALUE", {"VALUETYPE": "numeric"}, ["5"]),
                                  g.value_reference(1)])]
    elif c == "keyless":
        n.kids = []
    elif c == "refkey":
        n.kids.append(E("KEYBINDING", {"NAME": "kr"}, [g.value_reference(1)]))
    elif c == "mixed":
        n.kids.append(E("KEYVALUE", {}, ["a"]))
    elif c == "emptykb":
        n.kids.append(E("KEYBINDING", {"NAME": "kz"}))
    elif c == "child_elem":
        n.kids.append(E("KEYBINDING", {"NAME": "kz"}, [V("x")]))
    elif c == "bool_bad":
        n.kids.append(E("KEYBINDING", {"NAME": "kz"},
                        [E("KEYVALUE", {"VALUETYPE": "boolean"},
                           [ctx.rng.choice(["maybe", "", "1"])])]))


NAME_CLS = ["propname_empty", "propname_dup", "propname_missing",
            "classname_empty", "classname_missing", "qualname_empty",
            "superclass_empty", "name_odd", "refclass_empty",
            "classorigin_empty", "methname_empty", "paramname_empty",
            "qualname_dup", "methname_dup", "paramname_dup", "method_child"]


CLASS_ONLY_NAMES = ("methname_empty", "paramname_empty", "methname_dup",
                    "paramname_dup", "superclass_empty")


@kind("v_name", "value", sites=["obj", "cls"], clss=NAME_CLS,
      ok=lambda d: (d["cls"] in CLASS_ONLY_NAMES) == (d["site"] == "cls"))
def v_name(ctx, d):
    c = d["cls"]
    g = ctx.gen
    rng = ctx.rng
    if c in ("methname_empty", "paramname_empty", "methname_dup",
             "paramname_dup", "superclass_empty"):
        k = ctx.host_obj(("CLASS",))
        if c == "superclass_empty":
            k.attrs["SUPERCLASS"] = ""
        elif c == "methname_empty":
            m = g.method()
            m.attrs["NAME"] = ""
            k.kids.append(m)
        elif c == "methname_dup":
            m = g.method()
            m2 = g.method()
            m2.attrs["NAME"] = m.attrs["NAME"].upper()
            k.kids += [m, m2]
        else:
            m = ctx.host_method()
            p = E("PARAMETER", {"NAME": "" if c == "paramname_empty" else "dp",
                                "TYPE": "uint8"})
            m.kids.append(p)
            if c == "paramname_dup":
                m.kids.append(E("PARAMETER", {"NAME": "DP", "TYPE": "string"}))
        return
    o = ctx.host_obj()
    if c == "method_child":
        o.kids.append(g.method())
    elif c == "propname_empty":
        ctx.add_prop(o, E("PROPERTY", {"NAME": "", "TYPE": "string"}, [V("x")]))
    elif c == "propname_dup":
        ctx.add_prop(o, E("PROPERTY", {"NAME": "Dup", "TYPE": "string"},
                          [V("x")]))
        ctx.add_prop(o, E("PROPERTY", {"NAME": "dUP", "TYPE": "uint8"},
                          [V("1")]))
    elif c == "propname_missing":
        ctx.add_prop(o, E("PROPERTY", {"TYPE": "string"}, [V("x")]))
    elif c == "classname_empty":
        o.attrs["CLASSNAME" if o.name == "INSTANCE" else "NAME"] = ""
    elif c == "classname_missing":
        o.attrs.pop("CLASSNAME" if o.name == "INSTANCE" else "NAME", None)
    elif c == "qualname_empty":
        q = g.qualifier()
        q.attrs["NAME"] = ""
        o.kids.insert(0, q)
    elif c == "qualname_dup":
        q = g.qualifier()
        q2 = g.qualifier()
        q2.attrs["NAME"] = q.attrs["NAME"].lower()
        o.kids[0:0] = [q, q2]
    elif c == "name_odd":
        ctx.add_prop(o, E("PROPERTY", {"NAME": rng.choice(
            ["a b", "1x", "ä", "a.b", "x" * 3000, " ", "\t", "a\nb"]),
            "TYPE": "string"}, [V("x")]))
    elif c == "refclass_empty":
        ctx.add_prop(o, E("PROPERTY.REFERENCE", {"NAME": g.uniq("r"),
                                                 "REFERENCECLASS": ""},
                          [g.value_reference(1)]))
    elif c == "classorigin_empty":
        ctx.add_prop(o, E("PROPERTY", {"NAME": g.uniq("p"), "TYPE": "string",
                                       "CLASSORIGIN": ""}, [V("x")]))


@kind("v_meth", "value", sites=["cls"],
      clss=["noret", "ret_empty", "ret_bogus", "ret_reference",
            "param_in_class", "param_value"])
def v_meth(ctx, d):
    c = d["cls"]
    k = ctx.host_obj(("CLASS",))
    m = ctx.gen.method()
    if c == "noret":
        del m.attrs["TYPE"]
    elif c == "ret_empty":
        m.attrs["TYPE"] = ""
    elif c == "ret_bogus":
        m.attrs["TYPE"] = ctx.rng.choice(["void", "uint128", "UINT8"])
    elif c == "ret_reference":
        m.attrs["TYPE"] = "reference"
    elif c == "param_in_class":
        k.kids.append(E("PARAMETER", {"NAME": "x", "TYPE": "uint8"}))
        return
    elif c == "param_value":
        m.kids.append(E("PARAMETER", {"NAME": "pv", "TYPE": "uint8"},
                        [V("1")]))
    k.kids.append(m)


@kind("v_nspath", "value", sites=["path"],
      clss=["nohost", "emptylnp", "nsnoname", "nsempty", "hostempty",
            "swapped", "hostelem", "nsextra", "classname_in_path_missing"])
def v_nspath(ctx, d):
    c = d["cls"]
    rng = ctx.rng
    if c in ("nohost", "hostempty", "swapped", "hostelem"):
        ps = ctx.tree.find("NAMESPACEPATH")
        if not ps:
            raise NotRenderable("no NAMESPACEPATH")
        p = rng.choice(ps)
        if c == "nohost":
            p.kids = [k for k in p.kids if not (isinstance(k, E) and
                                                k.name == "HOST")]
        elif c == "hostempty":
            p.elems()[0].kids = []
        elif c == "swapped":
            p.kids.reverse()
        else:
            p.elems()[0].kids = [E("B", None, ["h"])]
        return
    ps = ctx.tree.find("LOCALNAMESPACEPATH")
    if not ps:
        raise NotRenderable("no LOCALNAMESPACEPATH")
    p = rng.choice(ps)
    if c == "emptylnp":
        p.kids = []
    elif c == "nsnoname":
        p.elems()[0].attrs = {}
    elif c == "nsempty":
        p.elems()[0].attrs["NAME"] = ""
    elif c == "nsextra":
        p.kids.append(E("HOST", None, ["x"]))
    elif c == "classname_in_path_missing":
        cps = ctx.tree.find("CLASSPATH", "LOCALCLASSPATH", "INSTANCEPATH",
                            "LOCALINSTANCEPATH")
        q = rng.choice(cps)
        q.kids = q.kids[:1]


@kind("v_deep", "value", sites=["ref", "emb"], clss=["d50", "d200", "d2000"],
      ok=lambda d: not (d["site"] == "emb" and d["cls"] == "d2000"))
def v_deep(ctx, d):
    n = int(d["cls"][1:])
    if d["site"] == "ref":
        inner = E("INSTANCENAME", {"CLASSNAME": "C"},
                  [E("KEYBINDING", {"NAME": "k"}, [E("KEYVALUE", {}, ["v"])])])
        for _ in range(n):
            inner = E("INSTANCENAME", {"CLASSNAME": "C"},
                      [E("KEYBINDING", {"NAME": "k"},
                         [E("VALUE.REFERENCE", None, [inner])])])
        h = ctx.host_instancename()
        h.kids.append(E("KEYBINDING", {"NAME": "kdeep"},
                        [E("VALUE.REFERENCE", None, [inner])]))
    else:
        # every level escapes the levels inside it once more (size grows
        # with the square of the depth: 210 levels = 0.5 MB when only & and
        # < are escaped); the recursive parser gives up at about 195 levels
        n = 210 if n >= 200 else n
        inner = '<INSTANCE CLASSNAME="C"/>'
        for _ in range(n):
            inner = ('<INSTANCE CLASSNAME="C"><PROPERTY NAME="e" TYPE="string"'
                     ' EmbeddedObject="instance"><VALUE>%s</VALUE></PROPERTY>'
                     '</INSTANCE>' % inner.replace("&", "&amp;")
                     .replace("<", "&lt;"))
        ctx.add_prop(ctx.host_obj(), ctx.gen.embedded_property(
            inner=inner, kind="instance"))


# -- result element / operation typing -----------------------------------------------
@kind("o_irv", "optype", clss=IRV_KINDS)
def o_irv(ctx, d):
    r = ctx.resp()
    if r.name not in ("IMETHODRESPONSE", "EXPMETHODRESPONSE"):
        raise NotRenderable("no IRETURNVALUE in this response kind")
    objs = [ctx.gen.irv_elem(d["cls"]) for _ in range(ctx.rng.choice([1, 1, 2]))]
    if d["cls"] in ("VALUE.ARRAY", "VALUE.REFERENCE"):
        objs = objs[:1]
    irv = ctx.irv()
    if irv is None:
        irv = E("IRETURNVALUE")
        r.kids.insert(0, irv)
    irv.kids = objs


# heterogeneous result list: the first object is of kind ty, at least one
# later object of kind cls (# ty); further objects of either kind in any order
@kind("o_het", "optype", tys=IRV_KINDS, clss=IRV_KINDS, shapes=LIST_SHAPES,
      ok=lambda d: d["ty"] != d["cls"])
def o_het(ctx, d):
    r = ctx.resp()
    rng = ctx.rng
    if r.name != "IMETHODRESPONSE":
        raise NotRenderable("no IRETURNVALUE in this response kind")
    rest = [d["cls"]] + [rng.choice([d["ty"], d["cls"]])
                         for _ in range(rng.choice([0, 0, 1, 2]))]
    rng.shuffle(rest)
    objs = [ctx.gen.irv_elem(k) for k in [d["ty"]] + rest]
    irv = ctx.irv()
    if irv is None:
        irv = E("IRETURNVALUE")
        r.kids.insert(0, irv)
    irv.kids = objs


@kind("o_struct", "optype",
      clss=["missing", "empty", "dup", "mixed", "many", "paramvalue", "attr",
            "text", "irv_in_param"])
def o_struct(ctx, d):
    c = d["cls"]
    r = ctx.resp()
    rng = ctx.rng
    irv = ctx.irv()
    if c == "missing":
        r.kids = [k for k in r.kids if k is not irv]
    elif c == "empty":
        if irv is None:
            r.kids.insert(0, E("IRETURNVALUE"))
        else:
            irv.kids = []
    elif c == "dup":
        new = irv.copy() if irv is not None else E("IRETURNVALUE")
        r.kids.append(new)
        if irv is None:
            r.kids.append(new.copy())
    elif c == "mixed":
        if irv is None:
            irv = E("IRETURNVALUE")
            r.kids.insert(0, irv)
        irv.kids = [ctx.gen.irv_elem(k) for k in rng.sample(
            ["INSTANCE", "CLASS", "INSTANCENAME", "CLASSNAME", "VALUE"], 2)]
    elif c == "many":
        spec = SHAPE_IRV[ctx.shape] or ("INSTANCE", False)
        if irv is None:
            irv = E("IRETURNVALUE")
            r.kids.insert(0, irv)
        irv.kids = [ctx.gen.irv_elem(spec[0]) for _ in range(rng.randint(2, 4))]
    elif c == "paramvalue":
        r.kids.append(E("PARAMVALUE", {"NAME": rng.choice(
            ["Foo", "EndOfSequence", "EnumerationContext"]),
            "PARAMTYPE": "string"}, [V("x")]))
    elif c == "attr":
        if irv is None:
            irv = E("IRETURNVALUE")
            r.kids.insert(0, irv)
        irv.attrs[rng.choice(["PARAMTYPE", "FOO"])] = "string"
    elif c == "text":
        if irv is None:
            irv = E("IRETURNVALUE")
            r.kids.insert(0, irv)
        irv.kids.append("text")
    elif c == "irv_in_param":
        r.kids.append(E("PARAMVALUE", {"NAME": "X"},
                        [E("IRETURNVALUE")]))


# -- child shapes of (I)METHODRESPONSE: a PARAMVALUE of every DTD-allowed form --
# DTD: IMETHODRESPONSE (ERROR | (IRETURNVALUE?, PARAMVALUE*)),
#      METHODRESPONSE  (ERROR | (RETURNVALUE?, PARAMVALUE*)),
#      PARAMVALUE (VALUE | VALUE.REFERENCE | VALUE.ARRAY | VALUE.REFARRAY |
#                  CLASSNAME | INSTANCENAME | CLASS | INSTANCE |
#                  VALUE.NAMEDINSTANCE)?   NAME is any CIM name.
# site = position among the children of the response element, ty = class of
# the NAME (the names the client code gives a meaning to, or any other),
# cls = the child element kind.
PV_POS = ["only", "first", "last", "forret"]
PV_NAMES = ["IRETURNVALUE", "RETURNVALUE", "ERROR", "EndOfSequence",
            "EnumerationContext", "QueryResultClass", "other"]
PV_KIDS = ["none", "VALUE", "VALUE.REFERENCE", "VALUE.ARRAY", "VALUE.REFARRAY",
           "CLASSNAME", "INSTANCENAME", "CLASS", "INSTANCE",
           "VALUE.NAMEDINSTANCE"]


def pv_applicable(shape, d):
    """python twin of RespPipeline!PvApplicable"""
    if shape == "export":
        return False
    if shape == "void":
        okpos = ("only",)
    elif shape in PULL_SHAPES or shape == "method":
        okpos = PV_POS
    else:
        okpos = ("only", "first", "last")
    if shape == "method":
        names = ["RETURNVALUE", "ERROR", "other"]
    else:
        names = ["IRETURNVALUE", "ERROR", "other"]
        if shape in PULL_SHAPES:
            names += ["EndOfSequence", "EnumerationContext"]
        if shape in QRC_SHAPES:
            names += ["QueryResultClass"]
    return d["site"] in okpos and d["ty"] in names


def pv_child(gen, kid):
    rng = gen.rng
    if kid == "none":
        return None, [None, "string", "boolean", "uint8"]
    if kid == "VALUE":
        return V(rng.choice(STR_POOL + ["TRUE", "FALSE", "7"])), \
            [None, "string", "boolean", "uint8"]
    if kid == "VALUE.ARRAY":
        return E("VALUE.ARRAY", None,
                 [V(rng.choice(STR_POOL)) for _ in range(rng.randint(0, 2))]), \
            [None, "string", "uint8"]
    if kid == "VALUE.REFERENCE":
        return gen.value_reference(), [None, "reference", "string"]
    if kid == "VALUE.REFARRAY":
        return E("VALUE.REFARRAY", None,
                 [gen.value_reference() for _ in range(rng.randint(0, 2))]), \
            [None, "reference"]
    if kid == "CLASSNAME":
        return gen.classname(), [None, "reference", "string"]
    if kid == "INSTANCENAME":
        return gen.instancename(), [None, "reference", "string"]
    if kid == "CLASS":
        return gen.klass(), [None, "string", "object"]
    if kid == "INSTANCE":
        return gen.instance(), [None, "string", "instance"]
    if kid == "VALUE.NAMEDINSTANCE":
        return gen.irv_elem("VALUE.NAMEDINSTANCE"), [None, "string", "instance"]
    raise AssertionError(kid)


@kind("o_pv", "optype", sites=PV_POS, tys=PV_NAMES, clss=PV_KIDS)
def o_pv(ctx, d):
    r = ctx.resp()
    rng = ctx.rng
    if r.name not in ("IMETHODRESPONSE", "METHODRESPONSE"):
        raise NotRenderable("no PARAMVALUE children in this response kind")
    retname = "IRETURNVALUE" if r.name == "IMETHODRESPONSE" else "RETURNVALUE"
    kid, ptypes = pv_child(ctx.gen, d["cls"])
    a = {"NAME": ctx.gen.uniq("Pv") if d["ty"] == "other" else d["ty"]}
    pt = rng.choice(ptypes)
    if pt is not None:
        a[rng.choice(["PARAMTYPE", "PARAMTYPE", "TYPE"])] = pt
    pv = E("PARAMVALUE", a, [kid] if kid is not None else [])
    ret = [k for k in r.elems() if k.name == retname]
    pos = d["site"]
    if pos == "only":
        r.kids = [pv]
        return
    if pos == "forret":
        r.kids = [pv] + [k for k in r.kids if k not in ret]
        return
    if not ret:
        # first / last are relative to the return element
        if retname == "IRETURNVALUE":
            r.kids.insert(0, E("IRETURNVALUE"))
        else:
            r.kids.insert(0, E("RETURNVALUE", {"PARAMTYPE": "uint8"},
                               [V("0")]))
    if pos == "first":
        r.kids.insert(0, pv)
    else:
        r.kids.append(pv)


@kind("p_eos", "optype", shapes=PULL_SHAPES,
      clss=["true", "lower", "false_ctx", "false_noctx", "missing_both",
            "missing_eos", "bogus", "emptyval", "novalue", "dup", "ws",
            "array", "paramtype_bogus", "one", "true_ctx_none"])
def p_eos(ctx, d):
    c = d["cls"]
    r = ctx.resp()
    rng = ctx.rng
    r.kids = [k for k in r.kids if not (
        isinstance(k, E) and k.name == "PARAMVALUE" and
        k.attrs.get("NAME") in ("EndOfSequence", "EnumerationContext"))]

    def pv(name, kid, ty=None):
        a = {"NAME": name}
        if ty:
            a["PARAMTYPE"] = ty
        return E("PARAMVALUE", a, [kid] if kid is not None else [])
    ctxp = pv("EnumerationContext", V("ctx1"), "string")
    if c == "true":
        r.kids += [pv("EndOfSequence", V("TRUE"), "boolean")]
    elif c == "true_ctx_none":
        r.kids += [pv("EndOfSequence", V("TRUE"), "boolean"),
                   pv("EnumerationContext", None, "string")]
    elif c == "lower":
        r.kids += [pv("EndOfSequence", V(rng.choice(["true", "True"])),
                      "boolean"), ctxp]
    elif c == "false_ctx":
        r.kids += [pv("EndOfSequence", V("FALSE"), "boolean"), ctxp]
    elif c == "false_noctx":
        r.kids += [pv("EndOfSequence", V("FALSE"), "boolean")]
    elif c == "missing_both":
        pass
    elif c == "missing_eos":
        r.kids += [ctxp]
    elif c == "bogus":
        r.kids += [pv("EndOfSequence", V(rng.choice(["maybe", "1", "T"])),
                      "boolean"), ctxp]
    elif c == "emptyval":
        r.kids += [pv("EndOfSequence", V(""), "boolean"), ctxp]
    elif c == "novalue":
        r.kids += [pv("EndOfSequence", None, "boolean"), ctxp]
    elif c == "dup":
        r.kids += [pv("EndOfSequence", V("TRUE"), "boolean"),
                   pv("EndOfSequence", V("FALSE"), "boolean"), ctxp]
    elif c == "ws":
        r.kids += [pv("EndOfSequence", V(" TRUE "), "boolean"), ctxp]
    elif c == "array":
        r.kids += [pv("EndOfSequence", E("VALUE.ARRAY", None, [V("TRUE")]),
                      "boolean"), ctxp]
    elif c == "paramtype_bogus":
        r.kids += [pv("EndOfSequence", V("TRUE"), rng.choice(
            ["uint8", "foo", "reference"])), ctxp]
    elif c == "one":
        r.kids += [pv("endofsequence", V("TRUE"), "boolean"),
                   pv("enumerationcontext", V("c"), "string")]


@kind("p_ctx", "optype", shapes=PULL_SHAPES,
      clss=["missing", "emptyval", "novalue", "dup", "array", "ref", "inst",
            "long", "paramtype_bogus"])
def p_ctx(ctx, d):
    c = d["cls"]
    r = ctx.resp()
    rng = ctx.rng
    r.kids = [k for k in r.kids if not (
        isinstance(k, E) and k.name == "PARAMVALUE" and
        k.attrs.get("NAME") in ("EndOfSequence", "EnumerationContext"))]
    eos = E("PARAMVALUE", {"NAME": "EndOfSequence", "PARAMTYPE": "boolean"},
            [V(rng.choice(["FALSE", "FALSE", "TRUE"]))])

    def pv(kid, ty="string"):
        return E("PARAMVALUE", {"NAME": "EnumerationContext",
                                "PARAMTYPE": ty},
                 [kid] if kid is not None else [])
    add = {"missing": [], "emptyval": [pv(V(""))], "novalue": [pv(None)],
           "dup": [pv(V("a")), pv(V("b"))],
           "array": [pv(E("VALUE.ARRAY", None, [V("a")]))],
           "ref": [pv(ctx.gen.value_reference(), "reference")],
           "inst": [pv(rng.choice([ctx.gen.instance(), ctx.gen.klass(),
                                   ctx.gen.instancename(),
                                   ctx.gen.classname()]))],
           "long": [pv(V("c" * 100000))],
           "paramtype_bogus": [pv(V("c"), rng.choice(["uint8", "foo"]))]}[c]
    r.kids += [eos] + add


@kind("p_misc", "optype", shapes=PULL_SHAPES,
      clss=["unknownparam", "empty", "noname", "emptyname", "twokids",
            "qrc_class", "qrc_notclass", "qrc_novalue", "qrc_missing",
            "embattr", "badchild", "onlyirv"])
def p_misc(ctx, d):
    c = d["cls"]
    r = ctx.resp()
    rng = ctx.rng
    if c.startswith("qrc_"):
        # the QueryResultClass output parameter in all its forms (replaces
        # the one a valid OpenQueryInstances answer has)
        r.kids = [k for k in r.kids if not (
            isinstance(k, E) and k.name == "PARAMVALUE" and
            k.attrs.get("NAME") == "QueryResultClass")]
    if c == "unknownparam":
        r.kids.append(E("PARAMVALUE", {"NAME": "Foo", "PARAMTYPE": "uint8"},
                        [V(rng.choice(["1", "x"]))]))
    elif c == "empty":
        r.kids = []
    elif c == "onlyirv":
        r.kids = [k for k in r.kids if not (isinstance(k, E) and
                                            k.name == "PARAMVALUE")]
        if not r.kids:
            r.kids = [E("IRETURNVALUE")]
    elif c == "noname":
        r.kids.append(E("PARAMVALUE", {"PARAMTYPE": "string"}, [V("x")]))
    elif c == "emptyname":
        r.kids.append(E("PARAMVALUE", {"NAME": ""}, [V("x")]))
    elif c == "twokids":
        r.kids.append(E("PARAMVALUE", {"NAME": "Foo"}, [V("x"), V("y")]))
    elif c == "qrc_class":
        r.kids.append(E("PARAMVALUE", {"NAME": "QueryResultClass"},
                        [ctx.gen.klass()]))
    elif c == "qrc_notclass":
        r.kids.append(E("PARAMVALUE", {"NAME": "QueryResultClass"},
                        [rng.choice([V("x"), ctx.gen.instance(),
                                     ctx.gen.classname()])]))
    elif c == "qrc_novalue":
        r.kids.append(E("PARAMVALUE", {"NAME": "QueryResultClass"}))
    elif c == "embattr":
        for k in r.elems():
            if k.name == "PARAMVALUE":
                k.attrs["EmbeddedObject"] = rng.choice(["instance", "object"])
    elif c == "badchild":
        r.kids.append(E("PARAMVALUE", {"NAME": "Foo"},
                        [rng.choice([E("VALUE.NULL"), E("FOO"),
                                     E("IRETURNVALUE"),
                                     ctx.gen.qualifier_declaration()])]))


@kind("m_misc", "optype", shapes=("method",),
      clss=["two_retvals", "retval_last", "retval_ref_notype",
            "retval_notype", "retval_type_bogus", "out_notype",
            "out_type_bogus", "out_ref_text", "out_class", "out_inst",
            "out_namedinst", "out_classname", "out_instname", "dup_out",
            "irv", "retval_empty", "out_noname", "retval_attr",
            "out_reftype_value", "retval_refarray", "out_hex", "retval_hex",
            "out_bool_false", "out_str_for_num"])
def m_misc(ctx, d):
    c = d["cls"]
    r = ctx.resp()
    g = ctx.gen
    rng = ctx.rng
    norv = [k for k in r.kids if not (isinstance(k, E) and
                                      k.name == "RETURNVALUE")]

    def rv(a, kid):
        return E("RETURNVALUE", a, [kid] if kid is not None else [])

    def out(a, kid):
        a = dict(a)
        a.setdefault("NAME", g.uniq("Om"))
        return E("PARAMVALUE", a, [kid] if kid is not None else [])
    if c == "two_retvals":
        r.kids = [rv({"PARAMTYPE": "uint8"}, V("1")),
                  rv({"PARAMTYPE": "uint8"}, V("2"))] + norv
    elif c == "retval_last":
        r.kids = norv + [out({"PARAMTYPE": "string"}, V("x")),
                         rv({"PARAMTYPE": "uint8"}, V("1"))]
    elif c == "retval_ref_notype":
        r.kids = [rv({}, g.value_reference())] + norv
    elif c == "retval_notype":
        r.kids = [rv({}, V(rng.choice(["1", "x", ""])))] + norv
    elif c == "retval_type_bogus":
        r.kids = [rv({"PARAMTYPE": rng.choice(["uint128", "", "UINT8",
                                               "object"])}, V("1"))] + norv
    elif c == "out_notype":
        r.kids.append(out({}, rng.choice([V("1"), V("x"),
                                          E("VALUE.ARRAY", None, [V("a")]),
                                          E("VALUE.ARRAY"), None])))
    elif c == "out_type_bogus":
        r.kids.append(out({"PARAMTYPE": rng.choice(["uint128", "", "UINT8"])},
                          V("1")))
    elif c == "out_ref_text":
        r.kids.append(out({"PARAMTYPE": "reference"},
                          V(rng.choice(["x", "/root:C.k=1", ""]))))
    elif c == "out_reftype_value":
        r.kids.append(out({"PARAMTYPE": "uint8"}, g.value_reference()))
    elif c == "out_class":
        r.kids.append(out({"PARAMTYPE": rng.choice(["string", "object"])},
                          g.klass()))
    elif c == "out_inst":
        r.kids.append(out(rng.choice([{}, {"PARAMTYPE": "instance"},
                                      {"PARAMTYPE": "uint8"}]), g.instance()))
    elif c == "out_namedinst":
        r.kids.append(out({}, g.irv_elem("VALUE.NAMEDINSTANCE")))
    elif c == "out_classname":
        r.kids.append(out(rng.choice([{}, {"PARAMTYPE": "reference"},
                                      {"PARAMTYPE": "string"}]),
                          g.classname()))
    elif c == "out_instname":
        r.kids.append(out(rng.choice([{}, {"PARAMTYPE": "reference"},
                                      {"PARAMTYPE": "string"}]),
                          g.instancename()))
    elif c == "dup_out":
        r.kids += [out({"NAME": "Dup", "PARAMTYPE": "string"}, V("a")),
                   out({"NAME": "dup", "PARAMTYPE": "uint8"}, V("1"))]
    elif c == "irv":
        r.kids.insert(0, E("IRETURNVALUE", None, [V("1")]))
    elif c == "retval_empty":
        r.kids = [rv(rng.choice([{}, {"PARAMTYPE": "uint8"}]), None)] + norv
    elif c == "out_noname":
        r.kids.append(E("PARAMVALUE", {"PARAMTYPE": "string"}, [V("x")]))
    elif c == "retval_attr":
        r.kids = [rv({"PARAMTYPE": "uint8", "NAME": "x"}, V("1"))] + norv
    elif c == "retval_refarray":
        r.kids = [rv({"PARAMTYPE": "reference"},
                     E("VALUE.REFARRAY", None, [g.value_reference()]))] + norv
    elif c == "out_hex":
        r.kids.append(out({"PARAMTYPE": rng.choice(INT_TYPES)},
                          V(rng.choice(["0x1f", "0X7F"]))))
    elif c == "retval_hex":
        r.kids = [rv({"PARAMTYPE": rng.choice(INT_TYPES)},
                     V(rng.choice(["0x1f", "0X7F"])))] + norv
    elif c == "out_bool_false":
        r.kids.append(out({"PARAMTYPE": "boolean"},
                          V(rng.choice(["false", "FALSE", "maybe", ""]))))
    elif c == "out_str_for_num":
        r.kids.append(out({"PARAMTYPE": rng.choice(NUM_TYPES)},
                          V(rng.choice(["abc", "", " "]))))


# ---------------------------------------------------------------------------
# Part 3: rendering a cell, transport adapter, operations
# ---------------------------------------------------------------------------

LEVEL = {"error": 0, "optype": 1, "value": 2, "envelope": 3}
TREE_KINDS_LAST = ("f_tree",)
BYTE_STAGES = ("utf8", "xml")
HTTP_STAGES = ("ctype", "status", "transport", "header")


def defect_ok(shape, d, has_error=False):
    """Is defect record d (k, site, ty, cls) meaningful for the shape?  This
    is the python twin of RespPipeline!Applicable; the check cross-checks the
    two through the cells TLC emits."""
    info = KINDS.get(d["k"])
    if info is None:
        return False
    if info["shapes"] is not None and shape not in info["shapes"]:
        return False
    if d["k"] == "o_pv":
        return (d["site"] in PV_POS and d["ty"] in PV_NAMES and
                d["cls"] in PV_KIDS and pv_applicable(shape, d))
    if info["sites"] is not None:
        if d["site"] not in info["sites"]:
            return False
        avail = set(SHAPE_SITES[shape])
        if has_error:
            avail |= set(ERROR_SITES)
        if d["site"] not in avail:
            return False
    elif d["site"] != "":
        return False
    if info["tys"] is not None:
        if d["ty"] not in info["tys"]:
            return False
    elif d["ty"] != "":
        return False
    if info["clss"] is not None:
        if d["cls"] not in info["clss"]:
            return False
    elif d["cls"] != "":
        return False
    if d["k"] in ("o_irv", "o_struct") and shape == "method":
        return False
    if info["ok"] is not None and not info["ok"](d):
        return False
    return True


class Resp:
    __slots__ = ("status", "reason", "headers", "body", "exc", "body_reader",
                 "redirect")

    def __init__(self, status=200, reason="OK", headers=None, body=b"",
                 exc=None, body_reader=None, redirect=None):
        self.status = status
        self.reason = reason
        self.headers = headers or []
        self.body = body
        self.exc = exc
        self.body_reader = body_reader
        self.redirect = redirect

    def describe(self, maxlen=4000):
        return {"status": self.status, "reason": self.reason,
                "headers": [list(h) for h in self.headers],
                "exc": repr(self.exc) if self.exc is not None else None,
                "body_reader": self.body_reader is not None,
                "body_latin1": self.body[:maxlen].decode("latin-1"),
                "body_len": len(self.body)}


def good_headers(rng):
    ct = rng.choice(['application/xml; charset="utf-8"',
                     "application/xml; charset=utf-8", "application/xml",
                     'text/xml; charset="utf-8"', "text/xml"])
    h = [(rng.choice(["Content-Type", "Content-type", "content-type"]), ct),
         ("CIMOperation", "MethodResponse")]
    if rng.random() < 0.3:
        h.append(("Cache-Control", "no-cache"))
    rng.shuffle(h)
    return h


def serialise(tree, rng, decl=True):
    d = rng.choice(['<?xml version="1.0" encoding="utf-8" ?>\n',
                    "<?xml version='1.0' encoding='UTF-8'?>",
                    '<?xml version="1.0"?>\n', ""]) if decl else ""
    return (d + tree.ser(rng) + rng.choice(["", "\n", "\r\n"])).encode("utf-8")


def render(shape, wire, defects, rng, eos=None):
    """Concrete HTTP response for an abstract cell."""
    gen = Gen(rng)
    need = any(d["site"] or d["k"] in ("f_tree",) for d in defects)
    tree = baseline(shape, wire, gen, need_objects=need, eos=eos)
    ctx = Ctx(shape, wire, rng, tree, gen)
    ctx.headers = good_headers(rng)
    stage = {id(d): KINDS[d["k"]]["stage"] for d in defects}

    def key(d):
        st = stage[id(d)]
        if d["k"] in TREE_KINDS_LAST:
            return 4
        return LEVEL.get(st, 9)
    tree_defs = sorted([d for d in defects if stage[id(d)] in LEVEL or
                        d["k"] in TREE_KINDS_LAST], key=key)
    for d in tree_defs:
        KINDS[d["k"]]["fn"](ctx, d)
    for d in defects:
        if d in tree_defs:
            continue
        KINDS[d["k"]]["fn"](ctx, d)
    body = serialise(ctx.tree, rng)
    if ctx.raw_body is not None:
        body = ctx.raw_body       # e.g. status 204: no content possible
    else:
        for tx in ctx.byte_tx:
            body = tx(body)
    for tx in ctx.hdr_tx:
        ctx.headers = ctx.headers + tx(body)
    return Resp(ctx.status, ctx.reason, ctx.headers, body, ctx.exc,
                ctx.body_reader, ctx.redirect)


WIRE_SHAPE = {
    "EnumerateInstances": "namedinsts", "EnumerateInstanceNames": "instnames",
    "GetInstance": "inst", "ModifyInstance": "void",
    "CreateInstance": "instname", "DeleteInstance": "void",
    "ExecQuery": "queryobjs",
    "OpenEnumerateInstances": "pull_inst",
    "OpenEnumerateInstancePaths": "pull_path",
    "OpenAssociatorInstances": "pull_inst",
    "OpenAssociatorInstancePaths": "pull_path",
    "OpenReferenceInstances": "pull_inst",
    "OpenReferenceInstancePaths": "pull_path",
    "OpenQueryInstances": "pull_query",
    "PullInstancesWithPath": "pull_inst", "PullInstancePaths": "pull_path",
    "PullInstances": "pull_query", "CloseEnumeration": "void",
    "EnumerateClasses": "classes", "EnumerateClassNames": "classnames",
    "GetClass": "class", "ModifyClass": "void", "CreateClass": "void",
    "DeleteClass": "void", "EnumerateQualifiers": "qualdecls",
    "GetQualifier": "qualdecl", "SetQualifier": "void",
    "DeleteQualifier": "void", "ExportIndication": "export",
}


class ScriptAdapter(BaseAdapter):
    """Transport adapter answering every request from a script: request
    number `target` gets the cell's response, every other request a valid
    response for the operation named in its CIMMethod header."""

    def __init__(self, target_resp, target_idx, rng, first_eos=None,
                 assoc_level="i"):
        super().__init__()
        self.target_resp = target_resp
        self.target_idx = target_idx
        self.rng = rng
        self.first_eos = first_eos
        self.assoc_level = assoc_level
        self.n = 0
        self._h = HTTPAdapter()

    def good(self, request):
        wire = request.headers.get("CIMMethod") or \
            request.headers.get("CIMExportMethod") or ""
        if isinstance(wire, bytes):
            wire = wire.decode()
        shape = WIRE_SHAPE.get(wire)
        if shape is None:
            if wire in ("Associators", "References"):
                shape = "objs_" + self.assoc_level
            elif wire in ("AssociatorNames", "ReferenceNames"):
                shape = "paths_" + self.assoc_level
            else:
                shape = "method"
        eos = True
        if self.n < self.target_idx and self.first_eos is not None:
            eos = self.first_eos
        return render(shape, wire, [], self.rng, eos=eos)

    def send(self, request, stream=False, timeout=None, verify=True,
             cert=None, proxies=None):
        self.n += 1
        if self.n > 60:
            raise requests.exceptions.ConnectionError("script exhausted")
        if self.n == self.target_idx or \
                (self.target_resp.redirect and self.n > self.target_idx):
            r = self.target_resp
        else:
            r = self.good(request)
        if r.exc is not None:
            raise r.exc
        body = r.body_reader(r.body) if r.body_reader else io.BytesIO(r.body)
        raw = urllib3.HTTPResponse(
            body=body, headers=urllib3.HTTPHeaderDict(r.headers),
            status=r.status, reason=r.reason, preload_content=False,
            decode_content=False, version=11)
        return self._h.build_response(request, raw)

    def close(self):
        pass


class Hang(BaseException):
    pass


def _on_alarm(signum, frame):
    raise Hang()


def guarded(fn, limit):
    """Run fn() under a watchdog; returns ("value", v) / ("error", exc) /
    ("hang", None)."""
    old = signal.signal(signal.SIGALRM, _on_alarm)
    signal.setitimer(signal.ITIMER_REAL, limit)
    try:
        try:
            return ("value", fn())
        except Hang:
            return ("hang", None)
        except Exception as exc:        # noqa: everything is an observation
            return ("error", exc)
        except BaseException as exc:    # SystemExit, GeneratorExit, ...
            if isinstance(exc, KeyboardInterrupt):
                raise
            return ("error", exc)
    finally:
        signal.setitimer(signal.ITIMER_REAL, 0)
        signal.signal(signal.SIGALRM, old)


# ---------------------------------------------------------------------------
# Part 4: the public operation methods of WBEMConnection
# ---------------------------------------------------------------------------

class Op:
    def __init__(self, name, shape, wire, call, check, label=None,
                 target_idx=1, pull=False, first_eos=None, assoc_level="i",
                 consume=None):
        self.name = name                 # WBEMConnection method
        self.label = label or name       # method + variant
        self.shape = shape               # shape of the targeted response
        self.wire = wire                 # CIMMethod of the targeted request
        self.call = call                 # (conn, rng) -> result
        self.check = check               # result -> bool (documented type)
        self.target_idx = target_idx
        self.pull = pull                 # use_pull_operations
        self.first_eos = first_eos
        self.assoc_level = assoc_level


def build_ops():
    import itertools
    import pywbem
    from pywbem import (CIMInstance, CIMInstanceName, CIMClass, CIMClassName,
                        CIMQualifierDeclaration, CIMType, CIMDateTime, Uint8)
    from pywbem._nocasedict import NocaseDict

    def ipath(rng):
        p = CIMInstanceName("CIM_Foo", {"k": rng.choice(["v", 1, True])})
        if rng.random() < 0.4:
            p.namespace = "root/x"
        return p

    def cname(rng):
        r = rng.random()
        if r < 0.6:
            return "CIM_Foo"
        return CIMClassName("CIM_Foo", namespace="root/x" if r < 0.8 else None)

    def inst(rng):
        i = CIMInstance("CIM_Foo", {"k": "v", "n": Uint8(1)})
        i.path = CIMInstanceName("CIM_Foo", {"k": "v"})
        return i

    def islist(t):
        return lambda r: isinstance(r, list) and all(isinstance(x, t)
                                                     for x in r)

    def isa(t):
        return lambda r: isinstance(r, t)

    def isnone(r):
        return r is None

    def cls_tuples(r):
        return isinstance(r, list) and all(
            isinstance(x, tuple) and len(x) == 2 and
            isinstance(x[0], CIMClassName) and isinstance(x[1], CIMClass)
            for x in r)

    def cimval(v):
        if v is None:
            return True
        if isinstance(v, list):
            return all(cimval(x) for x in v)
        return isinstance(v, (CIMType, str, bool, CIMInstanceName,
                              CIMClassName, CIMInstance, CIMClass))

    def method_result(r):
        return (isinstance(r, tuple) and len(r) == 2 and cimval(r[0]) and
                not isinstance(r[0], list) and
                isinstance(r[1], NocaseDict) and
                all(isinstance(k, str) and cimval(v)
                    for k, v in r[1].items()))

    def ctx_ok(c, eos):
        if c is None:
            return bool(eos)
        return (isinstance(c, tuple) and len(c) == 2 and
                isinstance(c[0], str) and isinstance(c[1], str))

    def pull_result(elem, field, query=False, qrc=False):
        def chk(r):
            if not isinstance(r, tuple) or not hasattr(r, "eos"):
                return False
            objs = getattr(r, field, None)
            if not (isinstance(objs, list) and
                    all(isinstance(x, elem) for x in objs)):
                return False
            if not isinstance(r.eos, bool) or not ctx_ok(r.context, r.eos):
                return False
            if query and not (r.query_result_class is None or
                              isinstance(r.query_result_class, CIMClass)):
                return False
            if qrc and not isinstance(r.query_result_class, CIMClass):
                return False      # documented for ReturnQueryResultClass=True
            return True
        return chk

    def consume(gen_):
        try:
            return list(itertools.islice(gen_, 200))
        finally:
            gen_.close()

    def iter_(meth, *a, **kw):
        def call(c, rng):
            return consume(getattr(c, meth)(*[x(rng) if callable(x) else x
                                              for x in a], **kw))
        return call

    def iterq(c, rng):
        r = c.IterQueryInstances("WQL", "select * from CIM_Foo",
                                 ReturnQueryResultClass=rng.choice(
                                     [None, False]))
        return (consume(r.generator), r.query_result_class)

    def iterq_c(c, rng):
        r = c.IterQueryInstances("WQL", "select * from CIM_Foo",
                                 ReturnQueryResultClass=True)
        return (consume(r.generator), r.query_result_class)

    def iterq_c_ok(r):
        return iterq_ok(r) and isinstance(r[1], CIMClass)

    def rng_iterq(c, rng):
        return (iterq_c if rng.random() < 0.5 else iterq)(c, rng)

    def iterq_fb(c, rng):
        r = c.IterQueryInstances("WQL", "select * from CIM_Foo")
        return (consume(r.generator), r.query_result_class)

    def iterq_ok(r):
        return (isinstance(r, tuple) and islist(CIMInstance)(r[0]) and
                (r[1] is None or isinstance(r[1], CIMClass)))

    pctx = ("ctx0", "root/cimv2")
    qd = CIMQualifierDeclaration("Q", "string")
    kl = CIMClass("CIM_Foo")
    ops = [
        Op("EnumerateInstances", "namedinsts", "EnumerateInstances",
           lambda c, g: c.EnumerateInstances(cname(g)), islist(CIMInstance)),
        Op("EnumerateInstanceNames", "instnames", "EnumerateInstanceNames",
           lambda c, g: c.EnumerateInstanceNames(cname(g)),
           islist(CIMInstanceName)),
        Op("GetInstance", "inst", "GetInstance",
           lambda c, g: c.GetInstance(ipath(g)), isa(CIMInstance)),
        Op("ModifyInstance", "void", "ModifyInstance",
           lambda c, g: c.ModifyInstance(inst(g)), isnone),
        Op("CreateInstance", "instname", "CreateInstance",
           lambda c, g: c.CreateInstance(inst(g)), isa(CIMInstanceName)),
        Op("DeleteInstance", "void", "DeleteInstance",
           lambda c, g: c.DeleteInstance(ipath(g)), isnone),
        Op("Associators", "objs_i", "Associators",
           lambda c, g: c.Associators(ipath(g)), islist(CIMInstance),
           label="Associators/inst"),
        Op("Associators", "objs_c", "Associators",
           lambda c, g: c.Associators(cname(g)), cls_tuples,
           label="Associators/class", assoc_level="c"),
        Op("AssociatorNames", "paths_i", "AssociatorNames",
           lambda c, g: c.AssociatorNames(ipath(g)), islist(CIMInstanceName),
           label="AssociatorNames/inst"),
        Op("AssociatorNames", "paths_c", "AssociatorNames",
           lambda c, g: c.AssociatorNames(cname(g)), islist(CIMClassName),
           label="AssociatorNames/class", assoc_level="c"),
        Op("References", "objs_i", "References",
           lambda c, g: c.References(ipath(g)), islist(CIMInstance),
           label="References/inst"),
        Op("References", "objs_c", "References",
           lambda c, g: c.References(cname(g)), cls_tuples,
           label="References/class", assoc_level="c"),
        Op("ReferenceNames", "paths_i", "ReferenceNames",
           lambda c, g: c.ReferenceNames(ipath(g)), islist(CIMInstanceName),
           label="ReferenceNames/inst"),
        Op("ReferenceNames", "paths_c", "ReferenceNames",
           lambda c, g: c.ReferenceNames(cname(g)), islist(CIMClassName),
           label="ReferenceNames/class", assoc_level="c"),
        Op("InvokeMethod", "method", "Frob",
           lambda c, g: c.InvokeMethod("Frob", g.choice([cname(g), ipath(g)]),
                                       [("a", Uint8(1))], b="x"),
           method_result),
        Op("ExecQuery", "queryobjs", "ExecQuery",
           lambda c, g: c.ExecQuery("WQL", "select * from CIM_Foo"),
           islist(CIMInstance)),
        Op("OpenEnumerateInstances", "pull_inst", "OpenEnumerateInstances",
           lambda c, g: c.OpenEnumerateInstances(cname(g), MaxObjectCount=10),
           pull_result(CIMInstance, "instances")),
        Op("OpenEnumerateInstancePaths", "pull_path",
           "OpenEnumerateInstancePaths",
           lambda c, g: c.OpenEnumerateInstancePaths(cname(g)),
           pull_result(CIMInstanceName, "paths")),
        Op("OpenAssociatorInstances", "pull_inst", "OpenAssociatorInstances",
           lambda c, g: c.OpenAssociatorInstances(ipath(g)),
           pull_result(CIMInstance, "instances")),
        Op("OpenAssociatorInstancePaths", "pull_path",
           "OpenAssociatorInstancePaths",
           lambda c, g: c.OpenAssociatorInstancePaths(ipath(g)),
           pull_result(CIMInstanceName, "paths")),
        Op("OpenReferenceInstances", "pull_inst", "OpenReferenceInstances",
           lambda c, g: c.OpenReferenceInstances(ipath(g)),
           pull_result(CIMInstance, "instances")),
        Op("OpenReferenceInstancePaths", "pull_path",
           "OpenReferenceInstancePaths",
           lambda c, g: c.OpenReferenceInstancePaths(ipath(g)),
           pull_result(CIMInstanceName, "paths")),
        Op("OpenQueryInstances", "pull_query", "OpenQueryInstances",
           lambda c, g: c.OpenQueryInstances(
               "WQL", "select * from CIM_Foo",
               ReturnQueryResultClass=g.choice([None, False])),
           pull_result(CIMInstance, "instances", query=True)),
        Op("OpenQueryInstances", "pull_queryc", "OpenQueryInstances",
           lambda c, g: c.OpenQueryInstances(
               "WQL", "select * from CIM_Foo", ReturnQueryResultClass=True),
           pull_result(CIMInstance, "instances", query=True, qrc=True),
           label="OpenQueryInstances/qrc"),
        Op("PullInstancesWithPath", "pull_inst", "PullInstancesWithPath",
           lambda c, g: c.PullInstancesWithPath(pctx, 10),
           pull_result(CIMInstance, "instances")),
        Op("PullInstancePaths", "pull_path", "PullInstancePaths",
           lambda c, g: c.PullInstancePaths(pctx, 10),
           pull_result(CIMInstanceName, "paths")),
        Op("PullInstances", "pull_query", "PullInstances",
           lambda c, g: c.PullInstances(pctx, 10),
           pull_result(CIMInstance, "instances")),
        Op("CloseEnumeration", "void", "CloseEnumeration",
           lambda c, g: c.CloseEnumeration(pctx), isnone),
        Op("EnumerateClasses", "classes", "EnumerateClasses",
           lambda c, g: c.EnumerateClasses(), islist(CIMClass)),
        Op("EnumerateClassNames", "classnames", "EnumerateClassNames",
           lambda c, g: c.EnumerateClassNames(), islist(str)),
        Op("GetClass", "class", "GetClass",
           lambda c, g: c.GetClass(cname(g)), isa(CIMClass)),
        Op("ModifyClass", "void", "ModifyClass",
           lambda c, g: c.ModifyClass(kl), isnone),
        Op("CreateClass", "void", "CreateClass",
           lambda c, g: c.CreateClass(kl), isnone),
        Op("DeleteClass", "void", "DeleteClass",
           lambda c, g: c.DeleteClass(cname(g)), isnone),
        Op("EnumerateQualifiers", "qualdecls", "EnumerateQualifiers",
           lambda c, g: c.EnumerateQualifiers(),
           islist(CIMQualifierDeclaration)),
        Op("GetQualifier", "qualdecl", "GetQualifier",
           lambda c, g: c.GetQualifier("Q"), isa(CIMQualifierDeclaration)),
        Op("SetQualifier", "void", "SetQualifier",
           lambda c, g: c.SetQualifier(qd), isnone),
        Op("DeleteQualifier", "void", "DeleteQualifier",
           lambda c, g: c.DeleteQualifier("Q"), isnone),
        Op("ExportIndication", "export", "ExportIndication",
           lambda c, g: c.ExportIndication(inst(g)), isnone),
    ]
    iters = [
        ("IterEnumerateInstances", cname, "OpenEnumerateInstances",
         "PullInstancesWithPath", "pull_inst", "EnumerateInstances",
         "namedinsts", CIMInstance),
        ("IterEnumerateInstancePaths", cname, "OpenEnumerateInstancePaths",
         "PullInstancePaths", "pull_path", "EnumerateInstanceNames",
         "instnames", CIMInstanceName),
        ("IterAssociatorInstances", ipath, "OpenAssociatorInstances",
         "PullInstancesWithPath", "pull_inst", "Associators", "objs_i",
         CIMInstance),
        ("IterAssociatorInstancePaths", ipath, "OpenAssociatorInstancePaths",
         "PullInstancePaths", "pull_path", "AssociatorNames", "paths_i",
         CIMInstanceName),
        ("IterReferenceInstances", ipath, "OpenReferenceInstances",
         "PullInstancesWithPath", "pull_inst", "References", "objs_i",
         CIMInstance),
        ("IterReferenceInstancePaths", ipath, "OpenReferenceInstancePaths",
         "PullInstancePaths", "pull_path", "ReferenceNames", "paths_i",
         CIMInstanceName),
    ]
    for meth, arg, wopen, wpull, pshape, wtrad, tshape, elem in iters:
        ops.append(Op(meth, pshape, wopen, iter_(meth, arg), islist(elem),
                      label=meth + "/open", pull=True))
        ops.append(Op(meth, pshape, wpull, iter_(meth, arg), islist(elem),
                      label=meth + "/pull", pull=True, target_idx=2,
                      first_eos=False))
        ops.append(Op(meth, tshape, wtrad, iter_(meth, arg), islist(elem),
                      label=meth + "/trad", pull=False))
    ops.append(Op("IterQueryInstances", "pull_query", "OpenQueryInstances",
                  iterq, iterq_ok, label="IterQueryInstances/open", pull=True))
    ops.append(Op("IterQueryInstances", "pull_queryc", "OpenQueryInstances",
                  iterq_c, iterq_c_ok, label="IterQueryInstances/open/qrc",
                  pull=True))
    ops.append(Op("IterQueryInstances", "pull_query", "PullInstances",
                  rng_iterq, iterq_ok, label="IterQueryInstances/pull", pull=True,
                  target_idx=2, first_eos=False))
    ops.append(Op("IterQueryInstances", "queryobjs", "ExecQuery",
                  iterq_fb, iterq_ok, label="IterQueryInstances/trad",
                  pull=False))
    return ops


def public_operation_methods():
    """Names of the public WBEMConnection methods that issue requests
    (upper-case initial by pywbem's convention)."""
    import inspect
    import pywbem
    return sorted(n for n, f in inspect.getmembers(pywbem.WBEMConnection,
                                                   inspect.isfunction)
                  if n[0].isupper())


PYWBEM_DOCUMENTED = ["CIMError", "CIMXMLParseError", "XMLParseError",
                     "HeaderParseError", "ParseError", "CIMVersionError",
                     "DTDVersionError", "ProtocolVersionError", "VersionError",
                     "HTTPError", "AuthError", "ConnectionError",
                     "TimeoutError", "ModelError", "Error"]


def run_call(op, resp, rng, limit=20.0):
    """Drive one operation against one scripted response.  Returns the
    observation dict (the abstract event fields) and a short detail text."""
    import pywbem
    conn = pywbem.WBEMConnection("http://srv:5988",
                                 default_namespace="root/cimv2", timeout=5,
                                 use_pull_operations=op.pull)
    ad = ScriptAdapter(resp, op.target_idx, rng, first_eos=op.first_eos,
                       assoc_level=op.assoc_level)
    conn.session.mount("http://", ad)
    conn.session.mount("https://", ad)
    kind_, val = guarded(lambda: op.call(conn, rng), limit)
    obs = {"kind": kind_, "cls": "", "pywbem": False, "req": False,
           "resp": False, "typeok": False, "nreq": ad.n}
    detail = ""
    if kind_ == "value":
        try:
            obs["typeok"] = bool(op.check(val))
        except Exception as exc:     # noqa
            obs["typeok"] = False
            detail = "type check raised %r" % exc
        if not obs["typeok"]:
            detail = "returned %s" % repr(val)[:300]
    elif kind_ == "error":
        exc = val
        obs["pywbem"] = isinstance(exc, pywbem.Error)
        name = type(exc).__name__
        if obs["pywbem"]:
            for k in type(exc).__mro__:
                if k.__module__ == "pywbem._exceptions":
                    name = k.__name__
                    break
        obs["cls"] = name
        obs["req"] = getattr(exc, "request_data", None) is not None
        obs["resp"] = getattr(exc, "response_data", None) is not None
        import hashlib
        import traceback
        tb = traceback.extract_tb(exc.__traceback__)
        where = ""
        # innermost frame inside the response-processing modules; otherwise
        # the innermost pywbem / xml frame
        anchored = ("_cim_operations.py", "_tupleparse.py", "_tupletree.py",
                    "_cim_http.py")
        pick = None
        for fr in reversed(tb):
            if fr.filename.split("/")[-1] in anchored and \
                    "/pywbem/" in fr.filename:
                pick = fr
                break
        if pick is None:
            for fr in reversed(tb):
                if "/pywbem/" in fr.filename or "/xml/" in fr.filename:
                    pick = fr
                    break
        if pick is not None:
            line = " ".join((pick.line or "").split())
            where = "%s:%s:L%s:%s" % (
                pick.filename.split("/")[-1], pick.name,
                hashlib.sha1(line.encode()).hexdigest()[:6], line[:80])
        detail = "%s: %s @ %s" % (type(exc).__name__, str(exc)[:200], where)
    try:
        conn.close()
    except Exception:       # noqa
        pass
    return obs, detail
