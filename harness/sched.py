"""
Controlled concurrency for the real pywbem.WBEMListener (C16).

The listener's own code runs unmodified on real Python threads, but every
thread that takes part is *gated*: it stops at each synchronising primitive
(`Sched.point`) and only continues when the scheduler grants it a step, so
exactly one thread runs at a time and a schedule (a sequence of thread choices)
determines the execution.  The primitives are substituted from outside, without
source changes, by rebinding names in the `pywbem._listener` module namespace
(`queue`, `sleep`, `CallbackThread`, `make_server`) and by a WBEMListener
subclass whose `_ind_queue` attribute is a property (so that reading and
clearing the queue reference are scheduling points of their own).
"""
import collections
import queue as real_queue
import threading
import types

import pywbem
import pywbem._listener as L
from pywbem import _cim_xml as X

ORIG = dict(queue=L.queue, sleep=L.sleep, CallbackThread=L.CallbackThread,
            make_server=L.make_server)


class Deadlock(Exception):
    pass


class Abort(BaseException):
    """Raised inside gated threads of an execution that was cut off
    (livelock / budget): without it a thread polling in the listener's code
    (e.g. stop() draining a queue nobody consumes) would spin forever in the
    background of all later executions."""


class TState:
    def __init__(self, name):
        self.name = name
        self.go = threading.Semaphore(0)
        self.state = "new"       # new | ready | running | done
        self.label = ""
        self.enabled = lambda: True


class Sched:
    def __init__(self):
        self.lock = threading.Condition()
        self.running = 0
        self.ts = collections.OrderedDict()
        self.by_ident = {}
        self.events = []
        self.steps = 0
        self.active = True
        self.aborted = False
        self.trace = []          # (thread, label) of every granted step

    # -- called from gated threads -------------------------------------------
    def me(self):
        return self.by_ident.get(threading.get_ident())

    def register(self, name):
        """Called by the STARTER before a gated thread is started."""
        with self.lock:
            self.ts[name] = TState(name)
            self.running += 1

    def begin(self, name):
        """First thing a gated thread does."""
        self.by_ident[threading.get_ident()] = name
        self.point("begin")

    def end(self):
        name = self.me()
        with self.lock:
            self.ts[name].state = "done"
            self.running -= 1
            self.lock.notify_all()

    def point(self, label, enabled=None):
        name = self.me()
        if name is None:            # not a gated thread (e.g. server thread)
            return
        if not self.active:
            if self.aborted:
                raise Abort()
            return
        st = self.ts[name]
        with self.lock:
            st.label = label
            st.enabled = enabled or (lambda: True)
            st.state = "ready"
            self.running -= 1
            self.lock.notify_all()
        st.go.acquire()
        if not self.active and self.aborted:
            raise Abort()

    def emit(self, **ev):
        self.events.append(ev)

    # -- called from the driver ------------------------------------------------
    def wait_quiet(self, timeout=20):
        with self.lock:
            if not self.lock.wait_for(lambda: self.running == 0, timeout):
                raise Deadlock("threads did not reach a scheduling point: %s" %
                               [(t.name, t.state, t.label)
                                for t in self.ts.values()])

    def ready(self):
        out = []
        for t in self.ts.values():
            if t.state == "ready":
                try:
                    ok = t.enabled()
                except Exception:
                    ok = True
                if ok:
                    out.append(t.name)
        return out

    def grant(self, name):
        st = self.ts[name]
        with self.lock:
            st.state = "running"
            self.running += 1
        self.steps += 1
        self.trace.append((name, st.label))
        st.go.release()
        self.wait_quiet()

    def all_done(self):
        return all(t.state == "done" for t in self.ts.values())

    def run(self, chooser, max_steps=4000):
        self.wait_quiet()
        spin, last = 0, None
        while self.steps < max_steps:
            rd = self.ready()
            if not rd:
                if self.all_done():
                    return "done"
                return "deadlock"
            # one thread running alone for a long time while nobody else can
            # run any more is polling for something that will never happen:
            # a livelock, e.g. a stop() draining a queue whose consumer has
            # gone (a complete stop() or delivery sequence takes < 100 steps)
            if len(rd) == 1 and rd == last:
                spin += 1
                if spin > 250:
                    return "livelock"
            else:
                spin = 0
            last = rd
            self.grant(chooser(rd, self))
        return "budget"

    def release_all(self, abort=False):
        """Machinery cleanup: let every thread run freely to its end, or -
        when the execution was cut off - make it unwind (Abort)."""
        self.aborted = abort
        self.active = False
        for t in self.ts.values():
            if t.state == "ready":
                t.go.release()


# ---------------------------------------------------------------------------
# shims
# ---------------------------------------------------------------------------

def make_queue_module(sched):
    class SQueue:
        def __init__(self, maxsize=0):
            self.maxsize = maxsize
            self.d = collections.deque()
            self.unfinished = 0

        def qsize(self):
            return len(self.d)

        def empty(self):
            sched.point("queue.empty")
            return not self.d

        def full(self):
            return 0 < self.maxsize <= len(self.d)

        def put(self, item, block=True, timeout=None):
            sched.point("queue.put")
            if 0 < self.maxsize <= len(self.d):
                if block:
                    raise AssertionError("blocking put on a full queue")
                raise real_queue.Full
            self.d.append(item)
            self.unfinished += 1

        put_nowait = lambda self, item: self.put(item, block=False)  # noqa

        def get(self, block=True, timeout=None):
            sched.point("queue.get")
            if not self.d:
                raise real_queue.Empty      # the timeout fires now
            return self.d.popleft()

        def task_done(self):
            sched.point("queue.task_done")
            if self.unfinished <= 0:
                raise ValueError("task_done() called too many times")
            self.unfinished -= 1

    m = types.ModuleType("queue_shim")
    m.Queue = SQueue
    m.Empty = real_queue.Empty
    m.Full = real_queue.Full
    return m


class FakeSocket:
    def __init__(self, data):
        import io
        self.rf = io.BytesIO(data)
        self.out = bytearray()

    def makefile(self, mode, bufsize=-1):
        return self.rf

    def sendall(self, b):
        self.out += bytes(b)

    def settimeout(self, t):
        pass

    def setsockopt(self, *a):
        pass

    def shutdown(self, how):
        pass

    def close(self):
        pass


class FakeServer:
    """Stands in for ThreadedHTTPServer: no socket; senders call the real
    request handler class directly while the server is up."""

    def __init__(self, sched, handler_class):
        self.sched = sched
        self.handler_class = handler_class
        self.up = False
        self.closed = False
        self.active = 0
        self._ev = threading.Event()
        self.listener = None

    def serve_forever(self, poll_interval=0.5):
        self.up = True
        self._ev.wait()

    def shutdown(self):
        self.sched.point("server.shutdown")
        self.up = False
        self._ev.set()

    def server_close(self):
        # ThreadingMixIn.server_close() joins the handler threads
        self.sched.point("server.server_close",
                         enabled=lambda: self.active == 0)
        self.closed = True

    def handle(self, body):
        """Run the real ListenerRequestHandler on one request; returns the
        raw response bytes."""
        req = (b"POST / HTTP/1.1\r\nHost: x\r\nContent-Type: application/xml; "
               b"charset=utf-8\r\nCIMExport: MethodRequest\r\n"
               b"CIMExportMethod: ExportIndication\r\nAccept-Charset: utf-8\r\n"
               b"Content-Length: " + str(len(body)).encode() +
               b"\r\nConnection: close\r\n\r\n" + body)
        sock = FakeSocket(req)
        self.handler_class(sock, ("127.0.0.1", 5), self)
        return bytes(sock.out)


def export_request(s, n):
    inst = pywbem.CIMInstance("VTest_Indication", properties=[
        pywbem.CIMProperty("Sender", s, type="string"),
        pywbem.CIMProperty("Seq", pywbem.Uint32(n))])
    msg = X.CIM(X.MESSAGE(X.SIMPLEEXPREQ(X.EXPMETHODCALL(
        "ExportIndication",
        [X.EXPPARAMVALUE("NewIndication", inst.tocimxml())])),
        "%s-%d" % (s, n), "1.4"), "2.0", "2.0")
    return msg.toxml().encode("utf-8")


def classify_response(raw):
    if not raw:
        return "dropped"
    head = raw.split(b"\r\n", 1)[0]
    if b" 200 " not in head + b" ":
        return "http" + head.split(b" ")[1].decode("ascii", "replace") \
            if len(head.split(b" ")) > 1 else "dropped"
    if b"<ERROR" in raw:
        return "err"
    return "ok"


def make_exception(kind, c):
    """The exceptions application callbacks raise in practice: with a
    message, without any argument (bare `raise RuntimeError`, a failed
    `assert`, StopIteration from next()), with a non-string argument."""
    if kind == "noargs":
        return RuntimeError()
    if kind == "assert":
        return AssertionError()
    if kind == "stopiter":
        return StopIteration()
    if kind == "keyerror":
        return KeyError(c)
    if kind == "unicode":
        return ValueError("callback %d f\u00e4ils \U0001F600 %%s %%d" % c)
    return RuntimeError("callback %d fails" % c)


RAISE_KINDS = ["msg", "noargs", "assert", "stopiter", "keyerror", "unicode"]


class Scenario:
    """One controlled execution of a real listener."""

    def __init__(self, senders, nind, ncb, maxq, raising_cb=0, restart=False,
                 slow_steps=1, raise_kind="msg", late_cb=False):
        self.sched = Sched()
        self.senders = senders
        self.nind = nind
        self.ncb = ncb
        self.maxq = maxq
        self.raising_cb = raising_cb
        self.raise_kind = raise_kind    # what a raising callback raises
        self.late_cb = late_cb          # add_callback() while running
        self.started_once = False
        self.main_finished = False
        self.restart = restart
        self.slow_steps = slow_steps
        self.server = None
        self.threads = []

    def install(self):
        sched = self.sched
        scen = self
        L.queue = make_queue_module(sched)
        L.sleep = lambda t: sched.point("sleep")

        class GCallbackThread(ORIG["CallbackThread"]):
            def start(self):
                sched.register("cb")
                scen.threads.append(self)
                super().start()

            def run(self):
                try:
                    self._gated_run()
                except Abort:
                    pass

            def _gated_run(self):
                sched.begin("cb")
                try:
                    super().run()
                finally:
                    sched.emit(ev="cb_exit",
                               exc=type(self.exception).__name__
                               if self.exception else "")
                    sched.end()

            def stop(self):
                sched.point("stop_event.set")
                super().stop()

            def stopped(self):
                sched.point("stop_event.is_set")
                return super().stopped()

            def join(self, *a, **kw):
                timeout = a[0] if a else kw.get("timeout")
                if timeout is not None:
                    # a bounded join may give up at any moment: the point is
                    # always enabled, and when the thread has not finished by
                    # the time it is scheduled, the timeout has elapsed
                    sched.point("callback_thread.join(timeout)")
                    if sched.ts["cb"].state != "done":
                        sched.emit(ev="join_timeout")
                        return None
                    return super().join()
                sched.point("callback_thread.join",
                            enabled=lambda: not self.is_alive() or
                            sched.ts["cb"].state == "done")
                return super().join(*a, **kw)

        L.CallbackThread = GCallbackThread

        def make_server(logger, host, port, handler):
            sched.point("make_server")
            scen.server = FakeServer(sched, handler)
            return scen.server
        L.make_server = make_server

        class GListener(L.WBEMListener):
            def _get_q(self):
                sched.point("read _ind_queue")
                return self.__dict__.get("_ind_queue_value")

            def _set_q(self, v):
                sched.point("write _ind_queue")
                self.__dict__["_ind_queue_value"] = v
            _ind_queue = property(_get_q, _set_q)

        self.listener = GListener("localhost", http_port=50999,
                                  max_ind_queue_size=self.maxq)
        for c in range(1, self.ncb + 1):
            self.listener.add_callback(self.make_callback(c))

    @staticmethod
    def uninstall():
        for k, v in ORIG.items():
            setattr(L, k, v)

    def make_callback(self, c):
        sched = self.sched
        raising = (c == self.raising_cb)
        steps = self.slow_steps

        def cb(indication, host):
            for _ in range(steps):
                sched.point("callback %d" % c)     # arbitrary duration
            sched.emit(ev="deliver", c=c, s=indication["Sender"],
                       n=int(indication["Seq"]), raised=raising)
            if raising:
                raise make_exception(self.raise_kind, c)
        cb.__name__ = "callback_%d" % c
        return cb

    def main_body(self):
        sched = self.sched
        try:
            sched.begin("main")
            self._main(sched)
        except Abort:
            pass

    def _main(self, sched):
        try:
            rounds = 2 if self.restart else 1
            for r in range(rounds):
                try:
                    self.listener.start()
                    sched.emit(ev="started",
                               ncb=len(self.listener._callbacks), ok=True,
                               exc="")
                    self.started_once = True
                except Exception as exc:  # noqa
                    sched.emit(ev="started", ncb=self.ncb, ok=False,
                               exc=type(exc).__name__)
                    break
                sched.point("main: listener running")
                try:
                    self.listener.stop()
                    exc = ""
                except Exception as e:  # noqa
                    exc = type(e).__name__
                alive = [t.name for t in self.threads if t.is_alive() and
                         sched.ts["cb"].state != "done"]
                sched.emit(ev="stop_returned", exc=exc, threads=len(alive),
                           server_closed=bool(self.server and
                                              self.server.closed))
                if exc:
                    # can the listener be started again?
                    pass
        finally:
            self.main_finished = True
            sched.end()

    def adder_body(self):
        try:
            self._adder()
        except Abort:
            pass

    def _adder(self):
        # the application registers one more callback while the listener runs
        sched = self.sched
        sched.begin("adder")
        try:
            sched.point("adder: add_callback",
                        enabled=lambda: self.started_once or self.main_finished)
            c = self.ncb + 1
            try:
                self.listener.add_callback(self.make_callback(c))
                exc = ""
            except Exception as e:  # noqa
                exc = type(e).__name__
            sched.emit(ev="add_callback", c=c, exc=exc)
        finally:
            sched.end()

    def sender_body(self, s):
        try:
            self._sender(s)
        except Abort:
            pass

    def _sender(self, s):
        sched = self.sched
        sched.begin(s)
        try:
            for n in range(1, self.nind + 1):
                sched.point("sender connect",
                            enabled=lambda: self.server is not None)
                srv = self.server
                if srv is None or not srv.up:
                    sched.emit(ev="resp", s=s, n=n, kind="refused")
                    break
                sched.emit(ev="req", s=s, n=n)
                srv.active += 1
                try:
                    raw = srv.handle(export_request(s, n))
                    kind = classify_response(raw)
                except Exception as exc:  # noqa: handler crashed
                    kind = "dropped"
                finally:
                    srv.active -= 1
                sched.emit(ev="resp", s=s, n=n, kind=kind)
        finally:
            sched.end()

    def run(self, chooser, max_steps=3000):
        self.install()
        sched = self.sched
        try:
            sched.register("main")
            tm = threading.Thread(target=self.main_body, name="main",
                                  daemon=True)
            ths = [tm]
            for s in self.senders:
                sched.register(s)
                ths.append(threading.Thread(target=self.sender_body, args=(s,),
                                            name=s, daemon=True))
            if self.late_cb:
                sched.register("adder")
                ths.append(threading.Thread(target=self.adder_body,
                                            name="adder", daemon=True))
            for t in ths:
                t.start()
            outcome = "machinery:unfinished"
            try:
                outcome = sched.run(chooser, max_steps)
            except Deadlock as exc:
                outcome = "machinery:" + str(exc)
            sched.emit(ev="end", outcome=outcome)
            return outcome
        finally:
            sched.release_all(abort=outcome != "done")
            if self.server is not None:
                self.server._ev.set()
            self.uninstall()
