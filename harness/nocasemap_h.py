"""
Drivers for X05 (extension): pywbem.NocaseDict and NocaseList as state
machines.

An abstract key / list item is [base, variant] (None is [0, 0]); an abstract
dict item is [base, variant, value].  `Family` concretises bases to casefold
classes (three lexical variants each, non-ASCII folds included) and projects
whatever the real objects return back; anything that does not project
becomes [-1, -1] / -9, which no clause of the requirement accepts.

DictDriver / ListDriver execute abstract calls (dicts with the fields of
`NocaseMapImpl!Call` / `NocaseMapSeqImpl!Call`) on a real object and record,
for every call, the observed result and a full dump through the public API.
Python never judges: the events go to TLC (NocaseMapTrace / NocaseMapSeqTrace).
"""
import copy
import pickle
from collections import OrderedDict

import pywbem
from pywbem import NocaseDict, CIMInstanceName, CIMProperty
from pywbem._vendor.nocaselist import NocaseList

# Every family: base -> three variants with one casefold; the casefolded
# strings ascend with the base number; base 2 variant 1 is a string whose
# lower() differs from its casefold() (sharp s / final sigma).
FAMILIES = [
    {1: ["cim_name", "CIM_NAME", "Cim_Name"],
     2: ["stra\u00dfe", "STRASSE", "Stra\u1e9ee"],          # sharp s
     3: ["\u03c9mega", "\u03a9MEGA", "\u2126mega"]},        # omega, Ohm sign
    {1: ["ab", "AB", "aB"],
     2: ["\u03c2", "\u03a3", "\u03c3"],                     # the three sigmas
     3: ["\u03c9", "\u03a9", "\u2126"]},
    {1: ["k1", "K1", "\u212a1"],                            # Kelvin sign
     2: ["\u00df", "SS", "\u1e9e"],                         # folds to 'ss'
     3: ["\ufb06", "ST", "St"]},                            # ligature st
    {1: ["\u01c6x", "\u01c4X", "\u01c5x"],                  # dz digraphs
     2: ["\u03ac\u03c2", "\u0386\u03a3", "\u03ac\u03c3"],
     3: ["\u1e61", "\u1e60", "\u1e9b"]},                   # long s with dot
]
NBASES = 3
NVARS = 3


def check_families():
    for fam in FAMILIES:
        folds = []
        for b in range(1, NBASES + 1):
            vs = fam[b]
            assert len(set(vs)) == NVARS, vs
            cf = set(v.casefold() for v in vs)
            assert len(cf) == 1, (vs, cf)
            folds.append(cf.pop())
        assert folds == sorted(folds) and len(set(folds)) == NBASES, folds
        assert fam[2][0].lower() != fam[2][0].casefold(), fam[2]


check_families()


class Named:
    """Object with a `name` attribute (KeyableByMixin('name') form)."""

    def __init__(self, name, val):
        self.name = name
        self.val = val

    def __repr__(self):
        return "Named(%r, %r)" % (self.name, self.val)


class Family:
    def __init__(self, rng, idx=None):
        self.rng = rng
        self.idx = rng.randrange(len(FAMILIES)) if idx is None else idx
        self.fam = FAMILIES[self.idx]
        self.back = {}
        self.foldback = {}
        for b, vs in self.fam.items():
            for i, v in enumerate(vs):
                self.back[v] = [b, i + 1]
            self.foldback[vs[0].casefold()] = b

    def key(self, k):
        if k[0] == 0:
            return None
        return self.fam[k[0]][k[1] - 1]

    def anyvariant(self, b):
        return None if b == 0 else self.rng.choice(self.fam[b])

    def pkey(self, x):
        if x is None:
            return [0, 0]
        if isinstance(x, str) and x in self.back:
            return list(self.back[x])
        return [-1, -1]

    def pfold(self, x):
        if x is None:
            return 0
        return self.foldback.get(x, -1) if isinstance(x, str) else -1

    @staticmethod
    def pval(x):
        if x is None:
            return 0
        if isinstance(x, bool):
            return -9
        if isinstance(x, int):
            return x if 0 < x < 100 else -9
        if isinstance(x, Named):
            return x.val
        if isinstance(x, CIMProperty):
            try:
                return int(x.value)
            except Exception:  # noqa
                return -9
        return -9

    def pitem(self, it):
        try:
            k, v = it
        except Exception:  # noqa
            return [-1, -1, -9]
        return self.pkey(k) + [self.pval(v)]

    def pitems(self, it):
        try:
            return [self.pitem(x) for x in it]
        except Exception:  # noqa
            return [[-1, -1, -9]]

    def pkeys(self, it):
        try:
            return [self.pkey(x) for x in it]
        except Exception:  # noqa
            return [[-1, -1]]


def errname(exc):
    return type(exc).__name__


# ----------------------------------------------------------------------------
# NocaseDict
# ----------------------------------------------------------------------------

D_R0 = dict(tag="none", val=0, err="", item=[0, 0, 0], items=[], type="",
            unn=False)
D_C0 = dict(op="", k=[0, 0], val=0, hasd=False, form="", pairs=[], kw=[],
            nargs=0, flag=False, via="")
D_FIELDS = tuple(D_C0) + ("res", "dump")


def dres(**kw):
    r = dict(D_R0)
    r.update(kw)
    return r


def dcall(op, **kw):
    c = dict(D_C0)
    c["op"] = op
    c.update(kw)
    return c


class DictDriver:
    def __init__(self, rng, famidx=None, avoid_known=False):
        self.rng = rng
        self.fam = Family(rng, famidx)
        self.avoid = avoid_known
        self.d = NocaseDict()
        self._views()
        self.events = []
        self.calls = []          # human-readable concrete calls

    def _views(self):
        self.kv, self.vv, self.iv = self.d.keys(), self.d.values(), \
            self.d.items()

    # -- concretisation -----------------------------------------------------
    def _positional(self, form, pairs):
        """Returns (object, description)."""
        f = self.fam
        conc = [(f.key(p[:2]), p[2]) for p in pairs]
        if form == "dict":
            return dict(conc), "dict(%r)" % (conc,)
        if form == "odict":
            return OrderedDict(conc), "OrderedDict(%r)" % (conc,)
        if form == "ncdict":
            src = NocaseDict()
            src.allow_unnamed_keys = True
            for k, v in conc:
                src[k] = v
            if self.rng.random() < 0.5 and None not in [k for k, _ in conc]:
                src.allow_unnamed_keys = False
            return src, "NocaseDict<-%r" % (conc,)
        # "pairs": equivalent iterables of key/value pairs or named objects
        style = self.rng.choice(["list", "tuple", "gen", "iter", "objs",
                                 "mixed", "props"])
        if style == "list":
            return list(conc), "%r" % (conc,)
        if style == "tuple":
            return tuple([k, v] for k, v in conc), "tuple-of-lists %r" % (conc,)
        if style == "gen":
            return ((k, v) for k, v in conc), "generator %r" % (conc,)
        if style == "iter":
            return iter(list(conc)), "iter %r" % (conc,)
        objs = []
        for n, (k, v) in enumerate(conc):
            if style == "props" and k is not None:
                objs.append(CIMProperty(k, str(v)))
            elif style == "mixed" and n % 2:
                objs.append((k, v))
            else:
                objs.append(Named(k, v))
        return objs, "objects %r" % (objs,)

    def _bulkargs(self, c):
        f = self.fam
        args, desc = [], []
        if c["form"] != "none" and c["nargs"] >= 1:
            for _ in range(c["nargs"]):
                o, dsc = self._positional(c["form"], c["pairs"])
                args.append(o)
                desc.append(dsc)
        kw = OrderedDict((f.key(p[:2]), p[2]) for p in c["kw"])
        if kw:
            desc.append("**%r" % (dict(kw),))
        return args, kw, ", ".join(desc)

    # -- observation ----------------------------------------------------------
    def dump(self):
        f, d = self.fam, self.d
        out = {}
        out["items"] = f.pitems(list(d.items()))
        out["iter"] = f.pkeys([k for k in d])
        try:
            out["rev"] = f.pkeys(list(reversed(d)))
        except Exception:  # noqa
            out["rev"] = [[-1, -1]]
        try:
            out["len"] = len(d)
        except Exception:  # noqa
            out["len"] = -1
        out["vkeys"] = f.pkeys(self.kv)
        try:
            out["vvals"] = [f.pval(x) for x in self.vv]
        except Exception:  # noqa
            out["vvals"] = [-9]
        out["vitems"] = f.pitems(self.iv)
        try:
            out["vlen"] = len(self.kv) if self.rng.random() < 0.5 \
                else len(self.iv)
        except Exception:  # noqa
            out["vlen"] = -1
        try:
            out["folds"] = [f.pfold(x) for x in d.keys_nocase()]
        except Exception:  # noqa
            out["folds"] = [-1]
        has = []
        for b in range(1, NBASES + 1):
            try:
                has.append([b, 1 if f.anyvariant(b) in d else 0])
            except Exception:  # noqa
                has.append([b, 2])
        out["has"] = has
        u = getattr(d, "allow_unnamed_keys", None)
        out["unn"] = u if isinstance(u, bool) else False
        return out

    def _copyres(self, c):
        f = self.fam
        ty = "NocaseDict" if type(c) is NocaseDict else \
            "%s.%s" % (type(c).__module__, type(c).__name__)
        u = getattr(c, "allow_unnamed_keys", None)
        try:
            items = f.pitems(list(c.items()))
        except Exception:  # noqa
            items = [[-1, -1, -9]]
        return dres(tag="copy", items=items, type=ty,
                    unn=u if isinstance(u, bool) else False)

    # -- one call ---------------------------------------------------------------
    def step(self, c):
        c = dict(D_C0, **{k: c[k] for k in D_C0 if k in c})
        f, d, op = self.fam, self.d, c["op"]
        key = f.key(c["k"])
        val = c["val"] if c["val"] != 0 else None
        desc = op
        if self.avoid and op in ("new", "fromkeys") and \
                any(p[0] == 0 for p in c["pairs"]):
            return None      # known deviation (constructor with None key)
        if self.avoid and op == "pop" and not c["hasd"]:
            try:
                if key not in d:
                    return None   # known deviation (sentinel returned)
            except Exception:  # noqa
                pass
        try:
            if op == "setitem":
                desc = "d[%r] = %r" % (key, val)
                d[key] = val
                res = dres()
            elif op == "getitem":
                desc = "d[%r]" % (key,)
                res = dres(tag="val", val=f.pval(d[key]))
            elif op == "get":
                if c["hasd"]:
                    desc = "d.get(%r, %r)" % (key, val)
                    r = d.get(key, val)
                else:
                    desc = "d.get(%r)" % (key,)
                    r = d.get(key)
                res = dres(tag="val", val=f.pval(r))
            elif op == "contains":
                desc = "%r in d" % (key,)
                r = key in d
                res = dres(tag="bool", val=int(r)) if isinstance(r, bool) \
                    else dres(tag="unclassified")
            elif op == "delitem":
                desc = "del d[%r]" % (key,)
                del d[key]
                res = dres()
            elif op == "pop":
                if c["hasd"]:
                    desc = "d.pop(%r, %r)" % (key, val)
                    r = d.pop(key, val)
                else:
                    desc = "d.pop(%r)" % (key,)
                    r = d.pop(key)
                res = dres(tag="val", val=f.pval(r))
            elif op == "setdefault":
                if c["hasd"]:
                    desc = "d.setdefault(%r, %r)" % (key, val)
                    r = d.setdefault(key, val)
                else:
                    desc = "d.setdefault(%r)" % (key,)
                    r = d.setdefault(key)
                res = dres(tag="val", val=f.pval(r))
            elif op == "popitem":
                desc = "d.popitem()"
                r = d.popitem()
                res = dres(tag="item", item=f.pitem(r)) \
                    if isinstance(r, tuple) else dres(tag="unclassified")
            elif op == "clear":
                desc = "d.clear()"
                r = d.clear()
                res = dres() if r is None else dres(tag="unclassified")
            elif op == "setunnamed":
                desc = "d.allow_unnamed_keys = %r" % (c["flag"],)
                d.allow_unnamed_keys = c["flag"]
                res = dres()
            elif op == "kbnew":
                desc = "d = CIMInstanceName('C').keybindings"
                self.d = CIMInstanceName("CIM_Foo").keybindings
                self._views()
                res = dres() if type(self.d) is NocaseDict \
                    else dres(tag="unclassified")
            elif op == "order":
                other = self.rng.choice([NocaseDict(), dict(), d])
                desc = "d %s %s" % (c["via"], type(other).__name__)
                r = {"lt": lambda: d < other, "le": lambda: d <= other,
                     "gt": lambda: d > other, "ge": lambda: d >= other}[
                         c["via"]]()
                res = dres(tag="bool", val=int(bool(r)))
            elif op == "copy":
                via = c["via"]
                desc = "c = %s(d); c.clear()" % via
                if via == "copy":
                    cp = d.copy()
                elif via == "copy.copy":
                    cp = copy.copy(d)
                elif via == "deepcopy":
                    cp = copy.deepcopy(d)
                else:
                    cp = pickle.loads(pickle.dumps(
                        d, self.rng.randint(0, pickle.HIGHEST_PROTOCOL)))
                res = self._copyres(cp)
                if via != "copy.copy":
                    cp["zz_extra"] = 9
                    cp.clear()
            elif op == "update":
                args, kw, dsc = self._bulkargs(c)
                desc = "d.update(%s)" % dsc
                r = d.update(*args, **kw)
                res = dres() if r is None else dres(tag="unclassified")
            elif op == "new":
                args, kw, dsc = self._bulkargs(c)
                desc = "d = NocaseDict(%s)" % dsc
                nd = NocaseDict(*args, **kw)
                self.d = nd
                self._views()
                res = dres()
            elif op == "fromkeys":
                keys = [f.key(p[:2]) for p in c["pairs"]]
                style = self.rng.choice(["list", "tuple", "gen"])
                arg = {"list": list(keys), "tuple": tuple(keys),
                       "gen": (k for k in keys)}[style]
                if c["val"] == 0 and self.rng.random() < 0.5:
                    desc = "d = NocaseDict.fromkeys(%s %r)" % (style, keys)
                    nd = NocaseDict.fromkeys(arg)
                else:
                    desc = "d = NocaseDict.fromkeys(%s %r, %r)" % (
                        style, keys, val)
                    nd = NocaseDict.fromkeys(arg, val)
                if type(nd) is NocaseDict:
                    self.d = nd
                    self._views()
                    res = dres()
                else:
                    res = dres(tag="unclassified")
            else:
                raise ValueError("unknown abstract op %r" % op)
        except Exception as exc:  # noqa: every exception is an observation
            res = dres(tag="err", err=errname(exc))
        ev = dict(c)
        ev["res"] = res
        ev["dump"] = self.dump()
        self.events.append(ev)
        self.calls.append(desc)
        return ev


def run_dict(rng, calls, famidx=None, avoid_known=False):
    drv = DictDriver(rng, famidx, avoid_known)
    for c in calls:
        drv.step(c)
    return drv


def random_dict_calls(rng, n):
    """Seeded random abstract histories (wider than the TLC universe: three
    bases x three variants, up to 4 pairs per bulk argument)."""
    def key(none_p=0.08):
        if rng.random() < none_p:
            return [0, 0]
        return [rng.randint(1, NBASES), rng.randint(1, NVARS)]

    def pairs(maxn=4, none_p=0.05):
        return [key(none_p) + [rng.randint(1, 3)]
                for _ in range(rng.randint(0, maxn))]

    calls = []
    for _ in range(n):
        x = rng.random()
        if x < 0.22:
            calls.append(dcall("setitem", k=key(), val=rng.randint(1, 3)))
        elif x < 0.30:
            calls.append(dcall(rng.choice(["getitem", "contains"]), k=key()))
        elif x < 0.36:
            calls.append(dcall("delitem", k=key()))
        elif x < 0.52:
            hasd = rng.random() < 0.6
            calls.append(dcall(rng.choice(["get", "pop", "setdefault"]),
                               k=key(), hasd=hasd,
                               val=rng.randint(1, 3) if hasd else 0))
        elif x < 0.57:
            calls.append(dcall("popitem"))
        elif x < 0.59:
            calls.append(dcall("clear"))
        elif x < 0.64:
            calls.append(dcall("setunnamed", flag=rng.random() < 0.6))
        elif x < 0.66:
            calls.append(dcall("kbnew"))
        elif x < 0.68:
            calls.append(dcall("order",
                               via=rng.choice(["lt", "le", "gt", "ge"])))
        elif x < 0.75:
            calls.append(dcall("copy", via=rng.choice(
                ["copy", "copy", "copy.copy", "deepcopy", "pickle"])))
        elif x < 0.95:
            op = "update" if rng.random() < 0.7 else "new"
            y = rng.random()
            if y < 0.1:
                calls.append(dcall(op, form="none", nargs=0,
                                   kw=pairs(2, 0.0)))
            elif y < 0.15:
                calls.append(dcall(op, form="pairs", nargs=2,
                                   pairs=pairs(1)))
            else:
                calls.append(dcall(
                    op, nargs=1, pairs=pairs(),
                    form=rng.choice(["pairs", "pairs", "dict", "odict",
                                     "ncdict"]),
                    kw=pairs(2, 0.0) if rng.random() < 0.4 else []))
        else:
            v = rng.randint(0, 3)
            calls.append(dcall("fromkeys", form="pairs", nargs=1, val=v,
                               pairs=[key() + [v]
                                      for _ in range(rng.randint(0, 4))]))
    return calls


def clean_dict_events(events):
    return [{k: e[k] for k in D_FIELDS} for e in events]


# ----------------------------------------------------------------------------
# NocaseList
# ----------------------------------------------------------------------------

L_R0 = dict(tag="none", val=0, err="", item=[0, 0], items=[], type="",
            probe=[])
L_C0 = dict(op="", x=[0, 0], i=0, j=0, hasi=False, form="", xs=[], n=0,
            rev=False, via="")
L_FIELDS = tuple(L_C0) + ("res", "dump")


def lres(**kw):
    r = dict(L_R0)
    r.update(kw)
    return r


def lcall(op, **kw):
    c = dict(L_C0)
    c["op"] = op
    c.update(kw)
    return c


class ListDriver:
    def __init__(self, rng, famidx=None, avoid_known=False):
        self.rng = rng
        self.fam = Family(rng, famidx)
        self.avoid = avoid_known
        self.l = NocaseList()
        self.events = []
        self.calls = []

    def _iterable(self, form, xs):
        f = self.fam
        conc = [f.key(x) for x in xs]
        if form == "list":
            return list(conc), "%r" % (conc,)
        if form == "tuple":
            return tuple(conc), "%r" % (tuple(conc),)
        if form == "nclist":
            return NocaseList(conc), "NocaseList(%r)" % (conc,)
        if form == "gen":
            if self.rng.random() < 0.5:
                return (x for x in conc), "generator %r" % (conc,)
            return iter(list(conc)), "iter(%r)" % (conc,)
        raise ValueError("unknown form %r" % form)

    def probe(self, lst):
        f = self.fam
        out = []
        for b in range(0, NBASES + 1):
            v = f.anyvariant(b)
            try:
                cnt = lst.count(v)
                cnt = cnt if isinstance(cnt, int) else -2
            except Exception:  # noqa
                cnt = -2
            try:
                idx = lst.index(v)
                idx = idx if isinstance(idx, int) else -2
            except ValueError:
                idx = -1
            except Exception:  # noqa
                idx = -2
            out.append([b, cnt, idx])
        return out

    def _listres(self, r):
        f = self.fam
        if not isinstance(r, (list, tuple)):
            return lres(tag="unclassified")
        if type(r) is NocaseList:
            return lres(tag="list", items=f.pkeys(list.__iter__(r)),
                        type="NocaseList", probe=self.probe(r))
        return lres(tag="list", items=f.pkeys(r), type=type(r).__name__)

    def dump(self):
        f, lst = self.fam, self.l
        try:
            n = len(lst)
        except Exception:  # noqa
            n = -1
        return dict(items=f.pkeys([x for x in lst]), len=n,
                    probe=self.probe(lst))

    def _known_trap(self, c):
        """calls that hit a deviation already reported for the pinned tree"""
        op = c["op"]
        if op in ("extend", "iadd", "setslice") and c["form"] == "gen":
            return True
        if op == "copy" and c["via"] in ("pickle0", "pickle1"):
            return True
        if op == "remove":
            v = self.fam.key(c["x"])
            plain = list(self.l)
            if v is not None and v not in plain and \
                    v.casefold() in [p.casefold() for p in plain
                                     if p is not None]:
                return True
            if v is not None and v in plain:
                first = [p.casefold() if p is not None else None
                         for p in plain].index(v.casefold())
                if plain[first] != v:
                    return True
        return False

    def step(self, c):
        c = dict(L_C0, **{k: c[k] for k in L_C0 if k in c})
        f, lst, op = self.fam, self.l, c["op"]
        x = f.key(c["x"])
        i, j = c["i"], c["j"]
        desc = op
        if self.avoid and self._known_trap(c):
            return None
        if op == "sort" and len(lst) >= 2 and any(v is None for v in lst):
            return None       # python leaves the order unspecified
        try:
            if op == "new":
                if c["form"] == "none" and not c["xs"]:
                    desc = "l = NocaseList()"
                    nl = NocaseList()
                else:
                    arg, dsc = self._iterable(c["form"], c["xs"])
                    desc = "l = NocaseList(%s)" % dsc
                    nl = NocaseList(arg)
                self.l = nl
                res = lres()
            elif op == "append":
                desc = "l.append(%r)" % (x,)
                r = lst.append(x)
                res = lres() if r is None else lres(tag="unclassified")
            elif op == "extend":
                arg, dsc = self._iterable(c["form"], c["xs"])
                desc = "l.extend(%s)" % dsc
                r = lst.extend(arg)
                res = lres() if r is None else lres(tag="unclassified")
            elif op == "iadd":
                arg, dsc = self._iterable(c["form"], c["xs"])
                desc = "l += %s" % dsc
                before = lst
                lst += arg
                self.l = lst
                res = lres() if lst is before else lres(tag="unclassified")
            elif op == "insert":
                desc = "l.insert(%d, %r)" % (i, x)
                r = lst.insert(i, x)
                res = lres() if r is None else lres(tag="unclassified")
            elif op == "remove":
                desc = "l.remove(%r)" % (x,)
                r = lst.remove(x)
                res = lres() if r is None else lres(tag="unclassified")
            elif op == "pop":
                if c["hasi"]:
                    desc = "l.pop(%d)" % i
                    r = lst.pop(i)
                else:
                    desc = "l.pop()"
                    r = lst.pop()
                res = lres(tag="item", item=f.pkey(r))
            elif op == "index":
                if c["hasi"]:
                    desc = "l.index(%r, %d, %d)" % (x, i, j)
                    r = lst.index(x, i, j)
                else:
                    desc = "l.index(%r)" % (x,)
                    r = lst.index(x)
                res = lres(tag="val", val=r) if type(r) is int \
                    else lres(tag="unclassified")
            elif op == "count":
                desc = "l.count(%r)" % (x,)
                r = lst.count(x)
                res = lres(tag="val", val=r) if type(r) is int \
                    else lres(tag="unclassified")
            elif op == "contains":
                desc = "%r in l" % (x,)
                r = x in lst
                res = lres(tag="bool", val=int(r)) if isinstance(r, bool) \
                    else lres(tag="unclassified")
            elif op == "reverse":
                desc = "l.reverse()"
                r = lst.reverse()
                res = lres() if r is None else lres(tag="unclassified")
            elif op == "sort":
                desc = "l.sort(reverse=%r)" % c["rev"]
                r = lst.sort(reverse=True) if c["rev"] else lst.sort()
                res = lres() if r is None else lres(tag="unclassified")
            elif op == "setitem":
                desc = "l[%d] = %r" % (i, x)
                lst[i] = x
                res = lres()
            elif op == "setslice":
                arg, dsc = self._iterable(c["form"], c["xs"])
                desc = "l[%d:%d] = %s" % (i, j, dsc)
                lst[i:j] = arg
                res = lres()
            elif op == "delitem":
                desc = "del l[%d]" % i
                del lst[i]
                res = lres()
            elif op == "delslice":
                desc = "del l[%d:%d]" % (i, j)
                del lst[i:j]
                res = lres()
            elif op == "getitem":
                desc = "l[%d]" % i
                res = lres(tag="item", item=f.pkey(lst[i]))
            elif op == "getslice":
                desc = "l[%d:%d]" % (i, j)
                res = self._listres(lst[i:j])
            elif op == "add":
                arg, dsc = self._iterable(c["form"], c["xs"])
                desc = "l + %s" % dsc
                res = self._listres(lst + arg)
            elif op == "mul":
                desc = "l * %d" % c["n"]
                res = self._listres(lst * c["n"])
            elif op == "rmul":
                desc = "%d * l" % c["n"]
                res = self._listres(c["n"] * lst)
            elif op == "imul":
                desc = "l *= %d" % c["n"]
                before = lst
                lst *= c["n"]
                self.l = lst
                res = lres() if lst is before else lres(tag="unclassified")
            elif op == "clear":
                desc = "l.clear()"
                r = lst.clear()
                res = lres() if r is None else lres(tag="unclassified")
            elif op == "copy":
                via = c["via"]
                desc = "c = %s(l); c.append(..)" % via
                if via == "copy":
                    cp = lst.copy()
                elif via == "ctor":
                    cp = NocaseList(lst)
                elif via == "copy.copy":
                    cp = copy.copy(lst)
                elif via == "deepcopy":
                    cp = copy.deepcopy(lst)
                elif via.startswith("pickle"):
                    cp = pickle.loads(pickle.dumps(lst, int(via[6:])))
                else:
                    raise ValueError("unknown copy way %r" % via)
                res = self._listres(cp)
                try:
                    cp.append(f.key([1, 1]))
                except Exception:  # noqa: the copy is probed, not judged here
                    pass
            elif op == "reversed":
                desc = "reversed(l)"
                r = reversed(lst)
                res = self._listres(r if isinstance(r, (list, tuple))
                                    else list(r))
            elif op == "cmp":
                arg, dsc = self._iterable(c["form"], c["xs"])
                desc = "l %s %s" % (c["via"], dsc)
                r = {"eq": lambda: lst == arg, "ne": lambda: lst != arg,
                     "lt": lambda: lst < arg, "le": lambda: lst <= arg,
                     "gt": lambda: lst > arg, "ge": lambda: lst >= arg}[
                         c["via"]]()
                res = lres(tag="bool", val=int(r)) if isinstance(r, bool) \
                    else lres(tag="unclassified")
            else:
                raise ValueError("unknown abstract op %r" % op)
        except Exception as exc:  # noqa: every exception is an observation
            res = lres(tag="err", err=errname(exc))
        ev = dict(c)
        ev["res"] = res
        ev["dump"] = self.dump()
        self.events.append(ev)
        self.calls.append(desc)
        return ev


def run_list(rng, calls, famidx=None, avoid_known=False):
    drv = ListDriver(rng, famidx, avoid_known)
    for c in calls:
        drv.step(c)
    return drv


def random_list_calls(rng, n):
    def item(none_p=0.07):
        if rng.random() < none_p:
            return [0, 0]
        return [rng.randint(1, NBASES), rng.randint(1, NVARS)]

    def items(maxn=3):
        return [item() for _ in range(rng.randint(0, maxn))]

    def idx():
        return rng.randint(-7, 7) if rng.random() < 0.2 else rng.randint(-3, 3)

    def form(gen=True):
        return rng.choice(["list", "list", "tuple", "nclist"] +
                          (["gen"] if gen else []))

    calls = []
    for _ in range(n):
        x = rng.random()
        if x < 0.14:
            calls.append(lcall("append", x=item()))
        elif x < 0.22:
            calls.append(lcall(rng.choice(["extend", "iadd"]), form=form(),
                               xs=items()))
        elif x < 0.28:
            calls.append(lcall("insert", i=idx(), x=item()))
        elif x < 0.36:
            calls.append(lcall("remove", x=item()))
        elif x < 0.42:
            hasi = rng.random() < 0.6
            calls.append(lcall("pop", hasi=hasi, i=idx() if hasi else 0))
        elif x < 0.50:
            hasi = rng.random() < 0.5
            calls.append(lcall("index", x=item(), hasi=hasi,
                               i=idx() if hasi else 0,
                               j=idx() if hasi else 0))
        elif x < 0.56:
            calls.append(lcall(rng.choice(["count", "contains"]), x=item()))
        elif x < 0.60:
            calls.append(lcall("reverse"))
        elif x < 0.65:
            calls.append(lcall("sort", rev=rng.random() < 0.5))
        elif x < 0.70:
            calls.append(lcall("setitem", i=idx(), x=item()))
        elif x < 0.75:
            calls.append(lcall("setslice", i=idx(), j=idx(), form=form(),
                               xs=items()))
        elif x < 0.79:
            calls.append(lcall(rng.choice(["delitem", "getitem"]), i=idx()))
        elif x < 0.83:
            calls.append(lcall(rng.choice(["delslice", "getslice"]), i=idx(),
                               j=idx()))
        elif x < 0.86:
            calls.append(lcall("add", form=form(), xs=items()))
        elif x < 0.89:
            calls.append(lcall(rng.choice(["mul", "rmul", "imul"]),
                               n=rng.choice([-1, 0, 1, 2, 2])))
        elif x < 0.90:
            calls.append(lcall("clear"))
        elif x < 0.94:
            calls.append(lcall("copy", via=rng.choice(
                ["copy", "ctor", "copy.copy", "deepcopy", "pickle0",
                 "pickle1", "pickle2", "pickle3", "pickle4", "pickle5"])))
        elif x < 0.95:
            calls.append(lcall("reversed"))
        elif x < 0.97:
            fm = rng.choice(["list", "tuple", "gen", "nclist", "none"])
            calls.append(lcall("new", form=fm,
                               xs=[] if fm == "none" else items(4)))
        else:
            calls.append(lcall("cmp", via=rng.choice(
                ["eq", "ne", "lt", "le", "gt", "ge"]), form=form(False),
                xs=items()))
    return calls


def clean_list_events(events):
    return [{k: e[k] for k in L_FIELDS} for e in events]


def signature(kind, ev, clauses):
    """<D|L>.<op>(<form or way>):<clauses>/<observed result kind>"""
    tag = ev.get("form") or ev.get("via") or ""
    res = ev["res"]
    obs = res["tag"]
    if res["err"]:
        obs += ":" + res["err"]
    if res["val"] == -9 or -9 in res["item"]:
        obs += "!unclassified"
    return "%s.%s%s:%s/%s" % (kind, ev["op"], "(%s)" % tag if tag else "",
                              "+".join(sorted(clauses)), obs)
