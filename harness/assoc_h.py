"""
C13 binding: abstract association graphs <-> real FakedWBEMConnection.

The TLA+ side (spec/Assoc.tla) talks about node indexes, association copies
and filter tokens.  This module
  * concretises a graph (fixed node set + a sequence of CreateInstance calls
    for association instances) into a real mock repository built through
    CreateInstance or compile_mof_string (so multi-namespace shadow copies are
    made by the code under test),
  * reads the STORED instances back from the instance stores (the graph the
    requirement is evaluated on is what is stored, not what was asked for),
  * calls the association operations for every source and every filter
    combination and projects the responses to indexes (dumb projection: a
    path that is not the path of a stored object becomes 0),
  * randomises what the property says is irrelevant (lexical case of class,
    property, key and namespace names, keybinding order, host on the source
    path, int vs Uint32 key values, optional arguments omitted or None).
Nothing in here decides the property; the events go to TLC.
"""
import copy
import random

import pywbem
import pywbem_mock
from pywbem import (CIMInstance, CIMInstanceName, CIMClassName, CIMProperty,
                    CIMError, Uint32)

import mockrepo

NSNAME = {1: "root/v1", 2: "root/v2"}
CLASSNAME = {"N": "Vn_Node", "NS": "Vn_NodeSub", "NSS": "Vn_NodeSubSub",
             "M": "Vm_Mate", "AB": "Va_Link", "ABS": "Va_LinkSub",
             "ABSS": "Va_LinkSubSub", "AT": "Va_Triple", "AL": "Va_Loose",
             "ABX": "Va_LinkX", "ZZ": "Vz_Missing"}
TOKEN_OF_CLASS = {v.lower(): k for k, v in CLASSNAME.items() if k != "ZZ"}
ROLENAME = {"r1": "Antecedent", "r2": "Dependent", "a": "First",
            "b": "Second", "c": "Third", "zz": "NoSuchRole"}
ROLES = {"AB": ["r1", "r2"], "ABS": ["r1", "r2"], "ABSS": ["r1", "r2"],
         "AL": ["r1", "r2"], "AT": ["a", "b", "c"], "ABX": ["r1", "r2"]}
REFCLASS = {"AB": ["N", "M"], "ABS": ["N", "M"], "ABSS": ["N", "M"],
            "AL": ["N", "M"], "AT": ["N", "N", "M"], "ABX": ["N", "M"]}
SUBTREE = {"N": ["N", "NS", "NSS"], "NS": ["NS", "NSS"], "NSS": ["NSS"],
           "M": ["M"]}
NODE_CLASSES = ("N", "NS", "NSS", "M")
ASSOC_CLASSES = ("AB", "ABS", "ABSS", "AT", "AL", "ABX")
# classes of the fixed schema; ABX (Va_LinkX) is added to a namespace by an
# "addclass" operation of the history (spec/AssocImpl.tla AddClass)
FIXED_ASSOC_CLASSES = ("AB", "ABS", "ABSS", "AT", "AL")

SCHEMA = """
class Vn_Node { [Key] uint32 Id; [Key] string Tag; string s; };
class Vn_NodeSub : Vn_Node { string t; };
class Vn_NodeSubSub : Vn_NodeSub { string u; };
class Vm_Mate { [Key] uint32 Id; [Key] string Tag; string s; };
[Association] class Va_Link {
    [Key] Vn_Node REF Antecedent;
    [Key] Vm_Mate REF Dependent;
    string note;
};
[Association] class Va_LinkSub : Va_Link { uint8 w; };
[Association] class Va_LinkSubSub : Va_LinkSub { uint8 v; };
[Association] class Va_Triple {
    [Key] Vn_Node REF First;
    [Key] Vn_Node REF Second;
    [Key] Vm_Mate REF Third;
    string note;
};
[Association] class Va_Loose {
    [Key] uint32 Id;
    Vn_Node REF Antecedent;
    Vm_Mate REF Dependent;
    string note;
};
"""

SLOT_NAMES_A = ["AssociatorNames", "Associators",
                "OpenAssociatorInstancePaths+PullInstancePaths",
                "OpenAssociatorInstances+PullInstancesWithPath",
                "IterAssociatorInstancePaths", "IterAssociatorInstances"]
SLOT_NAMES_R = ["ReferenceNames", "References",
                "OpenReferenceInstancePaths+PullInstancePaths",
                "OpenReferenceInstances+PullInstancesWithPath",
                "IterReferenceInstancePaths", "IterReferenceInstances"]

_TEMPLATES = {}


def fresh_conn(use_pull):
    """Connection with the C13 schema in both namespaces, no instances."""
    if use_pull not in _TEMPLATES:
        conn = pywbem_mock.FakedWBEMConnection(
            default_namespace=NSNAME[1], use_pull_operations=use_pull)
        for ns in (NSNAME[1], NSNAME[2]):
            if ns.lower() not in [n.lower() for n in conn.namespaces]:
                conn.add_namespace(ns)
            conn.compile_mof_string(mockrepo.QUALIFIERS + SCHEMA, namespace=ns)
        _TEMPLATES[use_pull] = conn
    return copy.deepcopy(_TEMPLATES[use_pull])


# ----------------------------------------------------------------------------
# lexical variation
# ----------------------------------------------------------------------------

def recase(rng, name, mode=None):
    """A differently-cased spelling of a CIM name."""
    mode = mode or rng.choice(("upper", "lower", "swap", "mixed"))
    if mode == "upper":
        r = name.upper()
    elif mode == "lower":
        r = name.lower()
    elif mode == "swap":
        r = name.swapcase()
    else:
        r = "".join(c.upper() if rng.random() < 0.5 else c.lower()
                    for c in name)
    if r == name:
        r = name.swapcase()
    return r


def maybe_recase(rng, name, p=0.5):
    return recase(rng, name) if rng.random() < p else name


def node_tag(i):
    return "t%d" % i


def kid_of(node, i):
    """Key token of node i: its own index unless the node is declared a twin
    (same class and key values as a node of another namespace)."""
    return node.get("kid", i)


def node_path(rng, node, i, vary=True, with_ns=True):
    """Concrete instance path of node i (node = dict ns, cls[, kid])."""
    cn = CLASSNAME[node["cls"]]
    i = kid_of(node, i)
    idv = i if (vary and rng.random() < 0.5) else Uint32(i)
    kbs = [("Id", idv), ("Tag", node_tag(i))]
    if vary:
        cn = maybe_recase(rng, cn, 0.4)
        kbs = [(maybe_recase(rng, k, 0.4), v) for k, v in kbs]
        if rng.random() < 0.5:
            kbs.reverse()
    ns = NSNAME[node["ns"]]
    if vary and rng.random() < 0.3:
        ns = recase(rng, ns, rng.choice(("upper", "mixed")))
    return CIMInstanceName(cn, keybindings=kbs,
                           namespace=ns if with_ns else None)


def respell(rng, path, with_ns=True):
    """The same instance path in another spelling (case of class, key and
    namespace names, keybinding order, int vs Uint32)."""
    kbs = []
    for k, v in path.keybindings.items():
        if isinstance(v, int) and not isinstance(v, bool):
            v = int(v) if rng.random() < 0.5 else Uint32(int(v))
        kbs.append((maybe_recase(rng, k, 0.4), v))
    if rng.random() < 0.5:
        kbs.reverse()
    ns = path.namespace
    if rng.random() < 0.3:
        ns = recase(rng, ns, rng.choice(("upper", "mixed")))
    return CIMInstanceName(maybe_recase(rng, path.classname, 0.4),
                           keybindings=kbs, namespace=ns if with_ns else None)


# ----------------------------------------------------------------------------
# building the repository
# ----------------------------------------------------------------------------

_NULL_REF_STORABLE = None


def null_ref_storable():
    """Does the mock accept CreateInstance of an association instance with an
    explicit NULL (non-key) reference?  (It does not on the tree this check
    was written for: AttributeError.  If it ever does, graphs with stored
    NULL references become reachable and are generated.)"""
    global _NULL_REF_STORABLE
    if _NULL_REF_STORABLE is None:
        conn = fresh_conn(False)
        try:
            conn.CreateInstance(CIMInstance("Vn_Node", properties=[
                ("Id", Uint32(1)), ("Tag", "t1")]), namespace=NSNAME[1])
            conn.CreateInstance(CIMInstance("Va_Loose", properties=[
                CIMProperty("Id", Uint32(1)),
                CIMProperty("Antecedent", CIMInstanceName(
                    "Vn_Node", {"Id": Uint32(1), "Tag": "t1"},
                    namespace=NSNAME[1]), type="reference"),
                CIMProperty("Dependent", None, type="reference",
                            reference_class="Vm_Mate")]),
                namespace=NSNAME[1])
            _NULL_REF_STORABLE = True
        except Exception:  # noqa: any refusal
            _NULL_REF_STORABLE = False
    return _NULL_REF_STORABLE


def _mof_str(s):
    return '"' + s.replace("\\", "\\\\").replace('"', '\\"') + '"'


def build(rng, nodes, creates, mode, use_pull, upto=None, state=None):
    """nodes: list of dict(ns, cls) (index = position + 1);
    creates: list of operations in call order: dict(op, cls, ends, ns ...)
    with op = "create" (default; CreateInstance of an association instance),
    "reject" (CreateInstance that collides with the instance made by
    creates[target]: same keys, for Va_Loose the same Id with other ends;
    expected to be refused), "modify", "addclass" (Va_LinkX as subclass of
    `parent` in namespace ns, through CreateClass or add_cimobjects).
    mode: "create" (CreateInstance) | "mof" (compile_mof_string).
    upto / state: build in steps (operations [state.pos, upto)), so that the
    repository can be traversed between two write operations.
    Returns (conn, log, state) ; log = readable list of what was done."""
    if state is not None:
        return _build_ops(rng, nodes, creates, mode, state, upto)
    conn = fresh_conn(use_pull)
    log = []
    if mode == "mof":
        # node instances: one compilation unit per namespace
        for nsid in (1, 2):
            lines = []
            for i, n in enumerate(nodes, 1):
                if n["ns"] != nsid:
                    continue
                lines.append('instance of %s { Id = %d; Tag = %s; s = %s; };'
                             % (maybe_recase(rng, CLASSNAME[n["cls"]], 0.3),
                                kid_of(n, i), _mof_str(node_tag(kid_of(n, i))),
                                _mof_str("L%d" % i)))
            if lines:
                conn.compile_mof_string("\n".join(lines),
                                        namespace=NSNAME[nsid])
                log.append("compile_mof_string(ns=%s): %d node instances" %
                           (NSNAME[nsid], len(lines)))
    else:
        for i, n in enumerate(nodes, 1):
            props = [("Id", Uint32(kid_of(n, i))),
                     ("Tag", node_tag(kid_of(n, i))), ("s", "L%d" % i)]
            rng.shuffle(props)
            inst = CIMInstance(maybe_recase(rng, CLASSNAME[n["cls"]], 0.3),
                               properties=[(maybe_recase(rng, k, 0.3), v)
                                           for k, v in props])
            conn.CreateInstance(inst, namespace=NSNAME[n["ns"]])
        log.append("CreateInstance x %d node instances" % len(nodes))
    state = {"conn": conn, "log": log, "alid": 0, "made": {}, "nmod": {},
             "alids": {}, "pos": 0, "rejected": 0, "notrejected": 0,
             "rrng": random.Random(len(creates))}
    return _build_ops(rng, nodes, creates, mode, state, upto)


def _add_class(rng, conn, log, c):
    """Va_LinkX as subclass of Va_Link / Va_LinkSub in ONE namespace"""
    parent = CLASSNAME[c["parent"]]
    ns = NSNAME[c["ns"]]
    how = c.get("how") or rng.choice(("CreateClass", "add_cimobjects"))
    log.append("%s(ns=%s): Va_LinkX : %s" % (how, ns, parent))
    if how == "CreateClass":
        conn.compile_mof_string(
            "[Association] class Va_LinkX : %s { uint8 x; };" %
            maybe_recase(rng, parent, 0.3), namespace=ns)
    else:
        conn.add_cimobjects(pywbem.CIMClass(
            "Va_LinkX", superclass=parent,
            qualifiers=[pywbem.CIMQualifier("Association", True)],
            properties=[CIMProperty("x", None, type="uint8")]), namespace=ns)


def _build_ops(rng, nodes, creates, mode, state, upto):
    conn, log = state["conn"], state["log"]
    made = state["made"]     # position of the create in `creates` -> path
    nmod = state["nmod"]
    upto = len(creates) if upto is None else upto
    rng0 = rng
    for pos in range(state["pos"], upto):
        c = creates[pos]
        kind = c.get("op", "create")
        # rejected creates draw their spellings from a generator of their
        # own: the stream of the job's generator (filter lists, spellings of
        # the other operations) is the same with and without them
        rng = state["rrng"] if kind == "reject" else rng0
        if kind == "modify":
            _modify(rng, conn, log, made, nmod, c)
            continue
        if kind == "addclass":
            _add_class(rng, conn, log, c)
            continue
        if kind == "modifyends":
            _modify_ends(state["rrng"], conn, log, made, nodes, c, state)
            continue
        roles = ROLES[c["cls"]]
        ends = []
        nulls = []
        for r, rc, e in zip(roles, REFCLASS[c["cls"]], c["ends"]):
            if not e and null_ref_storable() and rng.random() < 0.5:
                nulls.append((ROLENAME[r], CLASSNAME[rc]))   # explicit NULL
            if e:
                # reference values carry their namespace (documented
                # requirement of the mock); spelling of the rest varies
                p = node_path(rng, nodes[e - 1], e, vary=True)
                p.namespace = NSNAME[nodes[e - 1]["ns"]]
                ends.append((ROLENAME[r], p))
        extra = []
        if c["cls"] == "AL":
            if kind == "reject":
                alid = state["alids"][c["target"]]     # the stored one's Id
            else:
                state["alid"] += 1
                alid = state["alids"][pos] = state["alid"]
            extra.append(("Id", Uint32(alid)))
        made[pos] = CIMInstanceName(
            CLASSNAME[c["cls"]], namespace=NSNAME[c["ns"]],
            keybindings=extra if c["cls"] == "AL" else
            [(k, q.copy()) for k, q in ends])
        cn = maybe_recase(rng, CLASSNAME[c["cls"]], 0.3)
        if kind == "reject":
            del made[pos]
        # (a duplicate in MOF would be turned into ModifyInstance by the MOF
        # compiler: rejected creates always go through CreateInstance)
        if mode == "mof" and kind != "reject":
            body = []
            for k, v in extra:
                body.append("%s = %d;" % (k, v))
            for k, p in ends:
                q = p.copy()
                body.append("%s = %s;" % (
                    maybe_recase(rng, k, 0.3),
                    _mof_str(q.to_wbem_uri(format="standard"))))
            for k, _ in nulls:
                body.append("%s = NULL;" % maybe_recase(rng, k, 0.3))
            rng.shuffle(body)
            mof = "instance of %s { %s };" % (cn, " ".join(body))
            log.append("compile_mof_string(ns=%s): %s" % (NSNAME[c["ns"]], mof))
            try:
                conn.compile_mof_string(mof, namespace=NSNAME[c["ns"]])
            except pywbem.Error as exc:
                log.append("  -> %s" % type(exc).__name__)
        else:
            props = [CIMProperty(maybe_recase(rng, k, 0.3), v)
                     for k, v in extra]
            props += [CIMProperty(maybe_recase(rng, k, 0.3), p,
                                  type="reference") for k, p in ends]
            props += [CIMProperty(maybe_recase(rng, k, 0.3), None,
                                  type="reference", reference_class=rc)
                      for k, rc in nulls]
            rng.shuffle(props)
            inst = CIMInstance(cn, properties=props)
            log.append("CreateInstance(ns=%s): %s %s" % (
                NSNAME[c["ns"]], cn,
                ", ".join("%s=%s" % (p.name, p.value) for p in props)))
            try:
                conn.CreateInstance(inst, namespace=NSNAME[c["ns"]])
                if kind == "reject":
                    state["notrejected"] += 1
                    log.append("  -> accepted (a collision was expected)")
            except pywbem.Error as exc:
                log.append("  -> %s" % exc)
                if kind == "reject":
                    state["rejected"] += 1
    state["pos"] = upto
    return conn, log, state


def _modify_ends(rng, conn, log, made, nodes, c, state):
    """ModifyInstance of the reference properties of the Va_Loose instance
    made by creates[c["target"]] (AssocImpl!ModifyEnds), addressed to its
    copy in namespace c["ns"]: the non-zero ends of c["ends"] are set (a
    partial instance + PropertyList, so that absent / NULL references of
    the stored instance are not sent back)."""
    path = made[c["target"]].copy()
    path.namespace = NSNAME[c["ns"]]
    props = []
    for r, e in zip(ROLES[c["cls"]], c["ends"]):
        if e:
            p = node_path(rng, nodes[e - 1], e, vary=True)
            p.namespace = NSNAME[nodes[e - 1]["ns"]]
            props.append(CIMProperty(maybe_recase(rng, ROLENAME[r], 0.3), p,
                                     type="reference"))
    rng.shuffle(props)
    log.append("ModifyInstance(%s) %s" % (path, ", ".join(
        "%s=%s" % (p.name, p.value) for p in props)))
    try:
        inst = CIMInstance(maybe_recase(rng, path.classname, 0.3),
                           properties=props, path=respell(rng, path))
        conn.ModifyInstance(inst, PropertyList=[
            maybe_recase(rng, p.name, 0.3) for p in props])
        state["endsmodified"] = state.get("endsmodified", 0) + 1
    except Exception as exc:  # noqa: the build is not judged, only logged
        log.append("  -> %s: %s" % (type(exc).__name__, exc))
        state["endsrefused"] = state.get("endsrefused", 0) + 1


def _modify(rng, conn, log, made, nmod, c):
    """ModifyInstance of the non-reference property `note` of the association
    instance made by creates[c["target"]], addressed to its copy in namespace
    c["ns"] (AssocImpl!Modify).  The new value is W<number of the change>."""
    path = made[c["target"]].copy()
    path.namespace = NSNAME[c["ns"]]
    nmod[c["target"]] = k = nmod.get(c["target"], 0) + 1
    value = "W%d" % k
    how = rng.choice(("get+modify", "partial+PropertyList"))
    log.append("ModifyInstance(%s) note=%s [%s]" % (path, value, how))
    try:
        if how == "get+modify":
            inst = conn.GetInstance(respell(rng, path))
            inst[maybe_recase(rng, "note", 0.3)] = value
            conn.ModifyInstance(inst)
        else:
            inst = CIMInstance(maybe_recase(rng, path.classname, 0.3),
                               properties=[("note", value)],
                               path=respell(rng, path))
            conn.ModifyInstance(inst,
                                PropertyList=[maybe_recase(rng, "note", 0.3)])
    except Exception as exc:  # noqa: the build is not judged, only logged
        log.append("  -> %s: %s" % (type(exc).__name__, exc))


# ----------------------------------------------------------------------------
# projection
# ----------------------------------------------------------------------------

def _kv(v):
    if isinstance(v, CIMInstanceName):
        return pkey(v)
    if isinstance(v, bool):
        return ("b", v)
    if isinstance(v, int):
        return ("i", int(v))
    return ("s", str(v))


def pkey(path, ns=None):
    """Canonical identity of an instance path modulo host, case and order."""
    n = ns if ns is not None else (path.namespace or "")
    return (n.strip("/").lower(), path.classname.lower(),
            tuple(sorted((k.lower(), _kv(v))
                         for k, v in path.keybindings.items())))


def _tokval(inst, prop, letter):
    try:
        v = inst.properties[prop].value
    except KeyError:
        return 0
    if isinstance(v, str) and v[:1] == letter and v[1:].isdigit():
        return int(v[1:])
    return 0


def _sv(inst):
    """Token of the value of property s: 'L<i>' -> i, anything else -> 0."""
    return _tokval(inst, "s", "L")


def _wv(inst):
    """Token of the value of property note: 'W<k>' -> k, not set -> 0."""
    return _tokval(inst, "note", "W")


_NSID = {v: k for k, v in NSNAME.items()}


class Stored:
    """The graph read back from the instance stores."""

    def __init__(self, conn):
        node_items = []
        assoc_items = []
        repo = conn.cimrepository
        for nsid in (1, 2):
            store = repo.get_instance_store(NSNAME[nsid])
            for inst in store.iter_values():
                tok = TOKEN_OF_CLASS.get(inst.classname.lower())
                if tok in NODE_CLASSES:
                    node_items.append((nsid, tok, inst))
                elif tok in ASSOC_CLASSES:
                    assoc_items.append((nsid, tok, inst))
        # identity of a stored object = store namespace + class + keybindings
        node_items.sort(key=lambda t: (t[0], t[1],
                                       repr(pkey(t[2].path, NSNAME[t[0]]))))
        self.nodes = []
        self.node_index = {}
        self.node_paths = []
        self.kids = {}           # key values (modulo case/order/type) -> token
        for nsid, tok, inst in node_items:
            k = pkey(inst.path, NSNAME[nsid])
            self.nodes.append({"ns": nsid, "cls": tok, "sv": _sv(inst),
                               "kid": self.kids.setdefault(
                                   k[2], len(self.kids) + 1)})
            self.node_index[k] = len(self.nodes)
            q = inst.path.copy()
            q.namespace = NSNAME[nsid]
            q.host = None
            self.node_paths.append(q)
        self.nstored = len(self.nodes)
        # place of Va_LinkX in the class hierarchy of each namespace
        self.xpar = []
        for nsid in (1, 2):
            cs = repo.get_class_store(NSNAME[nsid])
            sup = ""
            if cs.object_exists(CLASSNAME["ABX"]):
                sc = cs.get(CLASSNAME["ABX"]).superclass
                sup = TOKEN_OF_CLASS.get((sc or "").lower(),
                                         "UNCLASSIFIED:%s" % sc)
            self.xpar.append(sup)
        self.assocs = []
        self.assoc_index = {}
        groups = {}
        assoc_items.sort(key=lambda t: (t[0], t[1],
                                        repr(pkey(t[2].path, NSNAME[t[0]]))))
        for nsid, tok, inst in assoc_items:
            ends = self.ends_of(tok, inst, add_phantoms=True)
            k = pkey(inst.path, NSNAME[nsid])
            g = groups.setdefault(k[1:], len(groups) + 1)
            # pns: the namespace the stored object's own path states
            pns = _NSID.get((inst.path.namespace or "").strip("/").lower(), 0)
            self.assocs.append({"cls": tok, "ends": ends, "ns": nsid, "g": g,
                                "w": _wv(inst), "pns": pns,
                                "xp": self.xpar[nsid - 1] if tok == "ABX"
                                else ""})
            self.assoc_index[k] = len(self.assocs)

    def ends_of(self, tok, inst, add_phantoms=False):
        """Node indexes of the reference properties in role order; 0 = the
        property is absent or NULL; a path that is not a stored node is -1
        (or, when reading the store, becomes a phantom node)."""
        ends = []
        for r, rc in zip(ROLES[tok], REFCLASS[tok]):
            p = inst.properties.get(ROLENAME[r])
            if p is None or p.value is None:
                ends.append(0)
                continue
            v = p.value
            if not isinstance(v, CIMInstanceName):
                ends.append(-1)
                continue
            k = pkey(v)
            i = self.node_index.get(k)
            if i is None and add_phantoms:
                nsid = {NSNAME[1]: 1, NSNAME[2]: 2}.get(k[0], 1)
                ctok = TOKEN_OF_CLASS.get(k[1])
                if ctok not in SUBTREE[rc]:
                    ctok = rc
                kid = self.kids.setdefault(k[2], len(self.kids) + 1)
                if any((n["ns"], n["cls"], n["kid"]) == (nsid, ctok, kid)
                       for n in self.nodes):
                    kid = 10000 + len(self.nodes)
                self.nodes.append({"ns": nsid, "cls": ctok, "sv": 0,
                                   "kid": kid})
                i = self.node_index[k] = len(self.nodes)
            ends.append(i if i is not None else -1)
        return ends

    def node_id(self, path):
        if not isinstance(path, CIMInstanceName):
            return 0
        return self.node_index.get(pkey(path), 0)

    def assoc_id(self, path):
        if not isinstance(path, CIMInstanceName):
            return 0
        return self.assoc_index.get(pkey(path), 0)


SKIP = {"k": "skip", "ids": [], "vs": []}


def _failure(exc):
    if isinstance(exc, CIMError):
        return {"k": "err%d" % int(exc.status_code), "ids": [], "vs": []}
    return {"k": "exc:%s" % type(exc).__name__, "ids": [], "vs": []}


def project(stored, kind, full, objs):
    """kind 'a': objects are nodes; 'r': association instances."""
    rows = []
    for o in objs:
        if full:
            if not isinstance(o, CIMInstance) or o.path is None:
                return {"k": "UNCLASSIFIED:%s" % type(o).__name__,
                        "ids": [], "vs": []}
            path = o.path
        else:
            if not isinstance(o, CIMInstanceName):
                return {"k": "UNCLASSIFIED:%s" % type(o).__name__,
                        "ids": [], "vs": []}
            path = o
        if kind == "a":
            i = stored.node_id(path)
            v = [_sv(o)] if full else []
        else:
            i = stored.assoc_id(path)
            v = []
            if full:
                tok = TOKEN_OF_CLASS.get(o.classname.lower())
                v = (stored.ends_of(tok, o) + [_wv(o)]
                     if tok in ASSOC_CLASSES else [-1])
        rows.append((i, v))
    rows.sort()
    return {"k": "ok", "ids": [r[0] for r in rows],
            "vs": [r[1] for r in rows] if full else []}


# ----------------------------------------------------------------------------
# calling the operations
# ----------------------------------------------------------------------------

def _kwargs(rng, names):
    """Optional arguments: omitted or passed as None when not given."""
    kw = {}
    for k, v in names.items():
        if v is not None or rng.random() < 0.3:
            kw[k] = v
    return kw


def _pull_all(rng, conn, opener, puller, attr, src, kw):
    okw = dict(kw)
    m = rng.choice((None, 0, 1, 2, 5))
    if m is not None:
        okw["MaxObjectCount"] = m
    r = getattr(conn, opener)(src, **okw)
    objs = list(getattr(r, attr))
    guard = 0
    while not r.eos:
        guard += 1
        if guard > 200:
            raise RuntimeError("pull sequence does not end")
        r = getattr(conn, puller)(r.context,
                                  MaxObjectCount=rng.choice((1, 1, 2, 3, 50)))
        objs.extend(getattr(r, attr))
    return objs


def call_slot(rng, conn, stored, kind, slot, src, names):
    """slot 1..6 (see Assoc.tla).  Returns the projected response."""
    kw = _kwargs(rng, names)
    try:
        if kind == "a":
            if slot == 1:
                objs = conn.AssociatorNames(src, **kw)
            elif slot == 2:
                objs = conn.Associators(src, **kw)
            elif slot == 3:
                objs = _pull_all(rng, conn, "OpenAssociatorInstancePaths",
                                 "PullInstancePaths", "paths", src, kw)
            elif slot == 4:
                objs = _pull_all(rng, conn, "OpenAssociatorInstances",
                                 "PullInstancesWithPath", "instances", src, kw)
            elif slot == 5:
                objs = list(conn.IterAssociatorInstancePaths(src, **kw))
            else:
                objs = list(conn.IterAssociatorInstances(src, **kw))
        else:
            if slot == 1:
                objs = conn.ReferenceNames(src, **kw)
            elif slot == 2:
                objs = conn.References(src, **kw)
            elif slot == 3:
                objs = _pull_all(rng, conn, "OpenReferenceInstancePaths",
                                 "PullInstancePaths", "paths", src, kw)
            elif slot == 4:
                objs = _pull_all(rng, conn, "OpenReferenceInstances",
                                 "PullInstancesWithPath", "instances", src, kw)
            elif slot == 5:
                objs = list(conn.IterReferenceInstancePaths(src, **kw))
            else:
                objs = list(conn.IterReferenceInstances(src, **kw))
    except Exception as exc:  # noqa: every outcome is an observation
        return _failure(exc)
    return project(stored, kind, slot % 2 == 0, objs)


def project_classes(full, objs, nsname):
    cs = []
    for o in objs:
        if full:
            if not (isinstance(o, tuple) and len(o) == 2 and
                    isinstance(o[0], CIMClassName) and
                    isinstance(o[1], pywbem.CIMClass)):
                return {"k": "UNCLASSIFIED:%s" % type(o).__name__, "cs": []}
            name, klass = o
            if klass.classname.lower() != name.classname.lower():
                cs.append("UNCLASSIFIED:%s/%s" % (name.classname,
                                                  klass.classname))
                continue
        else:
            if not isinstance(o, CIMClassName):
                return {"k": "UNCLASSIFIED:%s" % type(o).__name__, "cs": []}
            name = o
        tok = TOKEN_OF_CLASS.get(name.classname.lower())
        if tok is None or (name.namespace or "").strip("/").lower() != \
                nsname.lower():
            tok = "UNCLASSIFIED:%s" % name
        cs.append(tok)
    return {"k": "ok", "cs": sorted(cs)}


def call_class_slot(rng, conn, kind, slot, src, names, nsname):
    kw = _kwargs(rng, names)
    try:
        if kind == "a":
            objs = (conn.AssociatorNames if slot == 1 else
                    conn.Associators)(src, **kw)
        else:
            objs = (conn.ReferenceNames if slot == 1 else
                    conn.References)(src, **kw)
    except Exception as exc:  # noqa
        f = _failure(exc)
        return {"k": f["k"], "cs": []}
    return project_classes(slot == 2, objs, nsname)


# ----------------------------------------------------------------------------
# filter lists
# ----------------------------------------------------------------------------

def spell(rng, token, table, cased):
    if token == "":
        return None
    name = table[token]
    return recase(rng, name) if cased else name


def filter_lists(rng, full, hier=False):
    """Token lists (first entry "" = not given) with a parallel list of
    concrete spellings.  Every list has an existing, a differently-cased
    existing and a non-existing name; `full`: every name of the schema;
    `hier`: histories that change the class hierarchy (Va_LinkX): the
    association class filters name Va_LinkX and both its possible
    superclasses."""
    if hier:
        acs = ["", "AB", "ABS", "ABX", rng.choice(("AB", "ABS", "ABX")), "ZZ"]
        acn = [spell(rng, t, CLASSNAME, i == 4) for i, t in enumerate(acs)]
        rcs = ["", "N", "M"]
        rcn = [spell(rng, t, CLASSNAME, False) for t in rcs]
        rls = ["", "r1", "r2"]
        rln = [spell(rng, t, ROLENAME, i == 2) for i, t in enumerate(rls)]
        return {"acs": acs, "rcs": rcs, "rls": rls,
                "acn": acn, "rcn": rcn, "rln": rln}
    def mk(existing, bad, table, extra_bad=()):
        if full:
            toks = [""] + list(existing)
            cased = [False] * len(toks)
            toks.append(rng.choice(existing))
            cased.append(True)
            toks.append(bad)
            cased.append(False)
            for b in extra_bad:
                toks.append(b)
                cased.append(False)
        else:
            a, b = rng.choice(existing), rng.choice(existing)
            toks = ["", a, b, bad]
            cased = [False, False, True, False]
            if extra_bad and rng.random() < 0.3:
                toks.append(rng.choice(extra_bad))
                cased.append(rng.random() < 0.5)
        names = [spell(rng, t, table, c) for t, c in zip(toks, cased)]
        return toks, names
    acs, acn = mk(FIXED_ASSOC_CLASSES, "ZZ", CLASSNAME, extra_bad=("N", "M"))
    rcs, rcn = mk(NODE_CLASSES, "ZZ", CLASSNAME, extra_bad=("AB",))
    rls, rln = mk(("r1", "r2", "a", "b", "c"), "zz", ROLENAME)
    return {"acs": acs, "rcs": rcs, "rls": rls,
            "acn": acn, "rcn": rcn, "rln": rln}


# ----------------------------------------------------------------------------
# one trace = one graph
# ----------------------------------------------------------------------------

def run_job(job):
    """job: dict(seed, nodes, creates, mode, use_pull, full, p_extra,
    sources (None = all), classes[, part]).  Returns dict(trace, log, lists).
    part = (k, n): the k-th of n slices of the job (same seed => the same
    repository and filter lists in every slice): slice k queries the sources
    x with x % n == k; the class-level sources belong to slice 0."""
    rng = random.Random(job["seed"])
    # cuts: positions in the operation list BEFORE which the repository is
    # traversed (all sources, all filter tuples); the traversal after the
    # last operation is always made.  Event "graph" / "regraph" = the
    # repository as it is stored at that moment.
    # quiet: positions where only the repository is read back (a "regraph"
    # event without queries).
    quiet = set(job.get("quiet") or ())
    cuts = sorted(set(job.get("cuts") or ()) | quiet |
                  {len(job["creates"])})
    quiet.discard(cuts[-1])
    conn, log, state = build(rng, job["nodes"], job["creates"], job["mode"],
                             job["use_pull"], upto=cuts[0])
    fl = job.get("lists") or filter_lists(rng, job["full"],
                                          hier=job.get("hier", False))
    trace = []
    ncalls = 0
    stored = None
    for n, cut in enumerate(cuts):
        if n:
            build(rng, job["nodes"], job["creates"], job["mode"],
                  job["use_pull"], upto=cut, state=state)
        stored = Stored(conn)
        between = [c.get("op", "create")
                   for c in job["creates"][cuts[n - 1] if n else 0:cut]]
        after = "rejected" if n and between and \
            all(o == "reject" for o in between) else "writes"
        ncalls += _traverse(rng, job, conn, stored, fl, trace,
                            "regraph" if n else "graph", after,
                            cut in quiet)
    return {"trace": trace, "log": log, "lists": fl, "ncalls": ncalls,
            "nnodes": len(stored.nodes), "nassocs": len(stored.assocs),
            "rejected": state["rejected"],
            "notrejected": state["notrejected"],
            "endsmodified": state.get("endsmodified", 0),
            "endsrefused": state.get("endsrefused", 0)}


def _traverse(rng, job, conn, stored, fl, trace, gop, after, quiet):
    acs, rcs, rls = fl["acs"], fl["rcs"], fl["rls"]
    acn, rcn, rln = fl["acn"], fl["rcn"], fl["rln"]
    trace.append({"op": gop, "nodes": stored.nodes, "assocs": stored.assocs,
                  "xpar": stored.xpar, "acs": acs, "rcs": rcs, "rls": rls,
                  "after": after})
    if quiet:
        return 0
    p_extra = job["p_extra"]
    ncalls = 0
    part_k, part_n = job.get("part") or (0, 1)

    def slots_for():
        s = [1, 2]
        if rng.random() < p_extra:
            s += [3, 4]
        if rng.random() < p_extra:
            s += [5, 6]
        return s

    # class-level sources
    for ctok in (job.get("classes", ()) if part_k == 0 and gop == "graph"
                 else ()):
        exact = rng.random() < 0.6
        cname = CLASSNAME[ctok] if exact else recase(rng, CLASSNAME[ctok])
        nsid = rng.choice((1, 2))
        if nsid == 1 and rng.random() < 0.5:
            src = cname
        else:
            src = CIMClassName(cname, namespace=NSNAME[nsid])
        aq, rq = [], []
        for ia in range(len(acs)):
            for ic in range(len(rcs)):
                for io in range(len(rls)):
                    for ir in range(len(rls)):
                        names = {"AssocClass": acn[ia], "ResultClass": rcn[ic],
                                 "Role": rln[io], "ResultRole": rln[ir]}
                        aq.append({"o": [call_class_slot(
                            rng, conn, "a", t, src, names, NSNAME[nsid])
                            for t in (1, 2)]})
                        ncalls += 2
        for ia in range(len(acs)):
            for io in range(len(rls)):
                names = {"ResultClass": acn[ia], "Role": rln[io]}
                rq.append({"o": [call_class_slot(
                    rng, conn, "r", t, src, names, NSNAME[nsid])
                    for t in (1, 2)]})
                ncalls += 2
        trace.append({"op": "cls", "c": ctok, "exact": exact,
                      "aq": aq, "rq": rq})
    # instance-level sources
    sources = job.get("sources")
    if sources is None:
        sources = list(range(1, stored.nstored + 1))
    for x in sources:
        if x % part_n != part_k:
            continue
        node = stored.nodes[x - 1]
        spath = stored.node_paths[x - 1]

        def src_path():
            p = respell(rng, spath,
                        with_ns=not (node["ns"] == 1 and rng.random() < 0.3))
            if rng.random() < 0.2:
                p.host = rng.choice(("otherhost", "FakedUrl:5988"))
            return p
        aq, rq = [], []
        for ia in range(len(acs)):
            for ic in range(len(rcs)):
                for io in range(len(rls)):
                    for ir in range(len(rls)):
                        names = {"AssocClass": acn[ia], "ResultClass": rcn[ic],
                                 "Role": rln[io], "ResultRole": rln[ir]}
                        sl = slots_for()
                        aq.append({"o": [
                            call_slot(rng, conn, stored, "a", t, src_path(),
                                      names) if t in sl else SKIP
                            for t in range(1, 7)]})
                        ncalls += len(sl)
        for ia in range(len(acs)):
            for io in range(len(rls)):
                names = {"ResultClass": acn[ia], "Role": rln[io]}
                sl = slots_for()
                rq.append({"o": [
                    call_slot(rng, conn, stored, "r", t, src_path(), names)
                    if t in sl else SKIP for t in range(1, 7)]})
                ncalls += len(sl)
        trace.append({"op": "src", "x": x, "aq": aq, "rq": rq})
    return ncalls


# ----------------------------------------------------------------------------
# seeded random graphs
# ----------------------------------------------------------------------------

def random_graph(rng, nnodes, nassoc):
    """Type-correct graph with at least one N-ish and one M node.  Nodes of
    the second namespace are, with probability ~0.4, twins of a node of the
    first one (same class and key values, a different object); some of the
    association instances get a ModifyInstance of `note` afterwards
    (addressed to any namespace that holds a copy)."""
    nodes = [{"ns": 1, "cls": "N"}, {"ns": rng.choice((1, 2)), "cls": "M"}]
    while len(nodes) < nnodes:
        nodes.append({"ns": rng.choice((1, 1, 2)),
                      "cls": rng.choice(("N", "NS", "NSS", "M", "N", "M"))})
    rng.shuffle(nodes)
    taken = set()
    for i, n in enumerate(nodes, 1):
        if n["ns"] == 2 and rng.random() < 0.4:
            cand = [j for j, m in enumerate(nodes, 1)
                    if m["ns"] == 1 and m["cls"] == n["cls"]
                    and j not in taken]
            if cand:
                n["kid"] = rng.choice(cand)
                taken.add(n["kid"])
    ns_ = [i for i, n in enumerate(nodes, 1) if n["cls"] in SUBTREE["N"]]
    ms_ = [i for i, n in enumerate(nodes, 1) if n["cls"] == "M"]
    creates = []
    seen = set()
    tries = 0
    while len(creates) < nassoc and tries < nassoc * 20:
        tries += 1
        cls = rng.choice(("AB", "AB", "ABS", "ABSS", "AT", "AT", "AL"))
        if cls == "AT":
            a = rng.choice(ns_)
            b = a if rng.random() < 0.25 else rng.choice(ns_)
            ends = [a, b, rng.choice(ms_)]
        elif cls == "AL":
            ends = [rng.choice(ns_ + [0]), rng.choice(ms_ + [0])]
        else:
            ends = [rng.choice(ns_), rng.choice(ms_)]
        key = (cls, tuple(ends))
        if key in seen and cls != "AL":
            continue
        seen.add(key)
        creates.append({"op": "create", "cls": cls, "ends": ends,
                        "ns": rng.choice((1, 1, 2))})
    ops = list(creates)
    # rejected creates (spec/AssocImpl.tla Reject): the keys of a stored
    # instance again - for Va_Loose its Id with any other ends - in a
    # namespace where the call collides with a stored copy
    def homes(c, ns):
        return {ns} | {nodes[e - 1]["ns"] for e in c["ends"] if e}
    # (own generator, derived from the graph: the stream of `rng`, and with
    # it every graph of earlier versions of the check, stays as it was)
    rr = random.Random(repr(creates))
    for _ in range(rr.choice((0, 1, 2, 3)) if creates else 0):
        pos = rr.randrange(len(creates))
        t = creates[pos]
        ends = list(t["ends"])
        if t["cls"] == "AL":
            ends = [rr.choice(ns_ + [0]), rr.choice(ms_ + [0])]
        ns = rr.choice((1, 2))
        if homes({"ends": ends}, ns) & homes(t, t["ns"]):
            ops.append({"op": "reject", "cls": t["cls"], "ends": ends,
                        "ns": ns, "target": pos})
    for pos, c in enumerate(creates):
        if rng.random() < 0.2:
            homes = sorted({c["ns"]} | {nodes[e - 1]["ns"]
                                        for e in c["ends"] if e})
            ops.append({"op": "modify", "target": pos, "cls": c["cls"],
                        "ends": c["ends"], "ns": rng.choice(homes)})
    return nodes, ops


def decode_query(lists, kind, i):
    """Filter tokens / spellings of query index i (1-based) of aq or rq."""
    nrc, nrl = len(lists["rcs"]), len(lists["rls"])
    i -= 1
    if kind == "a":
        ia, rem = divmod(i, nrc * nrl * nrl)
        ic, rem = divmod(rem, nrl * nrl)
        io, ir = divmod(rem, nrl)
        return {"AssocClass": (lists["acs"][ia], lists["acn"][ia]),
                "ResultClass": (lists["rcs"][ic], lists["rcn"][ic]),
                "Role": (lists["rls"][io], lists["rln"][io]),
                "ResultRole": (lists["rls"][ir], lists["rln"][ir])}
    ia, io = divmod(i, nrl)
    return {"ResultClass": (lists["acs"][ia], lists["acn"][ia]),
            "Role": (lists["rls"][io], lists["rln"][io])}
