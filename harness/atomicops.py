"""
Scenario generators for C11: repository-changing calls on FakedWBEMConnection,
valid ones and ones rejected "for every reason the server can reject", single
objects and batches whose k-th element is invalid.  Each scenario is
(family, label, thunk).
"""
import os
import pywbem
from pywbem import (CIMClass, CIMInstance, CIMInstanceName, CIMProperty,
                    CIMQualifier, CIMQualifierDeclaration, CIMClassName,
                    Uint32, Uint16, Uint8)
from mockrepo import NS1, NS2

BADNS = "root/nonexistent"
# a third namespace with just enough schema for an association that spans
# three namespaces (VTern: a -> NS1, b -> NS3, x -> NS2)
NS3 = "root/v3"
NS3_MOF = """
Qualifier Key : boolean = false, Scope(property, reference),
    Flavor(DisableOverride, ToSubclass);
Qualifier Association : boolean = false, Scope(association),
    Flavor(DisableOverride, ToSubclass);
class VA { [Key] uint32 k; string s; };
class VX { [Key] string name; [Key] uint16 n; string note; };
[Association] class VTern {
    [Key] VA REF a;
    [Key] VA REF b;
    [Key] VX REF x;
};
instance of VA { k = 1; s = "a1-in-v3"; };
"""


def keyprop():
    return CIMProperty("k", None, type="uint32",
                       qualifiers=[CIMQualifier("Key", True)])


def _vn_inst(cls, k, ns=None, s="x"):
    inst = CIMInstance(cls, properties=[CIMProperty("k", Uint32(k)),
                                        CIMProperty("s", s, type="string")])
    if ns:
        inst.path = CIMInstanceName(cls, keybindings={"k": Uint32(k)},
                                    namespace=ns)
    return inst


def _ipath(cls, ns, **kb):
    return CIMInstanceName(cls, keybindings=kb, namespace=ns)


_EMPTY_FIRST = None


def fresh_empty_namespaces_first():
    """The template content of mockrepo plus the namespace provider, but the
    repository starts with two EMPTY namespaces, so that their CIM_Namespace
    instances precede those of the non-empty namespaces (start-state class
    'some instances of the class can be deleted, a later one cannot')."""
    global _EMPTY_FIRST
    import copy
    import pywbem_mock
    import mockrepo
    if _EMPTY_FIRST is None:
        conn = pywbem_mock.FakedWBEMConnection(default_namespace="root/e0")
        conn.add_namespace("root/e1")
        for ns in (NS1, NS2):
            conn.add_namespace(ns)
            conn.compile_mof_string(mockrepo.QUALIFIERS + mockrepo.SCHEMA,
                                    namespace=ns)
        src = mockrepo.template().cimrepository
        for ns in (NS1, NS2):
            for inst in src.get_instance_store(ns).iter_values():
                conn.add_cimobjects(inst, namespace=ns)
        conn.install_namespace_provider(
            "interop", schema_pragma_file=mockrepo.schema_pragma_file())
        conn.default_namespace = NS1
        _EMPTY_FIRST = conn
    return copy.deepcopy(_EMPTY_FIRST)


def prime(conn):
    """The part of the start state that all C11 histories share on top of the
    mockrepo content: an association class keyed by an id, and the third
    namespace."""
    mof = ('[Association] class VAssocId { [Key] string id; '
           'VA REF left; VX REF right; string note; };')
    for n in (NS1, NS2):
        conn.compile_mof_string(mof, namespace=n)
    conn.add_namespace(NS3)
    conn.compile_mof_string(NS3_MOF, namespace=NS3)
    return conn


_PRIMED = {}


def start_state(kind):
    """A fresh primed connection: kind = "plain", "namespace-provider" or
    "empty-namespaces-first" (primed once per kind, then deep-copied)."""
    import copy
    import mockrepo
    if kind not in _PRIMED:
        _PRIMED[kind] = prime(
            fresh_empty_namespaces_first() if kind == "empty-namespaces-first"
            else mockrepo.fresh_with_namespace_provider()
            if kind == "namespace-provider" else mockrepo.fresh())
    return copy.deepcopy(_PRIMED[kind])


class Gen:
    def __init__(self, conn, rng, workdir):
        self.conn = conn
        self.rng = rng
        self.n = 0
        self.workdir = workdir
        self.force = []
        if NS3.lower() not in [n.lower() for n in conn.namespaces]:
            prime(conn)

    def uniq(self):
        self.n += 1
        return self.n

    # -- helpers on current state ---------------------------------------------
    def classes(self, ns):
        return self.conn.EnumerateClassNames(namespace=ns, DeepInheritance=True)

    def has_class(self, ns, name):
        return name.lower() in [c.lower() for c in self.classes(ns)]

    def instances_of(self, ns, cls):
        if not self.has_class(ns, cls):
            return []
        return self.conn.EnumerateInstanceNames(cls, namespace=ns)

    # -- single-object scenarios ------------------------------------------------
    def scenarios(self):
        c, r = self.conn, self.rng
        if self.force:
            # second step of a two-step scenario
            out, self.force = self.force, []
            return out
        out = []
        u = self.uniq()
        ns = r.choice([NS1, NS1, NS2])
        self.assocs = self.instances_of(NS1, "VAssoc")

        def add(fam, label, fn):
            out.append((fam, label, fn))

        # CreateClass
        newc = CIMClass("VNew%d" % u, properties=[
            keyprop(), CIMProperty("p", None, type="string")])
        add("CreateClass", "valid", lambda: c.CreateClass(newc, namespace=ns))
        subc = CIMClass("VSub%d" % u, superclass="VA", properties=[
            CIMProperty("extra", None, type="uint8")])
        add("CreateClass", "valid-subclass",
            lambda: c.CreateClass(subc, namespace=ns))
        add("CreateClass", "exists", lambda: c.CreateClass(
            CIMClass("VA", properties=[keyprop()]), namespace=ns))
        add("CreateClass", "superclass-missing", lambda: c.CreateClass(
            CIMClass("VQ%d" % u, superclass="VNoSuch",
                     properties=[keyprop()]), namespace=ns))
        add("CreateClass", "undeclared-qualifier", lambda: c.CreateClass(
            CIMClass("VQ%d" % u, properties=[keyprop(), CIMProperty(
                "p", None, type="string",
                qualifiers=[CIMQualifier("NoSuchQual", True)])]),
            namespace=ns))
        add("CreateClass", "bad-namespace", lambda: c.CreateClass(
            CIMClass("VQ%d" % u, properties=[keyprop()]), namespace=BADNS))
        add("CreateClass", "reference-class-missing", lambda: c.CreateClass(
            CIMClass("VQ%d" % u, properties=[keyprop(), CIMProperty(
                "r", None, type="reference", reference_class="VNoSuch")],
                qualifiers=[CIMQualifier("Association", True)]),
            namespace=ns))
        add("CreateClass", "qualifier-wrong-type", lambda: c.CreateClass(
            CIMClass("VQ%d" % u, properties=[keyprop(), CIMProperty(
                "p", None, type="string",
                qualifiers=[CIMQualifier("MaxLen", "abc", type="string")])]),
            namespace=ns))
        # ModifyClass
        if self.has_class(ns, "VN0"):
            add("ModifyClass", "valid", lambda: c.ModifyClass(
                CIMClass("VN0", properties=[keyprop(), CIMProperty(
                    "s", None, type="string"), CIMProperty(
                        "m%d" % u, None, type="uint8")]), namespace=ns))
            add("ModifyClass", "invalid-new-definition", lambda: c.ModifyClass(
                CIMClass("VN0", properties=[keyprop(), CIMProperty(
                    "s", None, type="string", qualifiers=[
                        CIMQualifier("NoSuchQual", True)])]), namespace=ns))
            add("ModifyClass", "superclass-missing", lambda: c.ModifyClass(
                CIMClass("VN0", superclass="VNoSuch",
                         properties=[keyprop()]), namespace=ns))
        add("ModifyClass", "not-found", lambda: c.ModifyClass(
            CIMClass("VNoSuch%d" % u, properties=[keyprop()]), namespace=ns))
        add("ModifyClass", "bad-namespace", lambda: c.ModifyClass(
            CIMClass("VN0", properties=[keyprop()]), namespace=BADNS))
        if self.has_class(ns, "VA"):
            add("ModifyClass", "has-subclasses", lambda: c.ModifyClass(
                CIMClass("VA", properties=[keyprop()]), namespace=ns))
        if self.has_class(ns, "VN3"):
            add("ModifyClass", "has-instances", lambda: c.ModifyClass(
                CIMClass("VN3", properties=[keyprop(), CIMProperty(
                    "zz", None, type="string")]), namespace=ns))
        # DeleteClass
        victim = r.choice(["VN0", "VN1", "VB", "VC", "VTern", "VAssocSub",
                           "VN5", "VNew%d" % max(1, u - 1)])
        add("DeleteClass", "valid-or-notfound:" + victim,
            lambda: c.DeleteClass(victim, namespace=ns))
        add("DeleteClass", "not-found",
            lambda: c.DeleteClass("VNoSuch", namespace=ns))
        add("DeleteClass", "bad-namespace",
            lambda: c.DeleteClass("VN0", namespace=BADNS))
        add("DeleteClass", "different-case",
            lambda: c.DeleteClass("vn4", namespace=ns))
        # qualifier declarations
        qd = CIMQualifierDeclaration("VQual%d" % u, "string", value="dflt",
                                     scopes={"PROPERTY": True})
        add("SetQualifier", "valid-new", lambda: c.SetQualifier(qd, namespace=ns))
        add("SetQualifier", "valid-update", lambda: c.SetQualifier(
            CIMQualifierDeclaration("Description", "string", value=None,
                                    scopes={"ANY": True}, tosubclass=True,
                                    overridable=True, translatable=True),
            namespace=ns))
        add("SetQualifier", "bad-namespace",
            lambda: c.SetQualifier(qd, namespace=BADNS))
        add("DeleteQualifier", "not-found",
            lambda: c.DeleteQualifier("NoSuchQual", namespace=ns))
        add("DeleteQualifier", "bad-namespace",
            lambda: c.DeleteQualifier("Key", namespace=BADNS))
        add("DeleteQualifier", "valid-or-notfound",
            lambda: c.DeleteQualifier("VQual%d" % max(1, u - 1), namespace=ns))
        add("DeleteQualifier", "in-use",
            lambda: c.DeleteQualifier("Key", namespace=ns))
        # instances
        kk = r.randint(1, 9)
        vn = r.choice(["VN1", "VN2", "VN3", "VN4"])
        add("CreateInstance", "valid-or-exists",
            lambda: c.CreateInstance(_vn_inst(vn, kk), namespace=ns))
        add("CreateInstance", "exists",
            lambda: c.CreateInstance(_vn_inst("VN3", 1), namespace=ns))
        add("CreateInstance", "class-missing",
            lambda: c.CreateInstance(_vn_inst("VNoSuch", 1), namespace=ns))
        add("CreateInstance", "bad-namespace",
            lambda: c.CreateInstance(_vn_inst("VN3", 50), namespace=BADNS))
        add("CreateInstance", "undeclared-property", lambda: c.CreateInstance(
            CIMInstance("VN3", properties=[CIMProperty("k", Uint32(60)),
                                           CIMProperty("zz", "x")]),
            namespace=ns))
        add("CreateInstance", "wrong-type", lambda: c.CreateInstance(
            CIMInstance("VN3", properties=[CIMProperty("k", Uint32(61)),
                                           CIMProperty("s", Uint8(3))]),
            namespace=ns))
        add("CreateInstance", "key-missing", lambda: c.CreateInstance(
            CIMInstance("VN3", properties=[CIMProperty("s", "nokey")]),
            namespace=ns))
        # associations (single namespace)
        a_k = r.choice([1, 2, 3, 4, 5])
        x_n = r.choice([1, 2, 3, 4])
        left = _ipath("VA", NS1, k=Uint32(a_k))
        right = _ipath("VX", NS1, name="x%d" % x_n, n=Uint16(x_n))
        add("CreateInstance", "assoc-valid-or-exists-or-endpoint",
            lambda: c.CreateInstance(CIMInstance("VAssoc", properties=[
                CIMProperty("left", left, reference_class="VA"),
                CIMProperty("right", right, reference_class="VX"),
                CIMProperty("note", "n")]), namespace=NS1))
        add("CreateInstance", "assoc-endpoint-missing",
            lambda: c.CreateInstance(CIMInstance("VAssoc", properties=[
                CIMProperty("left", _ipath("VA", NS1, k=Uint32(99)),
                            reference_class="VA"),
                CIMProperty("right", right, reference_class="VX")]),
                namespace=NS1))
        # the lexical form of a namespace name is a free dimension: the same
        # association with the namespace of a reference (or of the call)
        # written in another case is still a single-namespace one
        how = r.choice(["left", "right", "both", "call"])
        lcase = CIMInstanceName("VA", keybindings={"k": Uint32(a_k)},
                                namespace=NS1.upper() if how in (
                                    "left", "both") else NS1)
        rcase = _ipath("VX", NS1.title() if how in ("right", "both") else NS1,
                       name="x%d" % x_n, n=Uint16(x_n))
        add("CreateInstance", "assoc-reference-namespace-case",
            lambda: c.CreateInstance(CIMInstance("VAssoc", properties=[
                CIMProperty("left", lcase, reference_class="VA"),
                CIMProperty("right", rcase, reference_class="VX"),
                CIMProperty("note", "case")]),
                namespace=NS1.upper() if how == "call" else NS1))
        # multi-namespace association: left in NS1, right in NS2
        right2 = _ipath("VX", NS2, name="x1", n=Uint16(1))
        add("CreateInstance", "assoc-multi-namespace",
            lambda: c.CreateInstance(CIMInstance("VAssoc", properties=[
                CIMProperty("left", left, reference_class="VA"),
                CIMProperty("right", right2, reference_class="VX"),
                CIMProperty("note", "multi")]), namespace=NS1))
        add("CreateInstance", "assoc-multi-namespace-endpoint-missing",
            lambda: c.CreateInstance(CIMInstance("VAssoc", properties=[
                CIMProperty("left", left, reference_class="VA"),
                CIMProperty("right", _ipath("VX", NS2, name="zz", n=Uint16(9)),
                            reference_class="VX")]), namespace=NS1))
        # Spec case (MockAtomicImpl, CreateInstanceMultiNsAlias): the lexical
        # form of the namespace of EVERY reference is a free dimension also
        # when the references point into another namespace than the call's;
        # two references into the same other namespace may spell it in two
        # ways.  Shapes: both references into NS1, created through NS2;
        # left into NS1, right into NS2, created through NS1.
        def spell(n):
            return r.choice([n, n.upper(), n.title()])
        if r.random() < 0.6:
            via, lns, rns = NS2, spell(NS1), spell(NS1)
            rx = _ipath("VX", rns, name="x%d" % x_n, n=Uint16(x_n))
        else:
            via, lns, rns = NS1, spell(NS1), spell(NS2)
            rx = _ipath("VX", rns, name="x1", n=Uint16(1))
        la = _ipath("VA", lns, k=Uint32(r.choice([1, 2])))
        for _ in range(3):      # weight inside the CreateInstance family
            add("CreateInstance", "assoc-multi-namespace-reference-case",
                lambda: c.CreateInstance(CIMInstance("VAssoc", properties=[
                    CIMProperty("left", la, reference_class="VA"),
                    CIMProperty("right", rx, reference_class="VX"),
                    CIMProperty("note", "mcase")]), namespace=via))
        out += self.three_namespaces(u, r.choice([1, 2]))
        # ModifyInstance
        mk = r.randint(1, 5)
        mp = _ipath(vn, ns, k=Uint32(mk))
        mi = CIMInstance(vn, properties=[CIMProperty("s", "mod%d" % u)],
                         path=mp)
        add("ModifyInstance", "valid-or-notfound",
            lambda: c.ModifyInstance(mi))
        add("ModifyInstance", "not-found", lambda: c.ModifyInstance(
            CIMInstance("VN3", properties=[CIMProperty("s", "q")],
                        path=_ipath("VN3", ns, k=Uint32(77)))))
        add("ModifyInstance", "undeclared-property", lambda: c.ModifyInstance(
            CIMInstance("VN3", properties=[CIMProperty("zz", "q")],
                        path=_ipath("VN3", ns, k=Uint32(1)))))
        add("ModifyInstance", "propertylist-undeclared",
            lambda: c.ModifyInstance(
                CIMInstance("VN3", properties=[CIMProperty("s", "q")],
                            path=_ipath("VN3", ns, k=Uint32(1))),
                PropertyList=["s", "zz"]))
        add("ModifyInstance", "class-missing", lambda: c.ModifyInstance(
            CIMInstance("VNoSuch", properties=[CIMProperty("s", "q")],
                        path=_ipath("VNoSuch", ns, k=Uint32(1)))))
        # modify association instances (incl. multi-namespace ones)
        for ap in self.assocs[:6]:
            ai = CIMInstance(ap.classname, properties=[
                CIMProperty("note", "m%d" % u)], path=ap.copy())
            add("ModifyInstance", "assoc", lambda ai=ai: c.ModifyInstance(ai))
            if r.random() < 0.3:
                add("DeleteInstance", "assoc",
                    lambda ap=ap: c.DeleteInstance(ap.copy()))
        # DeleteInstance
        add("DeleteInstance", "valid-or-notfound",
            lambda: c.DeleteInstance(_ipath(vn, ns, k=Uint32(mk))))
        add("DeleteInstance", "not-found",
            lambda: c.DeleteInstance(_ipath("VN3", ns, k=Uint32(88))))
        add("DeleteInstance", "class-missing",
            lambda: c.DeleteInstance(_ipath("VNoSuch", ns, k=Uint32(1))))
        add("DeleteInstance", "bad-namespace",
            lambda: c.DeleteInstance(_ipath("VN3", BADNS, k=Uint32(1))))
        # namespaces
        add("add_namespace", "valid", lambda: c.add_namespace("root/new%d" % u))
        add("add_namespace", "exists", lambda: c.add_namespace(NS1.upper()))
        add("remove_namespace", "not-found",
            lambda: c.remove_namespace("root/nosuch"))
        add("remove_namespace", "not-empty",
            lambda: c.remove_namespace(NS1))
        add("remove_namespace", "valid-or-notfound",
            lambda: c.remove_namespace("root/new%d" % max(1, u - 1)))
        # an association instance whose copy in the other namespace is missing
        orphan = CIMInstance("VAssoc", properties=[
            CIMProperty("left", _ipath("VA", NS1, k=Uint32(2)),
                        reference_class="VA"),
            CIMProperty("right", right2, reference_class="VX"),
            CIMProperty("note", "orphan")],
            path=CIMInstanceName("VAssoc", keybindings={
                "left": _ipath("VA", NS1, k=Uint32(2)), "right": right2},
                namespace=NS1))
        # Spec case (MockAtomicImpl, Modify/DeleteInstanceMultiNs: "notfound2"):
        # the copy in the other namespace is missing; the calls that meet
        # that state follow as the next call
        opath = orphan.path

        def add_orphan():
            self.force = [
                ("ModifyInstance", "assoc-multi-namespace-copy-missing",
                 lambda: c.ModifyInstance(CIMInstance("VAssoc", properties=[
                     CIMProperty("note", "om%d" % u)], path=opath.copy()))),
                ("DeleteInstance", "assoc-multi-namespace-copy-missing",
                 lambda: c.DeleteInstance(opath.copy()))]
            c.add_cimobjects(orphan, namespace=NS1)
        add("add_cimobjects", "single-assoc-in-one-namespace-only",
            add_orphan)
        add("add_cimobjects", "single-assoc-in-one-namespace-only",
            add_orphan)
        for ap in self.assocs:
            refs_ns2 = any(isinstance(v, CIMInstanceName) and
                           (v.namespace or "").lower() == NS2.lower()
                           for v in ap.keybindings.values())
            if refs_ns2:
                ai = CIMInstance(ap.classname, properties=[
                    CIMProperty("note", "mm%d" % u)], path=ap.copy())
                add("ModifyInstance", "assoc-multi-namespace",
                    lambda ai=ai: c.ModifyInstance(ai))
                add("DeleteInstance", "assoc-multi-namespace",
                    lambda ap=ap: c.DeleteInstance(ap.copy()))
        # multi-namespace associations reached through the OTHER namespace
        for ap in [p for p in c.cimrepository.get_instance_store(
                NS2).iter_names() if p.classname.lower() == "vassoc"][:4]:
            ai = CIMInstance(ap.classname, properties=[
                CIMProperty("note", "m2%d" % u)], path=ap.copy())
            add("ModifyInstance", "assoc-multi-namespace",
                lambda ai=ai: c.ModifyInstance(ai))
            if r.random() < 0.5:
                add("DeleteInstance", "assoc-multi-namespace",
                    lambda ap=ap: c.DeleteInstance(ap.copy()))
        if "interop" in [n.lower() for n in c.namespaces]:
            out += self.namespace_provider(u)
        out += self.batches(ns, u)
        return out

    def three_namespaces(self, u, a_k):
        """Spec case (MockAtomicImpl, Modify/DeleteInstanceMultiNs3): an
        association that spans THREE namespaces.  The copies are visited in
        the order of the references (the namespace of the call last);
        "notfound2" = the first visited copy is missing, "notfound3" = a
        later one is missing after an earlier one was found."""
        c, r = self.conn, self.rng
        out = []
        allns = [NS1, NS3, NS2]           # order of the references a, b, x
        rep = c.cimrepository
        if not all(rep.get_class_store(n).object_exists("VTern")
                   for n in allns):
            return out
        kb = dict(a=_ipath("VA", NS1, k=Uint32(a_k)),
                  b=_ipath("VA", NS3, k=Uint32(1)),
                  x=_ipath("VX", NS2, name="x1", n=Uint16(1)))

        def inst(via=None):
            i = CIMInstance("VTern", properties=[
                CIMProperty("a", kb["a"], reference_class="VA"),
                CIMProperty("b", kb["b"], reference_class="VA"),
                CIMProperty("x", kb["x"], reference_class="VX")])
            if via:
                i.path = CIMInstanceName("VTern", keybindings=kb,
                                         namespace=via)
            return i

        def label(path, via, present):
            order = [n for n in allns if n != via] + [via]
            missing = [n for n in order if n not in present]
            if not missing:
                return "assoc-three-namespaces"
            if order.index(missing[0]) == 0:
                return "assoc-three-namespace-first-copy-missing"
            return "assoc-three-namespace-later-copy-missing"

        def calls(path, via, present):
            p = path.copy()
            p.namespace = via
            lab = label(p, via, present)
            return [("ModifyInstance", lab, lambda: c.ModifyInstance(
                        CIMInstance("VTern", path=p.copy()))),
                    ("DeleteInstance", lab,
                     lambda: c.DeleteInstance(p.copy()))]

        via = r.choice(allns)
        out.append(("CreateInstance", "assoc-three-namespaces",
                    lambda: c.CreateInstance(inst(), namespace=via)))
        # the state "a copy is missing": put the instance into one or two of
        # the three namespaces only; the calls that meet it follow
        present = r.sample(allns, r.choice([1, 2, 2]))
        pvia = r.choice(present)

        def where(path):
            res = []
            for n in allns:
                p = path.copy()
                p.namespace = n
                if rep.get_instance_store(n).object_exists(p):
                    res.append(n)
            return res

        def add_partial():
            path = inst(pvia).path
            have = where(path)
            todo = [n for n in present if n not in have]
            # (one add_cimobjects call per scenario: a scenario is ONE call)
            if todo:
                c.add_cimobjects(inst(todo[0]), namespace=todo[0])
            have = where(path)
            if len(todo) > 1:
                self.force = [
                    ("add_cimobjects",
                     "three-namespace-assoc-in-some-namespaces-only",
                     add_partial)]
            elif have:
                self.force = calls(path, pvia if pvia in have else have[0],
                                   have)
        for _ in range(2):
            out.append(("add_cimobjects",
                        "three-namespace-assoc-in-some-namespaces-only",
                        add_partial))
        # ... and from wherever the history already has such instances
        found = {}
        for n in allns:
            for p in list(rep.get_instance_store(n).iter_names()):
                if p.classname.lower() != "vtern":
                    continue
                q = p.copy()
                q.namespace = None
                found.setdefault(q.to_wbem_uri(), (q, []))[1].append(n)
        for q, nss in found.values():
            spans = set((v.namespace or "").lower()
                        for v in q.keybindings.values())
            if len(spans) == 3:
                out += calls(q, r.choice(nss), nss)
        return out

    def namespace_provider(self, u):
        c = self.conn
        out = []

        def nsinst(name, drop=()):
            props = dict(Name=name, CreationClassName="CIM_Namespace",
                         ObjectManagerName="FakeObjectManager",
                         ObjectManagerCreationClassName="CIM_ObjectManager",
                         SystemName="MockSystem_WBEMServerTest",
                         SystemCreationClassName="CIM_ComputerSystem")
            return CIMInstance("CIM_Namespace", properties=[
                CIMProperty(k, v, type="string") for k, v in props.items()
                if k not in drop])

        def nspath(name):
            i = nsinst(name)
            return CIMInstanceName("CIM_Namespace", keybindings={
                k: p.value for k, p in i.properties.items()},
                namespace="interop")

        out.append(("CreateInstance", "CIM_Namespace-valid",
                    lambda: c.CreateInstance(nsinst("root/nsp%d" % u),
                                             namespace="interop")))
        out.append(("CreateInstance", "CIM_Namespace-key-missing",
                    lambda: c.CreateInstance(
                        nsinst("root/nspk%d" % u, drop=("SystemName",)),
                        namespace="interop")))
        out.append(("CreateInstance", "CIM_Namespace-name-missing",
                    lambda: c.CreateInstance(nsinst("x", drop=("Name",)),
                                             namespace="interop")))
        out.append(("CreateInstance", "CIM_Namespace-exists",
                    lambda: c.CreateInstance(nsinst(NS1),
                                             namespace="interop")))
        out.append(("CreateInstance", "CIM_Namespace-wrong-creationclassname",
                    lambda: c.CreateInstance(CIMInstance(
                        "CIM_Namespace", properties=[
                            CIMProperty("Name", "root/nspw%d" % u),
                            CIMProperty("CreationClassName", "Other")]),
                        namespace="interop")))
        out.append(("DeleteInstance", "CIM_Namespace-not-empty",
                    lambda: c.DeleteInstance(nspath(NS2))))
        out.append(("DeleteInstance", "CIM_Namespace-interop",
                    lambda: c.DeleteInstance(nspath("interop"))))
        out.append(("DeleteInstance", "CIM_Namespace-valid-or-notfound",
                    lambda: c.DeleteInstance(
                        nspath("root/nsp%d" % max(1, u - 1)))))
        out.append(("DeleteInstance", "CIM_Namespace-stale-instance",
                    lambda: c.DeleteInstance(nspath("root/never"))))
        out.append(("ModifyInstance", "CIM_Namespace-not-supported",
                    lambda: c.ModifyInstance(CIMInstance(
                        "CIM_Namespace", properties=[CIMProperty(
                            "Caption", "c")], path=nspath(NS1)))))
        out.append(("remove_namespace", "namespace-with-provider-instance",
                    lambda: c.remove_namespace("root/nsp%d" % max(1, u - 1))))
        # Spec case (MockAtomicImpl, DeleteClassProvider): the provider
        # rejects the deletion of the m-th instance of the class (namespace
        # not empty / the Interop namespace) after it accepted earlier ones
        # (their namespaces are empty: start state of empty_first_template())
        for _ in range(2):
            out.append(("DeleteClass", "CIM_Namespace-provider-rejects",
                        lambda: c.DeleteClass("CIM_Namespace",
                                              namespace="interop")))
        # Spec case (MockAtomicImpl, DeleteClassSubtree): the subtree of the
        # deleted class contains an instance-less class (created as the call
        # before) besides the instances the provider refuses to delete;
        # the instance-less class below the provider's class or beside it,
        # the deleted class = the provider's class or its superclass
        r = self.rng
        tgt = r.choice(["CIM_Namespace", "CIM_Namespace", "CIM_ManagedElement"])
        sup = r.choice(["CIM_Namespace", "CIM_Namespace", "CIM_ManagedElement"])
        sub = CIMClass("VNsSub%d" % u, superclass=sup, properties=[
            CIMProperty("extra", None, type="uint8")])

        def create_sub():
            self.force = [
                ("DeleteClass", "provider-rejects-instanceless-subclass",
                 lambda: c.DeleteClass(tgt, namespace="interop"))]
            c.CreateClass(sub, namespace="interop")
        for _ in range(3):
            out.append(("CreateClass", "valid-instanceless-class-beside-"
                        "provider-instances", create_sub))
        out.append(("CreateInstance", "CIM_Namespace-second-interop",
                    lambda: c.CreateInstance(nsinst("root/interop"),
                                             namespace="interop")))
        out.append(("CreateInstance", "CIM_Namespace-undeclared-property",
                    lambda: c.CreateInstance(CIMInstance(
                        "CIM_Namespace", properties=list(
                            nsinst("root/nspu%d" % u).properties.values()) +
                        [CIMProperty("NoSuchProp", "x")]),
                        namespace="interop")))
        out.append(("CreateInstance", "CIM_Namespace-not-interop-namespace",
                    lambda: c.CreateInstance(nsinst("root/nspn%d" % u),
                                             namespace=NS1)))
        # Spec case (MockAtomicImpl, CreateNamespaceInstance): the duplicate
        # check of the default provider comes AFTER the namespace was added;
        # it can only fire in the state "the CIM_Namespace instance exists,
        # its namespace does not".  Two routes into that state, then the
        # CreateInstance with the same keys as the next call.
        name = "root/nss%d" % u

        def final(nm):
            return ("CreateInstance",
                    "CIM_Namespace-instance-exists-namespace-missing",
                    lambda: c.CreateInstance(nsinst(nm), namespace="interop"))

        def add_directly():
            self.force = [final(name)]
            inst = nsinst(name)
            inst.path = nspath(name)
            c.add_cimobjects(inst, namespace="interop")

        def remove():
            self.force = [final(name)]
            c.remove_namespace(name)

        def create_first():
            self.force = [("remove_namespace",
                           "namespace-with-provider-instance", remove)]
            c.CreateInstance(nsinst(name), namespace="interop")
        for _ in range(2):
            out.append(("add_cimobjects",
                        "CIM_Namespace-instance-without-namespace",
                        add_directly))
        for _ in range(4):
            out.append(("CreateInstance",
                        "CIM_Namespace-valid-then-namespace-removed",
                        create_first))
        # ... and from wherever the history already is in that state
        existing = [n.lower() for n in c.namespaces]
        for p in c.cimrepository.get_instance_store("interop").iter_names():
            if p.classname.lower() == "cim_namespace" and \
                    p.keybindings["Name"].strip("/").lower() not in existing:
                out.append(final(p.keybindings["Name"]))
        return out

    # -- batches -------------------------------------------------------------------
    GOOD_MOF = [
        'class VM%(u)d_%(j)d { [Key] uint32 k; string s; };',
        'instance of VN5 { k = %(kk)d; s = "b%(u)d"; };',
        'Qualifier VMQ%(u)d_%(j)d : string = null, Scope(property);',
        'class VMS%(u)d_%(j)d : VA { uint8 extra; };',
        'instance of VN4 { k = %(kk)d; };',
    ]
    BAD_MOF = {
        "syntax-error": 'class { oops',
        "unknown-superclass": 'class VBad%(u)d : VNoSuchSuper { uint8 x; };',
        "unknown-qualifier": 'class VBad%(u)d { [NoSuchQual] uint8 x; };',
        "duplicate-instance": 'instance of VN7 { k = 1; s = "dup"; };',
        "instance-of-unknown-class": 'instance of VNoSuch { k = 1; };',
        "undefined-alias":
            'instance of VAssoc { left = $nosuch; right = $nosuch2; };',
        "type-mismatch": 'instance of VN5 { k = "notanumber"; };',
        "unterminated-string": 'instance of VN5 { k = 3; s = "abc; };',
        "bad-property": 'instance of VN5 { k = 4; nosuchprop = 1; };',
        # an error that is not a MOF error: the included file does not exist
        "include-missing": '#pragma include ("nosuch%(u)d_%(j)d.mof")',
    }

    def batches(self, ns, u):
        c, r = self.conn, self.rng
        out = []
        n = r.randint(1, 4)
        reason = r.choice(sorted(self.BAD_MOF) + ["none", "none"])
        badpos = r.randint(0, n)       # productions before the bad one
        prods = []
        for j in range(n):
            if j == badpos and reason != "none":
                prods.append(self.BAD_MOF[reason] % dict(u=u, j=j))
            prods.append(r.choice(self.GOOD_MOF) % dict(
                u=u, j=j, kk=100 + 10 * u + j))
        if badpos == n and reason != "none":
            prods.append(self.BAD_MOF[reason] % dict(u=u, j=n))
        mof = "\n".join(prods)
        label = "%s@%d/%d" % (reason, badpos, n)
        out.append(("compile_mof_string", label,
                    lambda: c.compile_mof_string(mof, namespace=ns)))
        # file variant with an include: the bad production sits in the include
        # (the files are written when the scenario is run)
        d = os.path.join(self.workdir, "mof%d" % u)
        inc = os.path.join(d, "inc%d.mof" % u)
        main = os.path.join(d, "main%d.mof" % u)

        def compile_file():
            os.makedirs(d, exist_ok=True)
            with open(inc, "w") as f:
                f.write("\n".join(prods[len(prods) // 2:]) + "\n")
            with open(main, "w") as f:
                f.write("\n".join(p.replace("VM%d_" % u, "VF%d_" % u).replace(
                    "VMQ", "VFQ").replace("VMS", "VFS")
                    for p in prods[:len(prods) // 2]) +
                    '\n#pragma include ("inc%d.mof")\n' % u)
            c.compile_mof_file(main, namespace=ns, search_paths=[d])
        out.append(("compile_mof_file", label, compile_file))
        out.append(("compile_mof_file", "missing-file",
                    lambda: c.compile_mof_file(
                        os.path.join(d, "nosuch.mof"), namespace=ns)))
        # add_cimobjects batches
        good = [
            CIMClass("VO%d_a" % u, properties=[keyprop()]),
            _vn_inst("VN5", 200 + u, ns),
            CIMQualifierDeclaration("VOQ%d" % u, "uint8",
                                    scopes={"PROPERTY": True}),
            _vn_inst("VN4", 300 + u, ns),
            CIMClass("VO%d_b" % u, superclass="VA", properties=[
                CIMProperty("ob", None, type="string")]),
        ]
        bad = {
            "duplicate-class": CIMClass("VA", properties=[keyprop()]),
            "superclass-missing": CIMClass("VOB%d" % u, superclass="VNoSuch",
                                           properties=[keyprop()]),
            "instance-without-path": CIMInstance("VN5", properties=[
                CIMProperty("k", Uint32(1))]),
            "duplicate-instance": _vn_inst("VN7", 1, ns),
            "duplicate-qualifier": CIMQualifierDeclaration(
                "Key", "boolean", scopes={"PROPERTY": True}),
            "undeclared-qualifier-in-class": CIMClass(
                "VOC%d" % u, properties=[keyprop(), CIMProperty(
                    "p", None, type="string",
                    qualifiers=[CIMQualifier("NoSuchQual", True)])]),
        }
        m = r.randint(1, 4)
        objs = [r.choice(good) for _ in range(m)]
        # avoid accidental duplicates among the good ones
        seen, uniq_objs = set(), []
        for o in objs:
            if id(o) not in seen:
                seen.add(id(o))
                uniq_objs.append(o)
        objs = uniq_objs
        oreason = r.choice(sorted(bad) + ["none"])
        if oreason != "none":
            pos = r.randint(0, len(objs))
            objs.insert(pos, bad[oreason])
            olabel = "%s@%d/%d" % (oreason, pos, len(objs))
        else:
            olabel = "none/%d" % len(objs)
        out.append(("add_cimobjects", olabel,
                    lambda: c.add_cimobjects(objs, namespace=ns)))
        out.append(("add_cimobjects", "bad-namespace",
                    lambda: c.add_cimobjects(good[0], namespace=BADNS)))
        out += self.schema_classes(ns, u)
        out += self.id_keyed_association(u)
        out += self.outside_namespace_batches(ns, u)
        return out

    NS_INSTANCE_MOF = (
        'instance of CIM_Namespace { Name = "%s"; '
        'CreationClassName = "CIM_Namespace"; '
        'ObjectManagerName = "FakeObjectManager"; '
        'ObjectManagerCreationClassName = "CIM_ObjectManager"; '
        'SystemName = "MockSystem_WBEMServerTest"; '
        'SystemCreationClassName = "CIM_ComputerSystem"; };')

    def outside_namespace_batches(self, ns, u):
        """Spec case (MockAtomicImpl, batchns): MOF batches whose productions
        write OUTSIDE the target namespace of the call before (and after) the
        invalid production.  Three routes: `#pragma namespace` into another
        existing namespace; an association instance with a reference into
        another namespace (shadow copy there); with the namespace provider,
        an `instance of CIM_Namespace` that creates a namespace (and
        productions compiled into it)."""
        c, r = self.conn, self.rng
        other = NS2 if ns == NS1 else NS1
        routes = ["pragma-namespace", "cross-namespace-association"]
        if "interop" in [n.lower() for n in c.namespaces]:
            routes += ["namespace-instance", "namespace-instance"]
        route = r.choice(routes)
        target = ns
        fmt = dict(u=u, kk=400 + 10 * u)
        if route == "pragma-namespace":
            body = [p % dict(fmt, j=j, kk=fmt["kk"] + j) for j, p in
                    enumerate(r.sample(self.GOOD_MOF, r.randint(1, 3)))]
            body = [b.replace("VM%d_" % u, "VMO%d_" % u).replace(
                "VMQ", "VMOQ").replace("VMS", "VMOS") for b in body]
            prods = ['#pragma namespace ("%s")' % other] + body
            if r.random() < 0.5:
                prods.append('#pragma namespace ("%s")' % ns)
        elif route == "cross-namespace-association":
            used = set()
            for ap in self.assocs:
                lp, rp = ap.keybindings["left"], ap.keybindings["right"]
                if (rp.namespace or "").lower() == NS2.lower():
                    used.add(int(lp.keybindings["k"]))
            # VA.k=1,2 are the instances whose creation class is VA itself
            free = [k for k in (1, 2) if k not in used] or [1]
            prods = []
            for k in r.sample(free, min(len(free), r.randint(1, 2))):
                prods.append(
                    'instance of VAssoc { left = "%s:VA.k=%d"; '
                    'right = "%s:VX.name=\\"x1\\",n=1"; note = "mb%d"; };'
                    % (NS1, k, NS2, u))
            if r.random() < 0.5:
                prods.append(self.GOOD_MOF[0] % dict(fmt, j=7))
        else:
            target = "interop"
            newns = "root/mns%d" % u
            prods = [self.NS_INSTANCE_MOF % newns]
            if r.random() < 0.7:
                prods += ['#pragma namespace ("%s")' % newns,
                          'Qualifier Key : boolean = false, Scope(property, '
                          'reference), Flavor(DisableOverride, ToSubclass);',
                          'class VMN%d { [Key] uint32 k; string s; };' % u,
                          'instance of VMN%d { k = 1; s = "n"; };' % u][
                              :r.randint(2, 5)]
        reason = r.choice(sorted(self.BAD_MOF) + ["none"])
        pos = r.randint(0, len(prods))
        if reason != "none":
            prods.insert(pos, self.BAD_MOF[reason] % dict(u=u, j=9))
        label = "outside-%s:%s@%d/%d" % (route, reason, pos, len(prods))
        mof = "\n".join(prods)
        out = [("compile_mof_string", label,
                lambda: c.compile_mof_string(mof, namespace=target))]
        # file variant: the second half of the productions sits in an include
        # (files are written when the scenario is run)
        d = os.path.join(self.workdir, "mofo%d" % u)
        half = r.randint(0, len(prods))

        def compile_file():
            os.makedirs(d, exist_ok=True)
            with open(os.path.join(d, "inc.mof"), "w") as f:
                f.write("\n".join(prods[half:]) + "\n")
            main = os.path.join(d, "main.mof")
            with open(main, "w") as f:
                f.write("\n".join(prods[:half]) +
                        '\n#pragma include ("inc.mof")\n')
            c.compile_mof_file(main, namespace=target, search_paths=[d])
        out.append(("compile_mof_file", label, compile_file))
        return out

    def schema_classes(self, ns, u):
        """compile_schema_classes with a LIST of schema pragma files (small
        hand-made schemas; every pragma file has to define every requested
        class): the first file is fine, a later file is fine / lacks the
        class / includes broken MOF / is missing; or the first one is bad."""
        c, r = self.conn, self.rng
        d = os.path.join(self.workdir, "schema%d" % u)
        cname = "VS%d" % u
        how = r.choice(["valid", "class-missing-in-later-file",
                        "broken-mof-in-later-file", "later-file-missing",
                        "class-missing-in-first-file"])
        k = r.choice([1, 2])

        def compile_schema():
            # (the files are written when the scenario is run)
            files = []
            for part in ("a", "b", "c"):
                sd = os.path.join(d, part)
                os.makedirs(os.path.join(sd, "cls"), exist_ok=True)
                with open(os.path.join(sd, "cls", cname + ".mof"), "w") as f:
                    f.write("class %s { [Key] uint32 k; string s_%s; };\n" %
                            (cname, part))
                pf = os.path.join(sd, "schema_%s.mof" % part)
                with open(pf, "w") as f:
                    f.write('#pragma include ("cls/%s.mof")\n' % cname)
                files.append((pf, sd))
            pfs = [x[0] for x in files]
            if how == "class-missing-in-later-file":
                with open(files[k][0], "w") as f:
                    f.write("// nothing\n")
            elif how == "broken-mof-in-later-file":
                with open(os.path.join(files[k][1], "cls", cname + ".mof"),
                          "w") as f:
                    f.write("class %s { oops\n" % cname)
            elif how == "later-file-missing":
                pfs[k] = os.path.join(d, "nosuch_schema.mof")
            elif how == "class-missing-in-first-file":
                with open(files[0][0], "w") as f:
                    f.write("// nothing\n")
            c.compile_schema_classes(cname, pfs, namespace=ns)
        return [("compile_schema_classes", "%s@%d" % (how, k),
                 compile_schema)]

    def id_keyed_association(self, u):
        """An association class whose key is an id (the references are not
        keys): a cross-namespace instance may collide with an instance that
        exists in only ONE of the namespaces it has to be written to."""
        c, r = self.conn, self.rng
        out = []

        def mk(aid, lns, rns, via, withpath):
            left = _ipath("VA", lns, k=Uint32(1))
            right = _ipath("VX", rns, name="x1", n=Uint16(1))
            inst = CIMInstance("VAssocId", properties=[
                CIMProperty("id", aid),
                CIMProperty("left", left, reference_class="VA"),
                CIMProperty("right", right, reference_class="VX"),
                CIMProperty("note", "n%d" % u)])
            if withpath:
                inst.path = CIMInstanceName(
                    "VAssocId", keybindings={"id": aid}, namespace=via)
            return inst
        aid = "a%d" % u
        withpath = r.random() < 0.5
        # a same-namespace instance (it exists in ONE namespace only) ...
        via = r.choice([NS1, NS2])
        second = ("CreateInstance", "assoc-id-cross-namespace-collides",
                  lambda: c.CreateInstance(mk(aid, NS1, NS2, via, withpath),
                                           namespace=via))

        def first():
            self.force = [second]
            c.CreateInstance(mk(aid, NS1, NS1, NS1, withpath), namespace=NS1)
        # ... then, as the next call, a cross-namespace one with the same id
        for _ in range(4):          # weight inside the CreateInstance family
            out.append(("CreateInstance", "assoc-id-one-namespace", first))
        return out
