"""
C09 helper: renders abstract MOF compile sessions (spec/MofCompile.tla) to real
MOF text / files, runs them through the real compiler under a watchdog and
projects what happened to monomorphic JSON events for TLC.

A session is {"main": [prod..], "inc": [prod..], "good": [prod..], "api": ..,
"handle": ..} with prod = {"k": kind, "d": defect class, "v": variant,
"a": int}; "good" = productions appended to the valid text compiled
afterwards on the same compiler object (session parts F and H).

  api     string   MOFCompiler.compile_string(text, ns)
          file     MOFCompiler.compile_file(path, ns)
          mock     FakedWBEMConnection.compile_mof_string(text, ns)
  handle  mofwbem  MOFCompiler(MOFWBEMConnection())
          faked    MOFCompiler(FakedWBEMConnection())
          stub     MOFCompiler(RepoStub()) - a BaseRepositoryConnection that
                   rejects the operations named by "repo" defects
          mockapi  (api mock)

Nothing here decides a property; `project()` only classifies.
"""
import os
import random
import re
import shutil
import signal
import sys
import time
import traceback
import warnings

NS = "root/cimv2"
OTHER_NS = "root/other"

PRELUDE = """\
Qualifier Key : boolean = false, Scope(property, reference),
    Flavor(DisableOverride, ToSubclass);
Qualifier Association : boolean = false, Scope(association),
    Flavor(DisableOverride, ToSubclass);
Qualifier Description : string = null, Scope(any),
    Flavor(EnableOverride, ToSubclass, Translatable);
Qualifier EmbeddedInstance : string = null, Scope(property, method, parameter);
Qualifier MaxLen : uint32 = null, Scope(property, method, parameter);
class Base { [Key] uint32 k; string s; };
class Types : Base {
    string s1; uint8 n; sint16 arr[]; datetime d; boolean b; real32 r;
    char16 c; uint64 big;
    [EmbeddedInstance("Base")] string e;
    [EmbeddedInstance("Base")] string ea[];
};
[Association] class Link { [Key] Base REF a; [Key] Base REF b; };
"""

GOOD = """\
Qualifier GQ : string = "g", Scope(any), Flavor(EnableOverride, ToSubclass);
[GQ("cls")] class GA : Base {
    [GQ("p"), MaxLen(4)] string g1 = "gv";
    uint8 gn = 7;
    sint16 garr[] = {1, 2};
};
instance of GA as $g1 { k = 1; s = "one"; g1 = "x"; gn = 3; garr = {3, 4}; };
instance of Types { k = 2; s = "two"; n = 1;
    d = "20200101120000.000000+000"; b = false; };
"""

DT = '"20200101120000.000000+000"'

_TOK = re.compile(
    r'"(?:[^"\\]|\\.)*"|\'(?:[^\'\\]|\\.)*\'|\$?[A-Za-z_]\w*|'
    r'[+-]?\d[\w.+-]*|\S')


def toks(s):
    return _TOK.findall(s)


class Rendered:
    def __init__(self):
        self.text = ""            # main text
        self.files = {}           # fid -> path
        self.texts = []           # dicts fid, text (every text of the session)
        self.search_paths = []
        self.rules = []           # stub rules
        self.notes = []
        self.good_text = None     # valid text of the good call (None: GOOD)
        self.good_classes = []    # classes the good text defines / pulls in
        self.good_inst = None     # class of the instance it creates
        self.other_full = False   # OTHER_NS must hold the prelude objects
        self.undeclared = False   # part H: the good text names a class that
        #                           has no valid declaration (not valid MOF);
        #                           part I: it is a defective production
        self.good_embedded = []   # part I: nested texts of the good text


class Hang(BaseException):
    pass


# --------------------------------------------------------------------------
# rendering
# --------------------------------------------------------------------------

class Renderer:
    def __init__(self, ses, rng, workdir):
        self.ses = ses
        self.rng = rng
        self.dir = workdir
        self.api = ses.get("api", "string")
        self.out = Rendered()
        self.key = 100
        self.embedded = []
        self.spdir = os.path.join(workdir, "sp")
        self.main_path = os.path.join(workdir, "main.mof")
        self.inc_path = os.path.join(workdir, "sub", "inc.mof") \
            if rng.random() < 0.3 else os.path.join(workdir, "inc.mof")
        self.upper = False
        # the class declared by the nearest preceding class production of the
        # text being rendered: (name, how an instance of it gets its keys)
        self.prev = None

    # -- helpers -----------------------------------------------------------
    def nextkey(self):
        self.key += 1
        return self.key

    def kw(self, word):
        if self.upper:
            return word.upper()
        x = self.rng.random()
        if x < 0.7:
            return word
        if x < 0.85:
            return word.capitalize()
        return word.upper()

    def join(self, tokens, style="mixed"):
        """Join tokens with whitespace chosen per gap (free dimension)."""
        rng = self.rng
        parts = []
        for i, t in enumerate(tokens):
            if i:
                if style == "crlf":
                    gap = rng.choice([" ", " ", "\r\n", "\r\n  "])
                elif style == "comments":
                    gap = rng.choice([" ", " /* c */ ", " // c\n", "\n",
                                      " /* a\n b */ "])
                else:
                    x = rng.random()
                    gap = (" " if x < 0.72 else "\n" if x < 0.84 else
                           "\n    " if x < 0.92 else "\t" if x < 0.95 else
                           "  " if x < 0.98 else "\r\n")
                parts.append(gap)
            parts.append(t)
        return "".join(parts)

    def anycase(self, name):
        """The same name in another (or the same) lexical case."""
        x = self.rng.random()
        if x < 0.3:
            return name
        if x < 0.55:
            return name.lower()
        if x < 0.8:
            return name.upper()
        return name.swapcase()

    def incref(self, target, here):
        """Text of the include parameter naming file `target` from file
        `here` (relative to the including file in file mode, else absolute:
        with string input the compiler resolves against the cwd)."""
        if self.api == "file" and self.rng.random() < 0.7:
            return os.path.relpath(target, os.path.dirname(here))
        return target

    def write_sp(self, name, text):
        os.makedirs(self.spdir, exist_ok=True)
        path = os.path.join(self.spdir, name)
        with open(path, "w", encoding="utf-8") as f:
            f.write(text)
        if self.spdir not in self.out.search_paths:
            self.out.search_paths.append(self.spdir)
        fid = 3 + sum(1 for t in self.out.texts if t["fid"] >= 3)
        self.out.files[fid] = path
        self.out.texts.append({"fid": fid, "text": text})

    # -- value tables --------------------------------------------------------
    def strval(self, v):
        """string literal for the valid-variant v"""
        return {"hexesc_end": '"abc\\x41"',
                "hexesc_mid": '"a\\x41g\\X0042 c\\x1 d"',
                "escapes": '"\\b\\t\\n\\f\\r\\"\\\'\\\\"',
                "nonascii_string": '"é中\U0001F600 ü"',
                "multistring": '"abc" "def" "g"'}.get(v, '"abc"')

    def intval(self, v):
        if v == "num_forms":
            return self.rng.choice(["0x1F", "101b", "017", "+5", "0", "0X0a",
                                    "11B"])
        return "5"

    BADVAL = {
        # kind -> (type, is_array, value)
        "int_overflow": ("uint8", False, "300"),
        "huge_int": ("uint64", False, "1" + "0" * 40),
        "neg_unsigned": ("uint16", False, "-1"),
        "str_for_int": ("uint8", False, '"x"'),
        "bad_datetime": ("datetime", False, '"notadate"'),
        "int_for_datetime": ("datetime", False, "3"),
        "array_for_scalar": ("uint8", False, "{1, 2}"),
        "scalar_for_array": ("uint8", True, "1"),
        "mixed_array": ("uint8", True, '{1, "x"}'),
        "real_for_int": ("uint8", False, "1.5"),
        "int_for_bool": ("boolean", False, "3"),
        "int_for_string": ("string", False, "3"),
        "char16_long": ("char16", False, '"ab"'),
        "real_overflow": ("real32", False, "1.0e999"),
        "bool_for_int": ("uint8", False, "true"),
        "huge_digits": ("uint64", False, "1" * 5000),
        "real_huge_int": ("real32", False, "1" * 400),
        "huge_hex": ("uint8", False, "0x" + "F" * 5000),
        "huge_binary": ("uint8", False, "1" * 20000 + "b"),
    }
    # property of class Types holding a value of that type
    TYPEPROP = {"uint8": "n", "uint64": "big", "uint16": "n", "datetime": "d",
                "boolean": "b", "string": "s1", "char16": "c", "real32": "r"}

    # -- optional parts (OptDims of the spec) ---------------------------------
    OPTDIMS = {("instance", "opt"): (2, 2, 3), ("qualDecl", "opt"): (2, 2, 3, 2),
               ("class", "opt"): (2, 2, 2, 3), ("class", "opt_prop"): (2, 3, 2),
               ("class", "opt_method"): (2, 3, 2, 3)}

    @classmethod
    def optdigits(cls, p):
        """Digits of the parameter of an `opt` production (mixed radix, first
        dimension = least significant digit)."""
        a, out = p["a"], []
        for n in cls.OPTDIMS[(p["k"], p["v"])]:
            out.append(a % n)
            a //= n
        return out

    # -- productions ---------------------------------------------------------
    def prod_tokens(self, p, tag, here):
        """Token list of production p (before token-level mutation)."""
        k, d, v = p["k"], p["d"], p["v"]
        self.upper = (d == "none" and v == "upper_kw")
        if k == "qualDecl":
            return self.qualdecl(p, tag)
        if k == "class":
            return self.klass(p, tag)
        if k == "instance":
            return self.instance(p, tag)
        if k == "namespace":
            return self.namespace(p, tag)
        if k == "include":
            return self.include(p, tag, here)
        raise KeyError("kind %r" % k)

    def qualdecl(self, p, tag):
        d, v = p["d"], p["v"]
        kw = self.kw
        name = "Q%s" % tag
        typ, arr, val = "string", "", self.strval(v if d == "none" else "")
        flav = "%s(EnableOverride, ToSubclass)" % kw("Flavor")
        if d == "none":
            if v == "num_forms":
                typ, val = "sint32", self.intval(v)
            elif v == "kw_names":
                name = self.rng.choice(["Schema", "Property", "Of",
                                        "Reference"]) + tag
            elif v == "array_type":
                arr, val = "[]", '{"a", "b"}'
            elif v == "no_flavor":
                flav = None
            elif v == "opt":
                isarr, dv, fl, sc = self.optdigits(p)
                s = "%s %s : string%s%s, %s(%s)" % (
                    kw("Qualifier"), name, "[]" if isarr else "",
                    "" if not dv else ' = {"a", "b"}' if isarr else ' = "a"',
                    kw("Scope"), "class, property, method" if sc
                    else "property")
                if fl:
                    s += ", %s(%s)" % (kw("Flavor"), "EnableOverride" if fl == 1
                                       else "EnableOverride, ToSubclass, "
                                       "Translatable")
                return toks(s + ";")
        elif d == "value":
            if v == "conflicting_flavors":
                flav = "%s(EnableOverride, DisableOverride)" % kw("Flavor")
            elif v == "huge_array_size":
                typ, arr, val = "uint8", "[99999999999999999999]", "{1}"
            else:
                typ, isarr, val = self.BADVAL[v]
                arr = "[]" if isarr else ""
        elif d == "repo":
            self.rule(p, name)
        s = "%s %s : %s%s = %s, %s(class, property, method)" % (
            kw("Qualifier"), name, typ, arr, val, kw("Scope"))
        if flav:
            s += ", " + flav
        return toks(s + ";")

    def klass(self, p, tag):
        d, v = p["d"], p["v"]
        kw = self.kw
        name = "C%s" % tag
        sup = " : Base"
        keymode = None
        head = '[Description("c%s")] ' % tag
        alias = ""
        pre = ""
        sval = self.strval(v if d == "none" else "")
        ival = self.intval(v if d == "none" else "")
        body = ('[Description("p"), MaxLen(8)] string s1 = %s; '
                'uint8 n = %s; sint16 arr[] = {1, -2}; datetime d = %s; '
                'boolean b = true; real32 r = 1.5; char16 c = \'x\'; '
                'uint32 m1([Description("in")] uint8 p1, string p2[]);'
                % (sval, ival, DT))
        if d == "none":
            if v == "kw_names":
                body += ' string %s; uint8 %s;' % (
                    self.rng.choice(["property", "schema", "of", "scope"]),
                    self.rng.choice(["qualifier", "flavor", "method"]))
            elif v == "alias":
                alias = " %s $c%s" % (kw("as"), tag)
            elif v == "empty_body":
                body = ""
            elif v == "no_super":
                sup, body = "", "[Key] uint8 kk; " + body
            elif v == "assoc":
                head, sup = "[Association] ", ""
                body = "[Key] Base REF x; [Key] Base REF y;"
            elif v == "opt":
                q, al, su, fl = self.optdigits(p)
                head = head if q else ""
                alias = " %s $c%s" % (kw("as"), tag) if al else ""
                sup = " : Base" if su else ""
                key = "" if su else "[Key] uint8 kk; "
                body = ["", key or "string s1;",
                        key + "string s1; uint8 n = 1; uint32 m1(uint8 p1);"
                        ][fl]
            elif v == "opt_prop":
                q, ty, dv = self.optdigits(p)
                decl = ('[Description("pq")] ' if q else "") + \
                    ["uint8 p", "uint8 p[]", "Base REF p"][ty] + \
                    ("" if not dv else [" = 5", " = {1, 2}", " = NULL"][ty])
                if ty == 2:
                    head, sup = "[Association] ", ""
                    body = "[Key] Base REF x; %s;" % decl
                    keymode = "other"
                else:
                    body = decl + ";"
            elif v == "opt_method":
                mq, np_, pq, pt = self.optdigits(p)
                par = ('[Description("pp")] ' if pq else "") + \
                    ["uint8 p1", "uint8 p1[]", "Base REF p1"][pt]
                pars = ["", par, par + ', string p2, [Description("x")] '
                        'sint16 p3[4]'][np_]
                body = "%suint32 m1(%s);" % (
                    '[Description("mq")] ' if mq else "", pars)
            elif v == "sub_of_prev":
                body = "string sub%s;" % tag
                if self.prev:
                    sup = " : %s" % self.prev[0]
                    keymode = self.prev[1]
        elif d == "value":
            if v in self.BADVAL:
                typ, isarr, val = self.BADVAL[v]
                q = '[Description("q")] ' if self.rng.random() < 0.5 else ""
                body = "%s%s p%s = %s;" % (q, typ, "[]" if isarr else "", val)
            elif v == "huge_array_size":
                body = "uint8 p[99999999999999999999];"
            elif v == "qual_str_for_int":
                body = '[MaxLen("x")] string p;'
            elif v == "qual_int_overflow":
                body = "[MaxLen(99999999999)] string p;"
            elif v == "qual_array_for_scalar":
                body = "[MaxLen{1, 2}] string p;"
            elif v == "qual_conflicting_flavors":
                body = ('[Description("d") : EnableOverride DisableOverride] '
                        'string p;')
            elif v == "dup_property":
                body = "uint8 p; string P;"
            elif v == "ref_default_int":
                head, sup = "[Association] ", ""
                body = "[Key] Base REF x = 3; [Key] Base REF y;"
            elif v == "undefined_alias":
                head, sup = "[Association] ", ""
                body = "[Key] Base REF x = $nope%s; [Key] Base REF y;" % tag
            elif v == "emb_qual_nonstring":
                pre = ("%s EmbeddedInstance : uint32, %s(property, method, "
                       "parameter);\n" % (kw("Qualifier"), kw("Scope")))
                body = "[EmbeddedInstance(5)] string p;"
        elif d == "dependency":
            if v == "unknown_superclass":
                sup = " : Nope%s" % tag
            elif v == "super_wrongfile_searchpath":
                sup = " : SW%s" % tag
                self.write_sp("SW%s.mof" % tag,
                              "class SWOther%s : Base { };\n" % tag)
            elif v == "super_redefine_cycle":
                pre = ("%s %s : Base { string p; };\n%s D%s : %s { };\n" % (
                    kw("class"), name, kw("class"), tag, self.anycase(name)))
                sup, body, keymode = " : D%s" % tag, "string p;", "base"
            elif v == "unknown_qualifier":
                head = "[NopeQ%s] " % tag
            elif v == "unknown_refclass":
                head, sup = "[Association] ", ""
                body = "[Key] Nope%s REF x; [Key] Base REF y;" % tag
                if p["a"] == 3:
                    body = "[Key] Nope%s REF x; [Key] %s REF y;" % (
                        tag, self.anycase(name))
                elif p["a"] == 4:
                    body = ("[Key] Base REF x; [Key] Base REF y; "
                            "uint32 m(Nope%s REF p);" % tag)
                body += self.sibling(p["a"], name)
            elif v == "unknown_embclass":
                body = '[EmbeddedInstance("Nope%s")] string e2;' % tag
                if p["a"] == 3:
                    body += " %s REF z;" % self.anycase(name)
                elif p["a"] == 4:
                    body = ('uint32 m([EmbeddedInstance("Nope%s")] string p);'
                            % tag)
                body += self.sibling(p["a"], name)
            elif v == "super_in_searchpath":
                sup = " : SP%s" % tag
                keymode = "base"
                self.write_sp("SP%s.mof" % tag,
                              "class SP%s : Base { string sp; };\n" % tag)
            elif v == "super_self":
                # the class names itself as its superclass; class names are
                # case insensitive, so in any lexical case
                sup = " : %s" % self.anycase(name)
                keymode = "self"
            elif v == "super_cycle_searchpath":
                sup = " : SPA%s" % tag
                self.write_sp("SPA%s.mof" % tag,
                              "class SPA%s : SPB%s { };\n" % (tag, tag))
                self.write_sp("SPB%s.mof" % tag,
                              "class SPB%s : SPA%s { };\n" % (tag, tag))
        elif d == "repo":
            op = v
            if op == "CreateClassNoSuper":
                sup, body = "", "[Key] uint8 kk; string s1;"
            elif op == "EnumerateQualifiers":
                head = "[NopeQ%s] " % tag
            self.rule(p, name)
        if keymode is None:
            keymode = ("assoc" if head.startswith("[Association]") else
                       "kk" if "kk;" in body else
                       "base" if sup == " : Base" else "other")
        self.prev = (name, keymode)
        return toks("%s%s%s %s%s%s { %s };" % (pre, head, kw("class"), name,
                                               alias, sup, body))

    def sibling(self, a, name):
        """Sibling element of unusual shape next to an unresolved REF /
        EmbeddedInstance class (SibShapes of the spec; 3 and 4 change the
        unresolved element itself)."""
        return {1: " [EmbeddedInstance] string e3;",
                2: ' [EmbeddedInstance("%s")] string e3;' % self.anycase(name),
                5: " uint32 m5([EmbeddedInstance] string p);",
                6: ' [EmbeddedInstance("Base")] uint8 e3;'}.get(a, "")

    def retry(self, p, tag, name):
        """Production of the good text that depends on class `name` (the
        class the session failed to declare).  `*_failed` (part F): a valid
        declaration of it is on the search path; `*_undeclared` (part H):
        there is none."""
        v, kw = p["v"].replace("_undeclared", "_failed"), self.kw
        nm = {0: name, 1: name.lower(), 2: name.upper()}[p["a"]]
        user = "U%s" % tag
        if v == "subinst_failed":
            # a subclass and an instance of the subclass
            return toks('%s %s : %s { string u; }; %s %s %s '
                        '{ k = %d; s = "retry"; u = "x"; };' % (
                            kw("class"), user, nm, kw("instance"), kw("of"),
                            user, self.nextkey()))
        if v == "of_failed":
            self.out.good_inst = name
            return toks('%s %s %s { k = %d; s = "retry"; };' % (
                kw("instance"), kw("of"), nm, self.nextkey()))
        self.out.good_classes.append(user)
        if v == "ref_failed":
            s = "[Association] %s %s { [Key] %s REF a; [Key] Base REF b; };"
        elif v == "emb_failed":
            s = '%s %s : Base { [EmbeddedInstance("%s")] string e; };'
        elif v == "param_failed":
            s = "%s %s : Base { uint32 m(%s REF p); };"
        elif v == "sub_failed":
            return toks("%s %s : %s { string u; };" % (kw("class"), user, nm))
        else:
            raise KeyError("retry %r" % v)
        return toks(s % (kw("class"), user, nm))

    def instance(self, p, tag):
        d, v = p["d"], p["v"]
        kw = self.kw
        cls = "Types"
        alias = " %s $a%s" % (kw("as"), tag)
        pre = ""
        sval = self.strval(v if d == "none" else "")
        ival = self.intval(v if d == "none" else "")
        props = ('k = %d; s = "x"; s1 = %s; n = %s; arr = {1, -2}; d = %s; '
                 'b = true; r = 1.5; c = \'x\'; big = 18446744073709551615;'
                 % (self.nextkey(), sval, ival, DT))
        if d == "none":
            if v == "no_alias":
                alias = ""
            elif v == "opt":
                q, al, pl = self.optdigits(p)
                pre = '[Description("i%s")] ' % tag if q else ""
                alias = alias if al else ""
                key = "k = %d;" % self.nextkey()
                props = [key, key + ' s = "x"; n = 1; arr = {1, 2};',
                         '[Description("pq")] ' + key +
                         ' [Description("p2")] s = "x";'][pl]
            elif v == "emb_ok":
                emb = 'instance of Base { k = 1; s = "e"; };'
                self.embedded.append(emb)
                props += ' e = "%s";' % emb.replace('"', '\\"')
            elif v in ("emb_array_ok", "emb_array_one"):
                n = 1 if v == "emb_array_one" else self.rng.randint(2, 4)
                embs = ['instance of Base { k = %d; s = "e%d"; };' % (j, j)
                        for j in range(1, n + 1)]
                self.embedded.extend(embs)
                props += ' ea = { %s };' % ", ".join(
                    '"%s"' % e.replace('"', '\\"') for e in embs)
            elif v in ("emb_multiline", "emb_array_multiline"):
                # nested texts of many lines: the line ends are written as
                # \n escapes in the string literal, so the nested text has
                # more lines than any text of the session (number and
                # placement of the line ends: free dimension)
                n = 1 if v == "emb_multiline" else self.rng.randint(2, 3)
                embs = []
                for j in range(1, n + 1):
                    tk = toks('instance of Base { k = %d; s = "m%d"; };'
                              % (j, j))
                    emb = "\n" * self.rng.randint(0, 2)
                    for t in tk:
                        emb += t + self.rng.choice(
                            ["\n", "\n\n", "\n\n\n", "\n  ", "\n\n\t"])
                    embs.append(emb)
                self.embedded.extend(embs)
                lits = ['"%s"' % e.replace('"', '\\"').replace("\n", "\\n")
                        .replace("\t", "\\t") for e in embs]
                props += (' e = %s;' % lits[0]) if v == "emb_multiline" \
                    else ' ea = { %s };' % ", ".join(lits)
            elif v == "of_prev":
                name, keymode = self.prev or ("Types", "base")
                cls = self.anycase(name) if self.rng.random() < 0.3 else name
                if keymode == "assoc":
                    pre = "%s %s Base %s $p%s { k = %d; };\n" % (
                        kw("instance"), kw("of"), kw("as"), tag,
                        self.nextkey())
                    alias = ""
                    props = "x = $p%s; y = $p%s;" % (tag, tag)
                elif keymode == "kk":
                    props = "kk = %d;" % (self.nextkey() % 250)
                elif keymode == "base":
                    props = 'k = %d; s = "of";' % self.nextkey()
                else:
                    # the class has no resolvable ancestry: the only elements
                    # known are its own
                    props = 's1 = "of";'
            elif v == "ref_alias":
                pre = "%s %s Base %s $b%s { k = %d; };\n" % (
                    kw("instance"), kw("of"), kw("as"), tag, self.nextkey())
                cls, alias = "Link", ""
                props = "a = $b%s; b = $b%s;" % (tag, tag)
            elif v == "null_values":
                props = "k = %d; s = NULL; s1 = null; n = Null; arr = NULL;" \
                    % self.nextkey()
        elif d == "value":
            if v in self.BADVAL:
                typ, isarr, val = self.BADVAL[v]
                pn = "arr" if isarr else self.TYPEPROP[typ]
                if v == "array_for_scalar":
                    pn = "n"
                props = "k = %d; %s = %s;" % (self.nextkey(), pn, val)
            elif v == "int_for_ref":
                cls, alias, props = "Link", "", "a = 3; b = 3;"
            elif v == "str_for_ref":
                cls, alias, props = "Link", "", 'a = "garbage"; b = "x";'
            elif v == "undefined_alias":
                cls, alias = "Link", ""
                props = "a = $nope%s; b = $nope%s;" % (tag, tag)
            elif v == "dup_property":
                props = "k = %d; n = 1; N = 2;" % self.nextkey()
            elif v == "null_key":
                props = 'k = %s; s = "x";' % self.rng.choice(
                    ["NULL", "null"])
            elif v == "array_key":
                cls = "AK%s" % tag
                pre = "%s %s { [Key] string ka[]; };\n" % (kw("class"), cls)
                props = 'ka = {"a", "b"};'
            elif v == "emb_nonstring_value":
                props = "k = %d; %s;" % (self.nextkey(), self.rng.choice(
                    ["e = 5", "e = true", "e = 1.5", "ea = {1, 2}",
                     "e = {1}", "ea = 7"]))
            elif v.startswith("emb_"):
                emb = {"emb_bad_syntax": "instance of Base { k = ; };",
                       "emb_class": "class X%s { };" % tag,
                       "emb_empty": "",
                       "emb_unknown_class":
                       "instance of Nope%s { k = 1; };" % tag}[v]
                self.embedded.append(emb)
                props = 'k = %d; e = "%s";' % (self.nextkey(),
                                               emb.replace('"', '\\"'))
        elif d == "dependency":
            if v == "unknown_class":
                cls = "Nope%s" % tag
            elif v == "unknown_property":
                props = "k = %d; nope%s = 1;" % (self.nextkey(), tag)
            elif v == "class_in_searchpath":
                cls = "SPI%s" % tag
                props = 'k = %d; s = "sp";' % self.nextkey()
                self.write_sp("SPI%s.mof" % tag,
                              "class SPI%s : Base { };\n" % tag)
            elif v == "class_wrongfile_searchpath":
                cls = "SWI%s" % tag
                props = "k = %d;" % self.nextkey()
                self.write_sp("SWI%s.mof" % tag,
                              "class SWIOther%s : Base { };\n" % tag)
            elif v == "class_cycle_searchpath":
                cls = "SPC%s" % tag
                props = "k = %d;" % self.nextkey()
                self.write_sp("SPC%s.mof" % tag,
                              "instance of SPC%s { k = 1; };\n" % tag)
        elif d == "repo":
            op = v
            if op == "CreateInstanceNoKey":
                props = 's = "nokey";'
            self.rule(p, cls)
        return toks("%s%s %s %s%s { %s };" % (pre, kw("instance"), kw("of"),
                                              cls, alias, props))

    NSVAL = {"same": NS, "other": OTHER_NS, "leading_slash": "/" + NS,
             "nomatch_colon": "1:", "empty": "", "space": "a b",
             "withhost": "//host/root", "withscheme": "http://host/root",
             "trailing_slash": "root/", "double_slash": "root//x",
             "hexesc_end": "root/cimv\\x32"}

    def pragma(self, name, param, v):
        kw = self.kw
        if v == "noparen":
            return ["#", kw("pragma"), name, '"%s"' % param]
        if v == "nonstring_param":
            return ["#", kw("pragma"), name, "(", "root", ")"]
        if v == "no_name":
            return ["#", kw("pragma"), "(", '"%s"' % param, ")"]
        if v == "no_hash":
            return [kw("pragma"), name, "(", '"%s"' % param, ")"]
        return ["#", kw("pragma"), name, "(", '"%s"' % param, ")"]

    def namespace(self, p, tag):
        d, v = p["d"], p["v"]
        if d == "none" and v == "unknown_pragma":
            return self.pragma("foo%s" % tag, "bar", v)
        if d == "none" and v == "locale":
            return self.pragma("locale", "en_US", v)
        param = self.NSVAL.get(v, NS)
        if d == "none" and v == "other_full":
            param = OTHER_NS
            self.out.other_full = True
        name = self.rng.choice(["namespace", "Namespace", "NAMESPACE"])
        return self.pragma(name, param, v)

    FILENAMES = {
        "nul_name": ["a\\x0.mof", "a\\x00b.mof", "\\X0000.mof", "a.mof\\x0"],
        "nul_in_dir": ["%DIR%/b\\x0000", "%DIR%/b\\x0.mof"],
        "surrogate_name": ["a\\xD800.mof", "\\xdfff.mof", "a\\xDC00\\xD800.mof"],
        "overlong_name": ["n" * 300 + ".mof", "n" * 5000 + ".mof"],
        "overlong_path": ["/".join(["d" * 100] * 60) + "/x.mof"],
        "below_file": ["%FILE%/x.mof", "%FILE%/"],
        "dot_name": [".", "..", "./"],
        "escaped_name": ['a\\"b.mof', "a\\tb.mof", "a\\nb.mof", "a\\\\b.mof"],
    }

    def include(self, p, tag, here):
        v = p["v"]
        target = self.inc_path
        if v == "self":
            target = here
        elif v == "mutual":
            target = self.main_path
        elif v == "missing":
            target = os.path.join(os.path.dirname(here), "missing%s.mof" % tag)
        elif v == "dir":
            target = os.path.join(os.path.dirname(here), "dir%s" % tag)
            os.makedirs(target, exist_ok=True)
        elif v == "hexesc_name":
            target = os.path.join(os.path.dirname(here), "inc\\x41")
        elif v == "nonascii_name":
            target = os.path.join(os.path.dirname(here),
                                  "incé%s.mof" % tag)
        param = self.incref(target, here) if v != "empty_name" else ""
        if v in self.FILENAMES:
            # lexeme classes of the file name (FileNameKinds of the spec);
            # the text is the body of the MOF string literal
            hdir = os.path.dirname(here)
            param = self.rng.choice(self.FILENAMES[v])
            if "%DIR%" in param:
                os.makedirs(os.path.join(hdir, "fd%s" % tag), exist_ok=True)
                param = param.replace("%DIR%", "fd%s" % tag)
            param = param.replace("%FILE%", os.path.basename(here))
            if self.api != "file" or self.rng.random() < 0.3:
                # string input resolves against the cwd; anchor half of the
                # relative names at the directory of the including text
                if not os.path.isabs(param) and self.rng.random() < 0.5:
                    param = os.path.join(hdir, param)
        if p["a"] in (1, 2, 3) and v in ("self", "mutual", "inc2"):
            # PathSpell of the spec: a relative path with a redundant
            # component (relative to the including file; for string input the
            # cwd, which is the directory of the main text)
            hdir = os.path.dirname(here)
            rel = os.path.relpath(target, hdir)
            if p["a"] == 1:
                param = "./" + rel
            elif p["a"] == 2:
                os.makedirs(os.path.join(hdir, "d%s" % tag), exist_ok=True)
                param = "d%s/../%s" % (tag, rel)
            else:
                param = "../%s/%s" % (os.path.basename(hdir), rel)
        name = self.rng.choice(["include", "Include", "INCLUDE"])
        return self.pragma(name, param, v)

    def garbage(self, p):
        v, rng = p["v"], self.rng
        if v == "empty":
            return ""
        if v == "whitespace":
            return rng.choice([" ", "\n\n", " \t\r\n ", "\r\n\r\n"])
        if v == "comment_only":
            return rng.choice(["// only a comment", "/* c */",
                               "/* a\n b */ // c\n"])
        if v == "ctrl_chars":
            return "".join(rng.choice("\x01\x02\x07\x0b\x0c\x1b\x7f")
                           for _ in range(rng.randint(1, 8)))
        if v == "nonascii":
            return rng.choice(["日本語 ñ ü",
                               "é", "\U0001F600;", "Ã© x"])
        if v == "nul_char":
            return rng.choice(["\x00", "class \x00 {};", "\x00\x00;"])
        if v == "illegal_soup":
            return "".join(rng.choice("@!%^&?~|`\\") for _ in range(
                rng.randint(1, 10)))
        vocab = ["class", "instance", "of", "qualifier", "scope", "flavor",
                 "{", "}", "(", ")", "[", "]", ";", ",", ":", "=", "#",
                 "pragma", "$", "as", "ref", "uint8", "string", "X", "Y1",
                 '"s"', "'c'", "1", "0x1", "1.5", "true", "null", "any",
                 "namespace", "TOSUBCLASS", "association", "indication"]
        if v == "token_soup":
            return " ".join(rng.choice(vocab)
                            for _ in range(rng.randint(1, 25)))
        if v == "random_printable":
            s = "".join(chr(rng.randint(32, 126))
                        for _ in range(rng.randint(1, 60)))
            return s.replace("include", "inclde")
        if v == "deep_braces":
            return "class D { " + "{" * rng.choice([3, 50, 400]) + " };"
        if v == "only_hash":
            return rng.choice(["#", "# pragma", "##"])
        if v == "unbalanced_close":
            return rng.choice(["};", "}", ");", "]"])
        if v == "long_line":
            return rng.choice(["x" * 20000, '"' + "y" * 20000 + '"',
                               "1" * 5000, "class " + "Z" * 9000 + " {};"])
        if v == "keywords_only":
            return "class instance of qualifier scope flavor"
        raise KeyError("garbage %r" % v)

    def rule(self, p, name):
        """Repository stub rules for a repo defect on the object `name`."""
        op = p["v"]
        code, mode = (p["a"] - 100, "always") if p["a"] >= 100 \
            else (p["a"], "once")
        lname = name.lower()
        if op == "CreateClassNoSuper":
            op = "CreateClass"
        if op == "CreateInstanceNoKey":
            op = "CreateInstance"
        if op == "ModifyClass":
            self.out.rules.append(["CreateClass", lname, 11, "once"])
        if op == "ModifyInstance":
            self.out.rules.append(["CreateInstance", lname, 11, "once"])
        if op == "EnumerateQualifiers":
            lname = ""
        self.out.rules.append([op, lname, code, mode])

    # -- token-level faults ----------------------------------------------------
    LEXTOK = {
        "illegal_char": ["@", "!", "%", "^", "&", "?", "~", "|", "`"],
        "ctrl_char": ["\x01", "\x7f", "\x0b", "\x1b"],
        "nonascii_ident": ["élan", "中", "naïve"],
        "unterminated_string": ['"abc', '"abc\\'],
        "unterminated_comment": ["/* never closed"],
        "bad_escape": ['"ab\\qcd"', '"\\u0041"', '"a\\ b"'],
        "hexesc_empty": ['"abc\\x"', '"\\xg"', '"\\X"'],
        "bad_binary": ["102b", "2B"],
        "bad_octal": ["089", "09"],
        "lone_quote": ["'", "''", "'ab'"],
        "illegal_after_cr": ["\n\r\r\r@\n", "\n\r\r\r\r\x01\n"],
        "newline_in_string": ['"ab\ncd"'],
    }

    def pos_index(self, a, n, five=False):
        if n <= 0:
            return 0
        if five:
            return {1: 0, 2: min(1, n - 1),
                    3: self.rng.randint(min(2, n - 1), max(min(2, n - 1),
                                                           n - 3)),
                    4: max(n - 2, 0), 5: n - 1}.get(a, a % n)
        return {1: 0, 2: self.rng.randint(1, max(1, n - 1)),
                3: max(n - 1, 0)}.get(a, a % (n + 1))

    def mutate(self, p, tokens):
        d, v, a = p["d"], p["v"], p["a"]
        n = len(tokens)
        if d == "lex":
            i = self.pos_index(a, n) if a < 10 else (a - 10) % (n + 1)
            return tokens[:i] + [self.rng.choice(self.LEXTOK[v])] + tokens[i:]
        if d == "syntax" and v in ("drop", "dup", "swap", "truncate"):
            i = self.pos_index(a, n, five=True) if a < 10 else (a - 10) % n
            if v == "drop":
                return tokens[:i] + tokens[i + 1:]
            if v == "dup":
                return tokens[:i] + [tokens[i]] + tokens[i:]
            if v == "truncate":
                return tokens[:i]
            j = i + 1 if i + 1 < n else i - 1
            if j < 0:
                return tokens
            t = list(tokens)
            t[i], t[j] = t[j], t[i]
            return t
        return tokens

    # -- files -------------------------------------------------------------------
    def render_file(self, prods, fileno, here):
        chunks = []
        self.prev = None
        if self.rng.random() < 0.5:
            chunks.append(self.rng.choice(["\n", "// header\n", "\n\n",
                                           "/* h */ "]))
        for i, p in enumerate(prods):
            tag = "%d%d" % (fileno, i + 1)
            if p["k"] == "garbage":
                chunks.append(self.garbage(p))
            else:
                tk = self.prod_tokens(p, tag, here)
                tk = self.mutate(p, tk)
                style = "mixed"
                if p["d"] == "none" and p["v"] in ("crlf", "comments"):
                    style = p["v"]
                chunks.append(self.join(tk, style))
            chunks.append(self.rng.choice(["\n", "\n", "\n\n", " ", "\r\n"]))
        return "".join(chunks)

    @staticmethod
    def as_read(path):
        """The text as compile_file sees it (text mode: universal newlines)."""
        with open(path, encoding="utf-8") as f:
            return f.read()

    def render(self):
        ses, out = self.ses, self.out
        os.makedirs(os.path.dirname(self.inc_path), exist_ok=True)
        has_inc = bool(ses.get("inc"))
        # the include file always exists (a token-mutated include directive
        # of a session without include file may still name it)
        inc_text = self.render_file(ses["inc"], 2, self.inc_path) \
            if has_inc else "// empty include file\n"
        with open(self.inc_path, "w", encoding="utf-8", newline="") as f:
            f.write(inc_text)
        out.files[2] = self.inc_path
        out.texts.append({"fid": 2, "text": self.as_read(self.inc_path)})
        out.text = self.render_file(ses["main"], 1, self.main_path)
        with open(self.main_path, "w", encoding="utf-8", newline="") as f:
            f.write(out.text)
        out.files[1] = self.main_path
        # the main text is file 1 for compile_file and for every include of
        # it; for string input it is (also) the anonymous text, fid 0
        out.texts.append({"fid": 1, "text": self.as_read(self.main_path)})
        if self.api != "file":
            out.texts.append({"fid": 0, "text": out.text})
        for emb in self.embedded:
            out.texts.append({"fid": 0, "text": emb})
        if ses.get("good") and ses["good"][0]["d"] in (
                "lex", "syntax", "value", "dependency"):
            # part I: the text of the later call is one defective production
            # (not valid MOF: no reference compile, no digest)
            n_emb = len(self.embedded)
            self.upper = False
            out.good_text = self.render_file(ses["good"], 9, self.main_path)
            out.good_embedded = self.embedded[n_emb:]
            out.undeclared = True
        elif ses.get("good"):
            # part F: the class the main text failed to declare is available
            # in valid form on the search path; the good text depends on it
            # part H: nothing on the search path, the later text names a
            # class without a valid declaration
            name = self.prev[0] if self.prev else "Types"
            out.undeclared = any(p["v"].endswith("_undeclared")
                                 for p in ses["good"])
            if self.prev and not out.undeclared:
                self.write_sp("%s.mof" % name,
                              "class %s : Base { string sp; };\n" % name)
                out.good_classes.append(name)
            self.upper = False
            ext = [self.join(self.retry(p, "9%d" % (i + 1), name))
                   for i, p in enumerate(ses["good"])]
            out.good_text = GOOD + "\n".join(ext) + "\n"
        return out


def render(ses, seed, workdir):
    shutil.rmtree(workdir, ignore_errors=True)
    os.makedirs(workdir)
    return Renderer(ses, random.Random(seed), workdir).render()


# --------------------------------------------------------------------------
# repository stub
# --------------------------------------------------------------------------

def make_stub():
    from pywbem import CIMError
    from pywbem._mof_compiler import BaseRepositoryConnection, \
        MOFWBEMConnection
    from pywbem._nocasedict import NocaseDict

    class RepoStub(BaseRepositoryConnection):
        """In-memory repository (MOFWBEMConnection inside) whose operations
        reject with a scripted CIM status code."""

        def __init__(self):
            self.inner = MOFWBEMConnection()
            self.conn = None
            self.rules = []      # [op, lowercase object name or "", code, mode]
            self.log = []

        def _getns(self):
            return self.inner.default_namespace

        def _setns(self, value):
            self.inner.default_namespace = value

        default_namespace = property(_getns, _setns)

        def _check(self, op, name):
            lname = (name or "").lower()
            for r in self.rules:
                if r[0] == op and r[1] in ("", lname) and r[3] != "spent":
                    if r[3] == "once":
                        r[3] = "spent"
                    self.log.append((op, lname, r[2]))
                    raise CIMError(r[2], "scripted rejection of %s" % op)

        def EnumerateInstanceNames(self, *a, **kw):
            return []

        def CreateInstance(self, *a, **kw):
            inst = a[0] if a else kw["NewInstance"]
            self._check("CreateInstance", inst.classname)
            return self.inner.CreateInstance(*a, **kw)

        def ModifyInstance(self, *a, **kw):
            inst = a[0] if a else kw["ModifiedInstance"]
            self._check("ModifyInstance", inst.classname)
            ns = inst.path.namespace or self.default_namespace
            lst = self.inner.instances.setdefault(ns, [])
            for i, x in enumerate(lst):
                if x.path == inst.path:
                    lst[i] = inst
                    return
            lst.append(inst)

        def DeleteInstance(self, *a, **kw):
            self._check("DeleteInstance", "")

        def GetClass(self, *a, **kw):
            name = a[0] if a else kw["ClassName"]
            self._check("GetClass", name)
            return self.inner.GetClass(*a, **kw)

        def ModifyClass(self, *a, **kw):
            cc = a[0] if a else kw["ModifiedClass"]
            self._check("ModifyClass", cc.classname)
            ns = kw.get("namespace") or (a[1] if len(a) > 1 else None) \
                or self.default_namespace
            self.inner.classes.setdefault(ns, NocaseDict())[cc.classname] = cc

        def CreateClass(self, *a, **kw):
            cc = a[0] if a else kw["NewClass"]
            self._check("CreateClass", cc.classname)
            return self.inner.CreateClass(*a, **kw)

        def DeleteClass(self, *a, **kw):
            self._check("DeleteClass", "")

        def EnumerateQualifiers(self, *a, **kw):
            self._check("EnumerateQualifiers", "")
            return self.inner.EnumerateQualifiers(*a, **kw)

        def GetQualifier(self, *a, **kw):
            name = a[0] if a else kw["QualifierName"]
            self._check("GetQualifier", name)
            return self.inner.GetQualifier(*a, **kw)

        def SetQualifier(self, *a, **kw):
            q = a[0] if a else kw["QualifierDeclaration"]
            self._check("SetQualifier", q.name)
            return self.inner.SetQualifier(*a, **kw)

        def DeleteQualifier(self, *a, **kw):
            name = a[0] if a else kw["QualifierName"]
            self._check("DeleteQualifier", name)
            ns = kw.get("namespace") or self.default_namespace
            try:
                del self.inner.qualifiers[ns][name]
            except KeyError:
                pass

    return RepoStub()


# --------------------------------------------------------------------------
# running
# --------------------------------------------------------------------------

def _alarm(signum, frame):
    raise Hang()


def guarded(fn, timeout):
    """Run fn() under the per-call watchdog.  Returns (exc or None, secs)."""
    old = signal.signal(signal.SIGALRM, _alarm)
    signal.setitimer(signal.ITIMER_REAL, timeout)
    t0 = time.time()
    try:
        fn()
        return None, time.time() - t0
    except BaseException as exc:  # noqa: classification is TLC's job
        return exc, time.time() - t0
    finally:
        signal.setitimer(signal.ITIMER_REAL, 0)
        signal.signal(signal.SIGALRM, old)


def site_of(exc):
    """Innermost function of pywbem's MOF compiler in the traceback."""
    site = ""
    try:
        for fs in traceback.extract_tb(exc.__traceback__)[-400:]:
            if fs.filename.endswith(("_mof_compiler.py",
                                     "_mockmofwbemconnection.py")):
                site = fs.name
    except Exception:  # noqa
        pass
    return site or "?"


def project(exc, rendered):
    """Exception (or None) -> monomorphic event fields."""
    ev = dict(out="ok", mro=[], haspos=False, lineno=-1, column=-1,
              fileid=-1, site="", msg="")
    if exc is None:
        return ev
    if isinstance(exc, Hang):
        ev["out"] = "hang"
        return ev
    ev["out"] = type(exc).__name__
    ev["mro"] = [c.__name__ for c in type(exc).__mro__]
    ev["site"] = site_of(exc)
    try:
        ev["msg"] = str(getattr(exc, "msg", None) or exc)[:200]
    except Exception as e2:  # noqa
        ev["msg"] = "(str() failed: %s)" % type(e2).__name__
    if "MOFCompileError" in ev["mro"]:
        def num(x):
            if x is None:
                return -1
            if isinstance(x, int) and not isinstance(x, bool) and \
                    0 <= x < 2 ** 30:
                return x
            return 2 ** 30     # unclassifiable / absurd: no clause accepts it
        ev["haspos"] = exc.lineno is not None
        ev["lineno"] = num(exc.lineno)
        ev["column"] = num(exc.column)
        f = exc.file
        if f is None:
            ev["fileid"] = 0
        else:
            ev["fileid"] = 99
            try:
                af = os.path.normpath(os.path.abspath(f))
                for fid, path in rendered.files.items():
                    if os.path.normpath(os.path.abspath(path)) == af:
                        ev["fileid"] = fid
            except Exception:  # noqa
                pass
    return ev


def text_lens(rendered):
    return [{"fid": t["fid"], "lens": [len(x) for x in t["text"].split("\n")]}
            for t in rendered.texts]


GOOD_LENS = [{"fid": 0, "lens": [len(x) for x in GOOD.split("\n")]}]


class Target:
    """A compiler object + its repository, for one handle type."""

    def __init__(self, handle, search_paths=None, other_full=False):
        import pywbem
        import pywbem_mock
        self.handle = handle
        self.stub = None
        self.conn = None
        self.comp = None
        self.search_paths = search_paths
        if handle == "mofwbem":
            self.repo = pywbem.MOFWBEMConnection()
            self.comp = pywbem.MOFCompiler(self.repo, log_func=None,
                                           search_paths=search_paths)
        elif handle == "stub":
            self.stub = make_stub()
            self.repo = self.stub.inner
            self.comp = pywbem.MOFCompiler(self.stub, log_func=None,
                                           search_paths=search_paths)
        elif handle in ("faked", "mockapi"):
            self.conn = pywbem_mock.FakedWBEMConnection()
            self.conn.add_namespace(OTHER_NS)
            self.search_paths = search_paths
            if handle == "faked":
                self.comp = pywbem.MOFCompiler(self.conn, log_func=None,
                                               search_paths=search_paths)
        else:
            raise KeyError(handle)
        if other_full:
            # OTHER_NS holds the prelude objects, put there by ANOTHER
            # compiler object: the compiler under test has never seen it
            if handle == "mockapi":
                self.conn.compile_mof_string(PRELUDE, OTHER_NS)
            else:
                pywbem.MOFCompiler(
                    self.conn if self.conn is not None else self.repo,
                    log_func=None).compile_string(PRELUDE, OTHER_NS)

    def new_compiler(self):
        """Replace the compiler object by a new one on the same repository."""
        import pywbem
        if self.comp is not None:
            self.comp = pywbem.MOFCompiler(
                self.stub if self.stub is not None else
                self.conn if self.conn is not None else self.repo,
                log_func=None, search_paths=self.search_paths)

    def compile(self, api, text, path):
        if self.handle == "mockapi":
            self.conn.compile_mof_string(text, NS,
                                         search_paths=self.search_paths)
        elif api == "file":
            self.comp.compile_file(path, NS)
        else:
            self.comp.compile_string(text, NS)

    def dump_good(self, classes=(), inst=None):
        """Canonical dump of the objects the good text defines: those of GOOD,
        the classes named `classes` and the instances of class `inst`."""
        import cimcanon
        try:
            if self.conn is not None:
                c = self.conn
                insts = c.EnumerateInstances("GA", namespace=NS) + \
                    [i for i in c.EnumerateInstances(
                        "Types", namespace=NS, DeepInheritance=False)
                     if i["k"] == 2]
                if inst:
                    insts += c.EnumerateInstances(inst, namespace=NS,
                                                  DeepInheritance=False)
                for i in insts:
                    i.path.host = None
                items = [c.GetQualifier("GQ", namespace=NS)] + \
                    [c.GetClass(n, namespace=NS, LocalOnly=True,
                                IncludeQualifiers=True)
                     for n in ["GA"] + list(classes)] + insts
            else:
                r = self.repo
                items = [r.qualifiers[NS]["GQ"]] + \
                    [r.classes[NS][n] for n in ["GA"] + list(classes)]
                items += [i for i in r.instances.get(NS, [])
                          if i.classname.lower() == "ga" or
                          (i.classname.lower() == "types" and i["k"] == 2) or
                          (inst and i.classname.lower() == inst.lower())]
            return cimcanon.digest(sorted(repr(cimcanon.canon(x))
                                          for x in items))
        except Exception as exc:  # noqa
            return "DUMPERR:%s" % type(exc).__name__


_REF = {}


def reference(handle):
    """Outcome and dump of PRELUDE; GOOD on a fresh compiler of that type."""
    if handle not in _REF:
        t = Target(handle)
        exc, _ = guarded(lambda: t.compile("string", PRELUDE, None), 60)
        if exc is not None:
            _REF[handle] = ("PRELUDE:" + type(exc).__name__, "")
        else:
            exc, _ = guarded(lambda: t.compile("string", GOOD, None), 60)
            _REF[handle] = ("ok" if exc is None else type(exc).__name__,
                            t.dump_good())
    return _REF[handle]


def reference_same_history(ses, r, timeout):
    """Part F: the good text of the session names a class the session itself
    dealt with, so what "a fresh compiler gives" depends on what the failed
    compile left in the REPOSITORY (MOFWBEMConnection.CreateClass keeps a
    class whose REF classes are missing - state of the repository, not of the
    compiler).  The reference is therefore a fresh compiler OBJECT on a
    repository with the same history: a second repository of the same kind
    goes through PRELUDE and the session with one compiler object, then a new
    MOFCompiler on that repository compiles the good text."""
    t = Target(ses["handle"], search_paths=r.search_paths or None,
               other_full=r.other_full)
    exc, _ = guarded(lambda: t.compile("string", PRELUDE, None), 60)
    if exc is not None:
        return "PRELUDE:" + type(exc).__name__, ""
    if t.stub is not None:
        t.stub.rules = [list(x) for x in r.rules]
    guarded(lambda: t.compile(ses["api"], r.text, r.files[1]), timeout)
    if t.stub is not None:
        t.stub.rules = []
    t.new_compiler()
    exc, _ = guarded(lambda: t.compile("string", r.good_text, None), timeout)
    return ("ok" if exc is None else type(exc).__name__,
            t.dump_good(r.good_classes, r.good_inst) if exc is None else "")


PRELUDE_LENS = [{"fid": 0, "lens": [len(x) for x in PRELUDE.split("\n")]}]


def run_session(ses, seed, workdir, timeout=10.0, keep=False):
    """Render and run one session on one compiler object: PRELUDE ("setup"),
    the session ("bad"), then GOOD ("good").
    Returns dict(events=[setup, bad, good], info=...)."""
    warnings.simplefilter("ignore")
    sys.setrecursionlimit(1200)
    if "good" not in ses:       # replay files written before part F existed
        ses = dict(ses, good=[])
    r = render(ses, seed, workdir)
    api, handle = ses["api"], ses["handle"]
    cwd = os.getcwd()
    blank = dict(digest="", refout="", refdigest="")
    try:
        os.chdir(workdir)
        t = Target(handle, search_paths=r.search_paths or None,
                   other_full=r.other_full)
        exc, _ = guarded(lambda: t.compile("string", PRELUDE, None), 60)
        setup = project(exc, r)
        setup.update(call="setup", texts=PRELUDE_LENS, **blank)
        info = {"text": r.text, "rules": r.rules,
                "inc": next((x["text"] for x in r.texts if x["fid"] == 2),
                            None)}
        if exc is not None:
            return {"events": [setup], "info": info}
        if t.stub is not None:
            t.stub.rules = [list(x) for x in r.rules]
        exc, secs = guarded(
            lambda: t.compile(api, r.text, r.files[1]), timeout)
        bad = project(exc, r)
        bad.update(call="bad", ses=ses, texts=text_lens(r), **blank)
        info["secs"] = round(secs, 3)
        info["stublog"] = list(t.stub.log) if t.stub is not None else []
        if t.stub is not None:
            t.stub.rules = []
        gtext = r.good_text if r.good_text is not None else GOOD
        exc2, secs2 = guarded(lambda: t.compile("string", gtext, None),
                              timeout)
        good = project(exc2, r)
        # part H: the later text is not valid MOF, there is nothing to
        # compare its result with
        refout, refdigest = ("", "") if r.undeclared else \
            reference(handle) if r.good_text is None \
            else reference_same_history(ses, r, timeout)
        glens = GOOD_LENS if r.good_text is None else \
            [{"fid": 0, "lens": [len(x) for x in gtext.split("\n")]}] + \
            [x for x in text_lens(r) if x["fid"] >= 3] + \
            [{"fid": 0, "lens": [len(x) for x in e.split("\n")]}
             for e in r.good_embedded]
        if r.good_text is not None:
            info["good_text"] = gtext
        good.update(call="good", texts=glens,
                    digest=t.dump_good(r.good_classes, r.good_inst)
                    if exc2 is None and not r.undeclared else "",
                    refout=refout, refdigest=refdigest)
        return {"events": [setup, bad, good], "info": info}
    finally:
        os.chdir(cwd)
        if not keep:
            shutil.rmtree(workdir, ignore_errors=True)


def worker_main(jobs_path, out_path):
    """Process entry: run the jobs of a JSON file, one result line each.  A
    {"begin": sid} line precedes every session so that the parent can tell
    which session a stalled worker was in."""
    import json
    with open(jobs_path) as f:
        spec = json.load(f)
    base = spec["workdir"]
    with open(out_path, "a") as out:
        for job in spec["jobs"]:
            out.write(json.dumps({"begin": job["sid"]}) + "\n")
            out.flush()
            try:
                res = run_session(job["ses"], job["seed"],
                                  os.path.join(base, "s%d" % job["sid"]),
                                  timeout=spec.get("timeout", 10.0))
            except Exception as exc:  # noqa: harness problem, parent decides
                res = {"error": "%s: %s\n%s" % (
                    type(exc).__name__, exc, traceback.format_exc()[-1500:])}
            res["sid"] = job["sid"]
            out.write(json.dumps(res) + "\n")
            out.flush()


if __name__ == "__main__":
    worker_main(sys.argv[1], sys.argv[2])
