"""
Driver for X03 (spec/ProvDispatch*.tla): user-defined provider registration
and dispatch in the pywbem mock WBEM server.

Concretises abstract calls (register_provider / CreateInstance /
ModifyInstance / DeleteInstance / InvokeMethod), runs them on a real
FakedWBEMConnection with RECORDING providers (subclasses of
InstanceWriteProvider / MethodProvider that log every call with what they
were given, then follow a scripted behaviour: delegate to the default
implementation, change the instance first, raise, return a wrong type ...),
and projects results + observations to monomorphic JSON events for TLC.

Free dimensions randomised per use (the documentation says they are
irrelevant): lexical case of namespace / class / property / method /
parameter names, namespace given explicitly or through the connection's
default namespace, order of properties, Params list vs keyword arguments,
schema pragma file as str or list.
"""
import copy
import os

import pywbem
import pywbem_mock
from pywbem import (CIMInstance, CIMInstanceName, CIMClassName, CIMProperty,
                    CIMParameter, CIMError, Uint8, Uint16, Uint32)
from pywbem_mock import InstanceWriteProvider, MethodProvider
try:
    from pywbem import NocaseDict
except ImportError:  # pragma: no cover
    from pywbem._nocasedict import NocaseDict

import vlib
import mockrepo
from mockrepo import NS1, NS2, QUALIFIERS

NSNAME = {1: NS1, 2: NS2, 3: "root/nonexistent"}
NS_VARIANTS = {1: [NS1, NS1.upper(), "Root/V1"], 2: [NS2, NS2.upper(), "rOOt/v2"],
               3: ["root/nonexistent", "ROOT/Nonexistent"]}
NSID = {NS1.lower(): 1, NS2.lower(): 2}
CLSNAME = {"A": "PA", "B": "PB", "X": "PX", "S": "PS", "Z": "PZ"}
CLS_OTHERCASE = {"A": ["pa", "Pa", "pA"], "B": ["pb", "pB"], "X": ["px", "Px"],
                 "S": ["ps", "pS"], "Z": ["pz", "Pz"]}
CLSID = {v.lower(): k for k, v in CLSNAME.items()}
PROPNAME = {"k": "K", "s": "S", "t": "T", "u": "U"}     # as declared
PTYPE = {"iw": "instance-write", "meth": "method", "bad": "indication"}
PTYPE_ID = {"instance-write": "iw", "method": "meth"}

STATIC = ("Qualifier Static : boolean = false, Scope(property, method), "
          "Flavor(DisableOverride, ToSubclass);\n")
MOF_PA = """class PA {
    [Key] uint32 K; string S; uint16 T;
    uint32 M([IN] uint8 P1, [IN] string P2, [IN ( false ), OUT] string O1);
    [Static] uint32 SM([IN] uint8 P1, [IN] string P2,
                       [IN ( false ), OUT] string O1);
};
"""
MOF_PB = "class PB : PA { string U; };\n"
MOF_PX = "class PX { [Key] uint32 K; string S; uint16 T; };\n"
MOF_PS = "class PS { [Key] uint32 K; string S; uint16 T; };\n"

NOARG = dict(copy=True, names="na", path="na", ns=True, obj="na", host=True,
             meth="", params="na", props=[])
NORK = dict(ns=0, c="", k=0)

_TEMPLATE = None
_SCHEMA = None


def schema_pragma_file():
    """A tiny 'schema' (qualifiers + one MOF file per class PA, PB, PS) with
    its schema pragma file, under the work directory."""
    global _SCHEMA
    if _SCHEMA is None:
        d = os.path.join(vlib.WORK, "X03_schema")
        os.makedirs(os.path.join(d, "cls"), exist_ok=True)
        with open(os.path.join(d, "qualifiers.mof"), "w") as f:
            f.write(QUALIFIERS + STATIC)
        for n, t in (("PA", MOF_PA), ("PB", MOF_PB), ("PS", MOF_PS)):
            with open(os.path.join(d, "cls", n + ".mof"), "w") as f:
                f.write(t)
        with open(os.path.join(d, "schema.mof"), "w") as f:
            f.write('#pragma locale ("en_US")\n'
                    '#pragma include ("qualifiers.mof")\n' +
                    "".join('#pragma include ("cls/%s.mof")\n' % n
                            for n in ("PA", "PB", "PS")))
        _SCHEMA = os.path.join(d, "schema.mof")
    return _SCHEMA


def fresh():
    """PA (methods M, static SM), PB : PA in NS1 and NS2; PX only in NS1;
    PS only behind the schema pragma file; NS1 is the default namespace."""
    global _TEMPLATE
    if _TEMPLATE is None:
        conn = pywbem_mock.FakedWBEMConnection(default_namespace=NS1)
        for ns in (NS1, NS2):
            if ns.lower() not in [n.lower() for n in conn.namespaces]:
                conn.add_namespace(ns)
            conn.compile_mof_string(QUALIFIERS + STATIC + MOF_PA + MOF_PB,
                                    namespace=ns)
        conn.compile_mof_string(MOF_PX, namespace=NS1)
        _TEMPLATE = conn
    return copy.deepcopy(_TEMPLATE)


# ----------------------------------------------------------------------------
# recording providers
# ----------------------------------------------------------------------------

def _names_token(props):
    for p in props.values():
        want = PROPNAME.get(p.name.lower())
        if want is None or p.name != want:
            return "other"
    return "class"


class _RecMixin:
    def _init_rec(self, pid, drv):
        self.pid = pid
        self.drv = drv
        self.setupbeh = "ok"

    def post_register_setup(self, conn):
        drv = self.drv
        eff = True
        try:
            reg = conn._provider_registry          # read-only peek
            for nsname, ptype, clsname in drv.cur_reg_expect:
                if reg.get_registered_provider(nsname, ptype, clsname) \
                        is not self:
                    eff = False
        except AttributeError as exc:
            raise vlib.MachineryError("cannot peek at the registry: %s" % exc)
        drv.setup_log.append(dict(pid=self.pid, conn=conn is drv.conn,
                                  eff=eff))
        if self.setupbeh == "raise":
            raise RuntimeError("scripted post_register_setup failure")


class RecIW(_RecMixin, InstanceWriteProvider):
    def CreateInstance(self, namespace, new_instance):
        drv = self.drv
        arg = dict(NOARG)
        arg.update(
            copy=new_instance is not drv.cur_client,
            names=_names_token(new_instance.properties),
            path="none" if new_instance.path is None else "bad",
            ns=isinstance(namespace, str) and
            namespace.lower() == drv.cur_ns.lower(),
            obj="ok" if new_instance.classname.lower() ==
            drv.cur_cls.lower() else "bad")
        drv.log.append(dict(pid=self.pid, op="Create", arg=arg))
        beh = drv.beh
        if beh == "cimerr":
            raise CIMError(pywbem.CIM_ERR_FAILED, "scripted")
        if beh == "pyerr":
            raise RuntimeError("scripted")
        if beh == "mutate":
            new_instance.properties["S"] = CIMProperty("S", "mutated",
                                                       type="string")
            new_instance.properties["T"] = CIMProperty("T", Uint16(99))
        if beh == "rekey":
            new_instance.properties["K"] = CIMProperty("K", Uint32(2))
        res = super().CreateInstance(namespace, new_instance)
        if beh == "badret":
            return "not-a-path"
        return res

    def ModifyInstance(self, modified_instance, IncludeQualifiers=None):
        drv = self.drv
        p = modified_instance.path
        pathok = (isinstance(p, CIMInstanceName) and
                  isinstance(p.namespace, str) and
                  p.namespace.lower() == drv.cur_ns.lower() and
                  p.classname.lower() == drv.cur_cls.lower() and
                  _key_of(p) == drv.cur_k)
        arg = dict(NOARG)
        arg.update(
            copy=modified_instance is not drv.cur_client,
            names=_names_token(modified_instance.properties),
            path="ok" if pathok else "bad",
            obj="ok" if modified_instance.classname.lower() ==
            drv.cur_cls.lower() else "bad",
            props=sorted(n.lower() for n in modified_instance.properties))
        drv.log.append(dict(pid=self.pid, op="Modify", arg=arg))
        beh = drv.beh
        if beh == "cimerr":
            raise CIMError(pywbem.CIM_ERR_FAILED, "scripted")
        if beh == "pyerr":
            raise RuntimeError("scripted")
        if beh == "mutate":
            modified_instance.properties["S"] = CIMProperty(
                "S", "mutated", type="string")
        res = super().ModifyInstance(modified_instance, IncludeQualifiers)
        if beh == "badret":
            return 5
        return res

    def DeleteInstance(self, InstanceName):
        drv = self.drv
        p = InstanceName
        ok = (isinstance(p, CIMInstanceName) and
              isinstance(p.namespace, str) and
              p.namespace.lower() == drv.cur_ns.lower() and
              p.classname.lower() == drv.cur_cls.lower() and
              _key_of(p) == drv.cur_k)
        arg = dict(NOARG)
        arg.update(obj="ok" if ok else "bad",
                   host=getattr(p, "host", "?") is None)
        drv.log.append(dict(pid=self.pid, op="Delete", arg=arg))
        beh = drv.beh
        if beh == "cimerr":
            raise CIMError(pywbem.CIM_ERR_FAILED, "scripted")
        if beh == "pyerr":
            raise RuntimeError("scripted")
        res = super().DeleteInstance(InstanceName)
        if beh == "badret":
            return 5
        return res


class RecM(_RecMixin, MethodProvider):
    def InvokeMethod(self, methodname, localobject, params):
        drv = self.drv
        o = localobject
        if drv.cur_target == "inst":
            ok = isinstance(o, CIMInstanceName) and _key_of(o) == drv.cur_k
        else:
            ok = isinstance(o, CIMClassName)
        ok = (ok and isinstance(o.namespace, str) and
              o.namespace.lower() == drv.cur_ns.lower() and
              o.classname.lower() == drv.cur_cls.lower())
        pok = isinstance(params, NocaseDict) and all(
            isinstance(v, CIMParameter) for v in params.values())
        arg = dict(NOARG)
        arg.update(
            meth=methodname.lower() if isinstance(methodname, str) else "?",
            obj="ok" if ok else "bad",
            host=getattr(o, "host", "?") is None,
            params="nocasedict" if pok else "other",
            props=sorted(str(n).lower() for n in params))
        drv.log.append(dict(pid=self.pid, op="Invoke", arg=arg))
        beh = drv.beh
        rv = Uint32(7)
        if beh == "seq":
            return (rv, [CIMParameter("O1", "string", value="out")])
        if beh == "mapv":
            return (rv, {"O1": "out"})
        if beh == "mapp":
            return (rv, NocaseDict(
                o1=CIMParameter("O1", "string", value="out")))
        if beh == "list":
            return [rv, ()]
        if beh == "deleg":
            return super().InvokeMethod(methodname, localobject, params)
        if beh == "cimerr":
            raise CIMError(pywbem.CIM_ERR_FAILED, "scripted")
        if beh == "pyerr":
            raise RuntimeError("scripted")
        if beh == "bad1":
            return None
        if beh == "bad2":
            return (rv, [], 5)
        if beh == "bad3":
            return (rv, [5])
        if beh == "bad4":
            return (rv, 5)
        raise vlib.MachineryError("unknown scripted behaviour %r" % beh)


class RecObj(_RecMixin):
    """Not a provider class at all (wrong superclass)."""


def _key_of(path):
    kb = path.keybindings
    if len(kb) == 1 and "k" in kb and not isinstance(kb["k"], bool) and \
            kb["k"] in (1, 2):
        return int(kb["k"])
    return -1


# ----------------------------------------------------------------------------
# driver
# ----------------------------------------------------------------------------

class Driver:
    def __init__(self, rng):
        self.rng = rng
        self.conn = fresh()
        self.providers = {}
        self.events = []
        self.calls = []           # printable concrete calls
        self.log = []
        self.setup_log = []
        self.beh = "deleg"
        self.cur_client = None
        self.cur_ns = self.cur_cls = ""
        self.cur_k = 0
        self.cur_target = ""
        self.cur_reg_expect = []

    # -- names ---------------------------------------------------------------
    def nsname(self, n):
        return self.rng.choice(NS_VARIANTS[n])

    def clsname(self, c, othercase=None):
        if othercase is None:
            othercase = self.rng.random() < 0.6
        if othercase:
            return self.rng.choice(CLS_OTHERCASE[c])
        return CLSNAME[c]

    def pname(self, p):
        base = {"zz": "ZZ"}.get(p, PROPNAME.get(p, p.upper()))
        return self.rng.choice([base, base.lower()])

    # -- observation -----------------------------------------------------------
    def dump(self):
        rows = []
        for n, ns in ((1, NS1), (2, NS2)):
            have = [c.lower() for c in self.conn.EnumerateClassNames(
                namespace=ns, DeepInheritance=True)]
            for root in ("PA", "PX", "PS"):
                if root.lower() not in have:
                    continue
                for p in self.conn.EnumerateInstanceNames(root, namespace=ns):
                    rows.append(dict(ns=n, c=CLSID.get(p.classname.lower(),
                                                       "UNCLASSIFIED"),
                                     k=_key_of(p)))
        return sorted(rows, key=repr)

    def clsdump(self):
        rows = []
        for n, ns in ((1, NS1), (2, NS2)):
            for c in self.conn.EnumerateClassNames(namespace=ns,
                                                   DeepInheritance=True):
                if c.lower() in CLSID:
                    rows.append(dict(ns=n, c=CLSID[c.lower()]))
        return sorted(rows, key=repr)

    def regdump(self):
        rows = []
        ids = {id(p): pid for pid, p in self.providers.items()}
        for ns, cln, pt, pobj in self.conn._provider_registry.iteritems():
            rows.append(dict(t=PTYPE_ID.get(pt, "UNCLASSIFIED"),
                             ns=NSID.get(ns.lower(), -1),
                             c=CLSID.get(cln.lower(), "UNCLASSIFIED"),
                             p=ids.get(id(pobj), -1)))
        return sorted(rows, key=repr)

    @staticmethod
    def _err(exc):
        if isinstance(exc, CIMError):
            return dict(ok=False, code=int(exc.status_code), exc="CIMError")
        if isinstance(exc, vlib.MachineryError):
            raise exc
        return dict(ok=False, code=-2, exc=type(exc).__name__)

    # -- registration ----------------------------------------------------------
    def provider(self, c):
        pid = c["pid"]
        if pid in self.providers:
            return self.providers[pid]
        if c["base"] == "iw":
            p = RecIW(self.conn.cimrepository)
        elif c["base"] == "meth":
            p = RecM(self.conn.cimrepository)
        else:
            p = RecObj()
        p._init_rec(pid, self)
        want = PTYPE[c["ptype"]]
        if getattr(p, "provider_type", None) != want:
            p.provider_type = want
        self.providers[pid] = p
        return p

    def do_reg(self, c):
        p = self.provider(c)
        names = [5 if t == "#int" else
                 self.clsname(t, othercase=bool(c["anycase"])
                              if c["pragma"] else None)
                 for t in c["pcls"]]
        cn = c["cn"]
        if cn == "missing":
            if hasattr(p, "provider_classnames"):
                del p.provider_classnames
        elif cn == "none":
            p.provider_classnames = None
        elif cn == "int":
            p.provider_classnames = 5
        elif cn == "str":
            p.provider_classnames = names[0]
        elif cn == "tuple":
            p.provider_classnames = tuple(names)
        else:
            p.provider_classnames = list(names)
        nsnames = [5 if n == 0 else self.nsname(n) for n in c["nss"]]
        a = c["nsarg"]
        if a == "none":
            nsarg = None
            eff_ns = [NS1]
        elif a == "int":
            nsarg = 5
            eff_ns = []
        elif a == "str":
            nsarg = nsnames[0]
            eff_ns = nsnames
        elif a == "tuple":
            nsarg = tuple(nsnames)
            eff_ns = nsnames
        else:
            nsarg = list(nsnames)
            eff_ns = nsnames
        pragma = None
        if c["pragma"]:
            pragma = schema_pragma_file()
            if self.rng.random() < 0.5:
                pragma = [pragma]
        p.setupbeh = c["setupbeh"]
        self.cur_reg_expect = [
            (ns, PTYPE[c["ptype"]], cl)
            for ns in eff_ns if isinstance(ns, str) and ns.lower() in NSID
            for cl in names if isinstance(cl, str) and cl.lower() in CLSID and
            cl.lower() != "pz"]
        del self.setup_log[:]
        self.calls.append(
            "register_provider(<%s#%d provider_type=%r provider_classnames=%r>"
            ", namespaces=%r, schema_pragma_files=%r)" % (
                type(p).__name__, c["pid"],
                getattr(p, "provider_type", "<missing>"),
                getattr(p, "provider_classnames", "<missing>"), nsarg,
                "<schema.mof>" if pragma else None))
        try:
            self.conn.register_provider(p, namespaces=nsarg,
                                        schema_pragma_files=pragma)
            res = dict(ok=True, exc="")
        except Exception as exc:  # noqa
            res = dict(ok=False, exc=self._err(exc)["exc"])
        mine = [s for s in self.setup_log if s["pid"] == c["pid"]]
        ev = dict(c)
        ev.update(res)
        ev.update(setupcalls=len(self.setup_log),
                  setupconn=all(s["conn"] for s in mine) and
                  len(mine) == len(self.setup_log),
                  setupreg=all(s["eff"] for s in mine),
                  regdump=self.regdump(), clsdump=self.clsdump(),
                  dump=self.dump())
        self.events.append(ev)
        return ev

    # -- requests ----------------------------------------------------------------
    def _finish(self, c, res, op):
        log = self.log
        if not log:
            recv, arg = 0, dict(NOARG)
        elif len(log) == 1 and log[0]["op"] == op:
            recv, arg = log[0]["pid"], log[0]["arg"]
        else:
            recv, arg = -1, dict(NOARG)
        ev = dict(c)
        ev.update(res)
        ev.setdefault("rk", dict(NORK))
        ev.setdefault("rv", 0)
        ev.setdefault("outs", [])
        ev.update(recv=recv, arg=arg)
        try:
            ev["dump"] = self.dump()
        except Exception as exc:  # noqa
            ev["dump"] = [dict(ns=-1, c="DUMPFAILED:" + type(exc).__name__,
                               k=-1)]
        self.events.append(ev)
        return ev

    def _begin(self, c):
        del self.log[:]
        self.beh = c["beh"]
        self.cur_ns = NSNAME[c["ns"]]
        self.cur_cls = CLSNAME[c["cls"]]
        self.cur_k = c["k"]
        self.cur_target = c.get("target", "")

    def _nsarg(self, n):
        """Namespace name, or None for the default namespace (1)."""
        if n == 1 and self.rng.random() < 0.3:
            return None
        return self.nsname(n)

    def do_create(self, c):
        self._begin(c)
        d = c["defect"]
        props = []
        if d != "nokey":
            props.append(CIMProperty(self.pname("k"), Uint32(c["k"])))
        if d == "wrongtype":
            props.append(CIMProperty(self.pname("s"), Uint8(3)))
        else:
            props.append(CIMProperty(self.pname("s"), "v", type="string"))
        if d == "badprop":
            props.append(CIMProperty(self.pname("zz"), "zz", type="string"))
        self.rng.shuffle(props)
        inst = CIMInstance(self.clsname(c["cls"]), properties=props)
        snap = inst.copy()
        self.cur_client = inst
        ns = self._nsarg(c["ns"])
        self.calls.append("CreateInstance(%r, namespace=%r) [provider: %s]" %
                          (inst, ns, c["beh"]))
        try:
            p = self.conn.CreateInstance(inst, namespace=ns)
            if isinstance(p, CIMInstanceName):
                rk = dict(ns=NSID.get((p.namespace or "").lower(), -1),
                          c=CLSID.get(p.classname.lower(), "UNCLASSIFIED"),
                          k=_key_of(p))
            else:
                rk = dict(ns=-1, c="UNCLASSIFIED:" + type(p).__name__, k=-1)
            res = dict(ok=True, code=0, exc="", rk=rk)
        except Exception as exc:  # noqa
            res = self._err(exc)
        ev = self._finish(c, res, "Create")
        if ev["recv"] > 0:
            ev["arg"]["copy"] = ev["arg"]["copy"] and inst == snap
        return ev

    def do_modify(self, c):
        self._begin(c)
        d = c["defect"]
        k = c["k"]
        props = []
        if d == "wrongtype":
            props.append(CIMProperty(self.pname("s"), Uint8(3)))
        else:
            props.append(CIMProperty(self.pname("s"), "v1", type="string"))
        if c["givet"]:
            props.append(CIMProperty(self.pname("t"), Uint16(5)))
        if d == "keychange":
            props.append(CIMProperty(self.pname("k"), Uint32(3 - k)))
        if d == "badprop":
            props.append(CIMProperty(self.pname("zz"), "zz", type="string"))
        self.rng.shuffle(props)
        path = CIMInstanceName(self.clsname(c["cls"]),
                               keybindings={self.pname("k"): Uint32(k)},
                               namespace=self._nsarg(c["ns"]))
        icls = self.clsname(c["cls"])
        if d == "clsmismatch":
            icls = self.clsname("X" if c["cls"] != "X" else "A")
        inst = CIMInstance(icls, properties=props)
        inst.path = path
        snap = inst.copy()
        self.cur_client = inst
        pl = [self.pname(p) for p in c["pl"]] if c["haspl"] else None
        self.calls.append("ModifyInstance(%r, PropertyList=%r) [provider: %s]"
                          % (inst, pl, c["beh"]))
        try:
            self.conn.ModifyInstance(inst, PropertyList=pl)
            res = dict(ok=True, code=0, exc="")
        except Exception as exc:  # noqa
            res = self._err(exc)
        ev = self._finish(c, res, "Modify")
        if ev["recv"] > 0:
            ev["arg"]["copy"] = ev["arg"]["copy"] and \
                inst.properties == snap.properties
        return ev

    def do_delete(self, c):
        self._begin(c)
        path = CIMInstanceName(self.clsname(c["cls"]),
                               keybindings={self.pname("k"): Uint32(c["k"])},
                               namespace=self._nsarg(c["ns"]))
        self.calls.append("DeleteInstance(%r) [provider: %s]" %
                          (path, c["beh"]))
        try:
            self.conn.DeleteInstance(path)
            res = dict(ok=True, code=0, exc="")
        except Exception as exc:  # noqa
            res = self._err(exc)
        return self._finish(c, res, "Delete")

    def do_invoke(self, c):
        self._begin(c)
        cn = self.clsname(c["cls"])
        ns = self._nsarg(c["ns"])
        if c["target"] == "inst":
            obj = CIMInstanceName(cn, keybindings={self.pname("k"):
                                                   Uint32(c["k"])},
                                  namespace=ns)
        elif ns is None and self.rng.random() < 0.5:
            obj = cn            # a string is a class name in the default ns
        else:
            obj = CIMClassName(cn, namespace=ns)
        meth = {"m": "M", "sm": "SM", "qq": "QQ"}[c["meth"]]
        meth = self.rng.choice([meth, meth.lower()])
        d = c["pdefect"]
        params = []
        if d != "omit":
            p1 = ("P1", "x") if d == "wrongtype" else ("P1", Uint8(1))
            p2 = ("P2", ["x", "y"]) if d == "wrongarray" else ("P2", "x")
            params = [p1, p2]
            if d == "unknown":
                params.append(("QQ", "x"))
            if d == "outonly":
                params.append(("O1", "x"))
        params = [(self.rng.choice([n, n.lower()]), v) for n, v in params]
        self.rng.shuffle(params)
        cut = self.rng.randint(0, len(params))
        plist, kw = params[:cut], dict(params[cut:])
        self.calls.append("InvokeMethod(%r, %r, %r, **%r) [provider: %s]" %
                          (meth, obj, plist, kw, c["beh"]))
        try:
            r = self.conn.InvokeMethod(meth, obj, plist, **kw)
            rv, outs = -1, [dict(n="UNCLASSIFIED", v=type(r).__name__)]
            if isinstance(r, (tuple, list)) and len(r) == 2:
                if isinstance(r[0], int) and not isinstance(r[0], bool) and \
                        0 <= r[0] < 1000:
                    rv = int(r[0])
                try:
                    outs = sorted(
                        (dict(n=str(n).lower(),
                              v=v if v == "out" else "UNCLASSIFIED")
                         for n, v in r[1].items()), key=repr)
                except Exception:  # noqa
                    pass
            res = dict(ok=True, code=0, exc="", rv=rv, outs=outs)
        except Exception as exc:  # noqa
            res = self._err(exc)
        return self._finish(c, res, "Invoke")

    def call(self, c):
        return getattr(self, "do_" + c["op"].lower())(c)


def norm_call(c):
    """Abstract call from TLC (or the random generator) with defaults."""
    c = dict(c)
    if c["op"] == "Reg":
        c.setdefault("anycase", False)
        c.setdefault("setupbeh", "ok")
        c.setdefault("pragma", False)
        c["pcls"] = list(c["pcls"])
        c["nss"] = list(c["nss"])
    if c["op"] == "Modify":
        c["pl"] = list(c["pl"])
    return c


def deviant(c, ev):
    """Calls that hit a known documentation/code discrepancy of the pinned
    tree (the trace is cut after them so that what would follow is judged in
    other traces)."""
    if c["op"] == "Reg":
        return (c["nsarg"] == "int" or c["cn"] == "int" or
                "#int" in c["pcls"] or (c["pragma"] and not ev["ok"]))
    return c["op"] == "Invoke" and c["pdefect"] == "outonly"


def run_calls(rng, calls, cut=True):
    d = Driver(rng)
    for c in calls:
        c = norm_call(c)
        ev = d.call(c)
        if cut and deviant(c, ev):
            break
    return d


# ----------------------------------------------------------------------------
# catalogue + random histories (mirrors the call universe of ProvDispatchImpl)
# ----------------------------------------------------------------------------

def P(pid, ptype, base, cn, pcls):
    return dict(pid=pid, ptype=ptype, base=base, cn=cn, pcls=list(pcls))


VALID = [P(1, "iw", "iw", "str", ["A"]), P(2, "iw", "iw", "list", ["A", "X"]),
         P(3, "meth", "meth", "str", ["A"]),
         P(4, "meth", "meth", "tuple", ["B", "S"]),
         P(13, "iw", "iw", "tuple", ["B"]), P(14, "iw", "iw", "str", ["S"]),
         P(15, "meth", "meth", "list", ["A", "B"]),
         P(16, "meth", "meth", "list", ["X", "S"]),
         P(18, "iw", "iw", "list", ["A", "B", "S"])]
INVALID = [P(5, "bad", "iw", "str", ["A"]), P(6, "meth", "iw", "str", ["A"]),
           P(7, "iw", "obj", "str", ["A"]), P(8, "iw", "iw", "none", []),
           P(9, "iw", "iw", "int", []),
           P(10, "iw", "iw", "list", ["A", "#int"]),
           P(11, "iw", "iw", "missing", []), P(12, "iw", "iw", "str", ["Z"]),
           P(17, "iw", "meth", "str", ["A"]),
           P(19, "meth", "meth", "tuple", ["#int"])]
NSARGS = [("none", []), ("str", [1]), ("str", [2]), ("str", [3]),
          ("list", [1, 2]), ("tuple", [2, 1]), ("list", [1, 3]), ("int", []),
          ("list", [1, 0]), ("tuple", [3, 0]), ("list", [2, 2]),
          ("tuple", [2]), ("list", [1])]
TARGETS = [(1, "A"), (1, "A"), (1, "A"), (1, "B"), (1, "B"), (1, "X"),
           (1, "S"), (1, "Z"), (2, "A"), (2, "A"), (2, "B"), (2, "X"),
           (2, "S"), (2, "Z"), (3, "A"), (3, "Z")]


def random_reg(rng, valid_bias=0.75):
    p = rng.choice(VALID) if rng.random() < valid_bias else rng.choice(INVALID)
    a = rng.choice(NSARGS[:7] + NSARGS[9:] if rng.random() < 0.85 else NSARGS)
    c = dict(op="Reg", nsarg=a[0], nss=list(a[1]),
             pragma=rng.random() < 0.35, setupbeh="ok", anycase=False)
    c.update(p)
    if c["pragma"]:
        c["anycase"] = rng.random() < 0.15
    else:
        c["anycase"] = rng.random() < 0.5
        if rng.random() < 0.1 and p in VALID:
            c["setupbeh"] = "raise"
    return c


def random_request(rng, target=None, insts=()):
    ns, cls = target or rng.choice(TARGETS)
    k = rng.choice([1, 1, 1, 2])
    here = [r[2] for r in insts if r[0] == ns and r[1] == cls]
    x = rng.random()
    if x < 0.3 or (not here and x < 0.45):
        shape = rng.choice(
            [("none", "deleg")] * 6 +
            [(d, "deleg") for d in ("badprop", "wrongtype", "nokey")] +
            [("none", b) for b in ("mutate", "rekey", "cimerr", "pyerr",
                                   "badret")] +
            [("nokey", "rekey"), ("badprop", "cimerr"), ("nokey", "mutate")])
        return dict(op="Create", ns=ns, cls=cls, k=k, defect=shape[0],
                    beh=shape[1])
    if here and rng.random() < 0.8:
        k = rng.choice(here)
    if x < 0.5:
        d = rng.choice(["none"] * 6 + ["badprop", "wrongtype", "keychange",
                                       "clsmismatch"])
        haspl = rng.random() < 0.5
        pl = rng.choice([["s"], ["t"], ["s", "t"], ["t", "t"], ["zz"], ["u"],
                         ["s", "zz"], []]) if haspl else []
        beh = rng.choice(["deleg"] * 4 + ["mutate", "cimerr", "pyerr",
                                          "badret"])
        return dict(op="Modify", ns=ns, cls=cls, k=k, defect=d, haspl=haspl,
                    pl=pl, givet=rng.random() < 0.5, beh=beh)
    if x < 0.6:
        return dict(op="Delete", ns=ns, cls=cls, k=k,
                    beh=rng.choice(["deleg"] * 4 + ["cimerr", "pyerr",
                                                    "badret"]))
    return random_invoke(rng, ns, cls, k)


def random_invoke(rng, ns, cls, k):
    meth = rng.choice(["m", "sm", "sm", "sm", "qq"])
    if rng.random() < 0.35:
        pdefect, beh = rng.choice(["omit", "omit", "unknown", "wrongtype",
                                   "wrongarray", "outonly", "none"]), "seq"
    else:
        pdefect = "none"
        beh = rng.choice(["seq", "mapv", "mapp", "list", "deleg", "cimerr",
                          "pyerr", "bad1", "bad2", "bad3", "bad4"])
    target = rng.choice(["inst", "class"])
    if meth == "m" and rng.random() < 0.7:
        target = "inst"
    return dict(op="Invoke", ns=ns, cls=cls, k=k, target=target, meth=meth,
                pdefect=pdefect, beh=beh)


def random_calls(rng, n):
    """Seeded random history.  A rough shadow of what is probably registered
    / stored only steers the choice of targets (it decides nothing)."""
    calls = []
    hot = {"iw": set(), "meth": set()}
    insts = set()
    for i in range(n):
        preg = 0.65 if i < 2 else 0.12
        if rng.random() < preg:
            c = random_reg(rng, valid_bias=0.9 if i < 2 else 0.6)
            calls.append(c)
            if c["ptype"] in hot and c["base"] == c["ptype"] and \
                    c["cn"] in ("str", "list", "tuple"):
                nss = [1] if c["nsarg"] == "none" else c["nss"]
                if c["nsarg"] != "int" and all(x in (1, 2) for x in nss):
                    for x in nss:
                        for t in c["pcls"]:
                            if t in CLSNAME:
                                hot[c["ptype"]].add((x, t))
            continue
        x = rng.random()
        allhot = sorted(hot["iw"] | hot["meth"])
        if x < 0.6 and allhot:
            typ = rng.choice([t for t in ("iw", "meth") if hot[t]])
            tgt = rng.choice(sorted(hot[typ]))
            if typ == "meth":
                k = rng.choice([1, 1, 2])
                here = [r[2] for r in insts if r[:2] == tgt]
                if here and rng.random() < 0.8:
                    k = rng.choice(here)
                if not here and rng.random() < 0.4:
                    c = dict(op="Create", ns=tgt[0], cls=tgt[1], k=k,
                             defect="none", beh="deleg")
                else:
                    c = random_invoke(rng, tgt[0], tgt[1], k)
            else:
                c = random_request(rng, tgt, insts)
                if c["op"] == "Invoke":
                    c = dict(op="Create", ns=tgt[0], cls=tgt[1], k=c["k"],
                             defect="none", beh="deleg")
        elif x < 0.8 and allhot:      # near miss: other namespace / sub- or
            ns, cls = rng.choice(allhot)   # superclass / other provider type
            y = rng.random()
            if y < 0.4:
                ns = 3 - ns
            elif y < 0.8:
                cls = {"A": "B", "B": "A"}.get(cls, cls)
            c = random_request(rng, (ns, cls), insts)
        else:
            c = random_request(rng, None, insts)
        calls.append(c)
        if c["op"] == "Create" and c["defect"] == "none":
            insts.add((c["ns"], c["cls"], 2 if c["beh"] == "rekey" else c["k"]))
    return calls


def signature(ev, clauses):
    """Stable identity of a failure: operation + clauses + what was wrong
    with the call (not the whole history)."""
    s = "%s:%s" % (ev["op"], "+".join(sorted(clauses)))
    if ev["op"] == "Reg":
        tags = []
        if ev["nsarg"] == "int":
            tags.append("namespaces=int")
        if ev["cn"] == "int":
            tags.append("classnames=int")
        if "#int" in ev["pcls"]:
            tags.append("classnames=list-with-int")
        if ev["pragma"]:
            tags.append("pragma+othercase" if ev["anycase"] else "pragma")
        if ev["setupbeh"] != "ok":
            tags.append("setup=" + ev["setupbeh"])
        s += ":" + ",".join(tags) + ":" + (ev["exc"] or "ok")
    else:
        s += ":%s:%s" % (ev.get("defect", ev.get("pdefect", "")),
                         ev["exc"] or "ok")
        if ev["recv"] != 0:
            s += ":beh=" + ev["beh"]
    return s
