"""
Driver for the RepoCore requirement machine (C10, C11 instance part):
concretises abstract calls, runs them on a real FakedWBEMConnection, mutates
every object passed in or handed out (isolation), projects results and a full
dump (through the public API) back to abstract rows.
"""
import copy
import pywbem
from pywbem import (CIMInstance, CIMInstanceName, CIMProperty, CIMError,
                    Uint32, Uint16, Uint8)
import mockrepo
from mockrepo import NS1, NS2

NS_VARIANTS = {1: [NS1, NS1.upper(), "Root/V1"], 2: [NS2, NS2.upper()],
               3: ["root/nonexistent"]}
NSID = {NS1.lower(): 1, NS2.lower(): 2}
CLS_VARIANTS = {"A": ["RA", "ra", "Ra"], "B": ["RB", "rb", "rB"],
                "X": ["RX", "rx"], "Z": ["RZ", "rz"]}
CLSID = {"ra": "A", "rb": "B", "rx": "X"}
EXPOSED = {"A": ("s", "t"), "B": ("s", "t", "u"), "X": ("s",)}
# abstract key 2 is the "falsy" boundary key (0, "")
K2 = {1: "one", 2: ""}
KV = {1: 1, 2: 0}
SVAL = {"v1": "alpha", "v2": "beta"}
TVAL = {"v1": 7, "v2": 9}
UVAL = {"v1": ["ux", "uz"], "v2": []}      # U is declared as string ARRAY
ARRAYPROPS = ("u",)
# legacy names of bad-property classes (old replays) -> shape tokens of
# RepoCore.tla (ShapeTok: <property>_<CIM type>_<sc|ar>_<val|null>)
BAD_ALIAS = {"wrongtype": "s_uint8_sc_val", "wrongnull": "s_uint8_sc_null",
             "wrongarray": "s_string_ar_val"}
BAD_TOKS = ["undeclared"] + [
    "%s_%s_%s_%s" % (on, ty, arr, nul)
    for on in ("s", "u") for ty in ("string", "uint8") for arr in ("sc", "ar")
    for nul in ("val", "null")
    if not (ty == "string" and (arr == "ar") == (on in ARRAYPROPS))]
PNAME = {"s": ["S", "s"], "t": ["T", "t"], "u": ["U", "u"]}
NOVALS = {"s": "unset", "t": "unset", "u": "unset"}


def tok_of(p, value):
    if value is None:
        return "null"
    table = {"s": SVAL, "t": TVAL, "u": UVAL}[p]
    if isinstance(value, (list, tuple)) != (p in ARRAYPROPS):
        return "UNCLASSIFIED"
    for t, v in table.items():
        if value == v:
            return t
    return "UNCLASSIFIED"


def row_of(inst, path=None):
    """Project a CIMInstance (or a path only) to an abstract row."""
    p = path if path is not None else inst.path
    if p is None:
        return dict(ns=-1, cls="?", k=-1, s="UNCLASSIFIED", t="UNCLASSIFIED",
                    u="UNCLASSIFIED")
    ns = NSID.get((p.namespace or "").lower(), -1)
    cls = CLSID.get(p.classname.lower(), "?")
    k = -1
    kb = p.keybindings
    if len(kb) == 2 and "k" in kb and "k2" in kb:
        for i, w in K2.items():
            if kb["k"] == KV[i] and kb["k2"] == w and \
                    not isinstance(kb["k"], bool):
                k = i
    row = dict(ns=ns, cls=cls, k=k)
    exposed = EXPOSED.get(cls, ())
    for pn in ("s", "t", "u"):
        if inst is None:
            row[pn] = "na"
            continue
        if pn in inst.properties:
            row[pn] = tok_of(pn, inst.properties[pn].value)
            if pn not in exposed or \
                    bool(inst.properties[pn].is_array) != (pn in ARRAYPROPS):
                row[pn] = "UNCLASSIFIED"
        else:
            row[pn] = "null" if pn in exposed else "na"
    if inst is not None:
        if inst.classname.lower() != p.classname.lower():
            row["cls"] = "?"
        for pn, prop in inst.properties.items():
            lpn = pn.lower()
            if lpn not in ("s", "t", "u", "k", "k2"):
                row["s"] = "UNCLASSIFIED"
            if lpn == "k" and k in K2 and prop.value != KV[k]:
                row["k"] = -1
            if lpn == "k2" and k in K2 and prop.value != K2[k]:
                row["k"] = -1
    return row


class Driver:
    def __init__(self, rng, mutate=True):
        self.rng = rng
        self.conn = mockrepo.rc_fresh()
        self.events = []
        self.calls = []
        self.mutate = mutate
        self.handed = []        # objects passed in / handed out (for mutation)

    # -- concretisation -----------------------------------------------------
    def ns(self, n):
        return self.rng.choice(NS_VARIANTS[n])

    def cls(self, c):
        return self.rng.choice(CLS_VARIANTS[c])

    def keyb(self, k):
        items = [("K", self.rng.choice([Uint32(KV[k]), KV[k]])),
                 ("K2", K2[k])]
        if self.rng.random() < 0.5:
            items.reverse()
        if self.rng.random() < 0.3:
            items = [(n.lower(), v) for n, v in items]
        return items

    def path(self, n, c, k):
        return CIMInstanceName(self.cls(c), keybindings=self.keyb(k),
                               namespace=self.ns(n))

    def props(self, vals, badprop, c):
        props = []
        for pn, table, typ in (("s", SVAL, "string"), ("t", TVAL, "uint16"),
                               ("u", UVAL, "string")):
            v = vals[pn]
            if v == "unset":
                continue
            name = self.rng.choice(PNAME[pn])
            if v == "null":
                props.append(CIMProperty(name, None, type=typ,
                                         is_array=pn in ARRAYPROPS))
            elif pn == "t":
                props.append(CIMProperty(name, Uint16(table[v])))
            else:
                props.append(CIMProperty(name, copy.copy(table[v]),
                                         type="string",
                                         is_array=pn in ARRAYPROPS))
        if badprop == "undeclared":
            props.append(CIMProperty("ZZ", "zz", type="string"))
        elif badprop != "none":
            # a shape class of RepoCore.tla: property <on> supplied with CIM
            # type <ty>, as scalar/array, with a value or NULL
            on, ty, arr, nul = badprop.split("_")
            props = [p for p in props if p.name.lower() != on]
            item = Uint8(3) if ty == "uint8" else \
                self.rng.choice(["alpha", "ux", ""])
            if arr == "ar":
                value = self.rng.choice([[item], [item, item], []])
            else:
                value = item
            props.append(CIMProperty(self.rng.choice(PNAME[on]),
                                     None if nul == "null" else value,
                                     type=ty, is_array=(arr == "ar")))
        self.rng.shuffle(props)
        return props

    def plist(self, has, pl):
        if not has:
            return None
        out = []
        for p in pl:
            if p == "k":     # the key properties: any non-empty selection
                out += self.rng.choice([["K"], ["K2"], ["K", "K2"],
                                        ["k2", "k"], ["k"]])
            else:
                out.append(self.rng.choice(PNAME[p]))
        return out

    # -- observation -----------------------------------------------------------
    def dump(self):
        rows = []
        for ns in (NS1, NS2):
            for root in ("RA", "RX"):
                for inst in self.conn.EnumerateInstances(
                        root, namespace=ns, DeepInheritance=True):
                    rows.append(row_of(inst))
        return rows

    def _record(self, c, res):
        ev = dict(c)
        ev.update(res)
        ev.setdefault("rk", dict(ns=0, cls="", k=0))
        ev.setdefault("rinsts", [])
        try:
            ev["dump"] = self.dump()
        except Exception as exc:  # noqa: dump impossible => unclassifiable
            ev["dump"] = [dict(ns=-1, cls="DUMPFAILED:" + type(exc).__name__,
                               k=-1, s="na", t="na", u="na")]
        self.events.append(ev)
        return ev

    @staticmethod
    def _err(exc):
        if isinstance(exc, CIMError):
            return dict(ok=False, code=int(exc.status_code))
        return dict(ok=False, code=-2, pyerror=type(exc).__name__)

    # -- client-side mutation of everything we hold (isolation) ---------------
    def mutate_all(self):
        for o in self.handed:
            try:
                if isinstance(o, CIMInstanceName):
                    for kn in list(o.keybindings.keys()):
                        v = o.keybindings[kn]
                        o.keybindings[kn] = "mutated" if isinstance(v, str) \
                            else 77
                    o.classname = "RMutated"
                    o.namespace = "root/mutated"
                elif isinstance(o, CIMInstance):
                    for pn in list(o.properties.keys()):
                        pr = o.properties[pn]
                        if pr.type == "string" and not pr.is_array:
                            pr.value = "mutated"
                        elif pr.type.startswith("uint") and not pr.is_array:
                            pr.value = 55
                        elif isinstance(pr.value, list):
                            pr.value.append("mutated")      # in place
                    o.properties["S"] = CIMProperty("S", "mutated2",
                                                    type="string")
                    o.properties["Extra"] = CIMProperty("Extra", "x",
                                                        type="string")
                    if o.path is not None:
                        self.handed.append(o.path)
                    o.classname = "RMutated"
                elif isinstance(o, list):
                    del o[:]
            except Exception:  # noqa: mutation is best effort
                pass
        self.handed = [o for o in self.handed if isinstance(
            o, CIMInstanceName) and o.classname != "RMutated"]

    # -- operations ----------------------------------------------------------------
    def call(self, c):
        op = c["op"]
        c["badprop"] = BAD_ALIAS.get(c["badprop"], c["badprop"])
        c.setdefault("icls", c["cls"])
        fn = getattr(self, "do_" + op.lower())
        ev = fn(c)
        if self.mutate:
            self.mutate_all()
        return ev

    def do_create(self, c):
        props = self.props(c["vals"], c["badprop"], c["cls"])
        k = c["k"]
        if k:
            kb = self.keyb(k)
            props += [CIMProperty(kb[0][0], kb[0][1], type="uint32"
                                  if kb[0][0].lower() == "k" else "string"),
                      CIMProperty(kb[1][0], kb[1][1], type="uint32"
                                  if kb[1][0].lower() == "k" else "string")]
        else:
            props.append(CIMProperty("K", Uint32(1)))      # K2 missing
        inst = CIMInstance(self.cls(c["cls"]), properties=props)
        nsname = self.ns(c["ns"])
        if k and self.rng.random() < 0.3:
            # an instance as another operation returned it: it carries a
            # path, possibly of ANOTHER namespace; with an explicit namespace
            # argument the path does not matter (assigned after construction,
            # see do_modify)
            inst.path = CIMInstanceName(
                self.cls(c["cls"]), keybindings=self.keyb(k),
                namespace=self.rng.choice([NS1, NS2, nsname, "root/elsewhere"]),
                host=self.rng.choice([None, "h:5988"]))
        self.calls.append("CreateInstance(%r, namespace=%r)" % (inst, nsname))
        self.handed.append(inst)
        try:
            p = self.conn.CreateInstance(inst, namespace=nsname)
            r = row_of(None, p) if isinstance(p, CIMInstanceName) else \
                dict(ns=-1, cls="?", k=-1)
            res = dict(ok=True, code=0, rk=dict(ns=r["ns"], cls=r["cls"],
                                                k=r["k"]))
            self.handed.append(p)
        except Exception as exc:  # noqa
            res = self._err(exc)
        return self._record(c, res)

    def do_modify(self, c):
        props = self.props(c["vals"], c["badprop"], c["cls"])
        if c["kprop"]:
            props.append(CIMProperty("K", Uint32(KV[c["kprop"]])))
            props.append(CIMProperty("K2", K2[c["kprop"]], type="string"))
        path = self.path(c["ns"], c["cls"], c["k"])
        # the path is assigned after construction: the CIMInstance constructor
        # would otherwise overwrite the path's keybindings from key properties
        # the class name of the instance and the class name of its path are
        # concretised independently (lexical case; c["icls"] != c["cls"] is
        # the "really different classes" case of the requirement)
        inst = CIMInstance(self.cls(c["icls"]), properties=props)
        inst.path = path
        pl = self.plist(c["hasplist"], c["plist"])
        self.calls.append("ModifyInstance(%r, PropertyList=%r)" % (inst, pl))
        self.handed += [inst, path] + ([pl] if pl is not None else [])
        try:
            self.conn.ModifyInstance(inst, PropertyList=pl)
            res = dict(ok=True, code=0)
        except Exception as exc:  # noqa
            res = self._err(exc)
        return self._record(c, res)

    def do_delete(self, c):
        path = self.path(c["ns"], c["cls"], c["k"])
        self.calls.append("DeleteInstance(%r)" % (path,))
        self.handed.append(path)
        try:
            self.conn.DeleteInstance(path)
            res = dict(ok=True, code=0)
        except Exception as exc:  # noqa
            res = self._err(exc)
        return self._record(c, res)

    def do_get(self, c):
        path = self.path(c["ns"], c["cls"], c["k"])
        pl = self.plist(c["hasplist"], c["plist"])
        # flags that must not influence the property values returned
        # (LocalOnly is documented as ignored by the mock, DSP0200 deprecates
        # it; qualifiers and class origin are additional information)
        fl = {}
        for name in ("LocalOnly", "IncludeQualifiers", "IncludeClassOrigin"):
            v = self.rng.choice([None, None, True, False])
            if v is not None:
                fl[name] = v
        self.calls.append("GetInstance(%r, PropertyList=%r, %r)" %
                          (path, pl, fl))
        self.handed.append(path)
        try:
            inst = self.conn.GetInstance(path, PropertyList=pl, **fl)
            res = dict(ok=True, code=0, rinsts=[row_of(inst)])
            self.handed.append(inst)
        except Exception as exc:  # noqa
            res = self._err(exc)
        return self._record(c, res)

    def do_enum(self, c):
        pl = self.plist(c["hasplist"], c["plist"])
        cn, nsname = self.cls(c["cls"]), self.ns(c["ns"])
        self.calls.append("EnumerateInstances(%r, namespace=%r, "
                          "DeepInheritance=%r, PropertyList=%r)" %
                          (cn, nsname, c["deep"], pl))
        try:
            fl = {}
            for name in ("LocalOnly", "IncludeQualifiers",
                         "IncludeClassOrigin"):
                v = self.rng.choice([None, None, True, False])
                if v is not None:
                    fl[name] = v
            insts = self.conn.EnumerateInstances(
                cn, namespace=nsname, DeepInheritance=c["deep"],
                PropertyList=pl, **fl)
            res = dict(ok=True, code=0, rinsts=[row_of(i) for i in insts])
            self.handed += list(insts)
        except Exception as exc:  # noqa
            res = self._err(exc)
        return self._record(c, res)

    def do_enumnames(self, c):
        cn, nsname = self.cls(c["cls"]), self.ns(c["ns"])
        self.calls.append("EnumerateInstanceNames(%r, namespace=%r)" %
                          (cn, nsname))
        try:
            paths = self.conn.EnumerateInstanceNames(cn, namespace=nsname)
            res = dict(ok=True, code=0, rinsts=[row_of(None, p) for p in paths])
            self.handed += list(paths)
        except Exception as exc:  # noqa
            res = self._err(exc)
        return self._record(c, res)


def mkcall(op, ns=1, cls="A", k=1, vals=None, badprop="none", kprop=0,
           hasplist=False, plist=(), deep=True, icls=None):
    v = dict(NOVALS)
    if vals:
        v.update(vals)
    return dict(op=op, ns=ns, cls=cls, icls=icls or cls, k=k, vals=v,
                badprop=badprop, kprop=kprop, hasplist=hasplist,
                plist=list(plist), deep=deep)


def random_calls(rng, n):
    calls = []
    for _ in range(n):
        x = rng.random()
        ns = rng.choice([1, 1, 1, 2, 2, 3])
        cls = rng.choice(["A", "A", "B", "B", "X", "Z"])
        k = rng.choice([1, 2])
        tok = lambda: rng.choice(["unset", "null", "v1", "v2"])  # noqa
        vals = dict(s=tok(), t=tok(), u=tok() if cls == "B" or
                    rng.random() < 0.1 else "unset")
        bad = "none" if rng.random() < 0.65 else rng.choice(BAD_TOKS)
        pls = [(), ("s",), ("t",), ("u",), ("s", "t"), ("s", "s", "t"),
               ("t", "u"), ("k",), ("k", "s"), ("t", "k")]
        hp = rng.random() < 0.4
        pl = rng.choice(pls) if hp else ()
        if x < 0.30:
            calls.append(mkcall("Create", ns, cls, rng.choice([0, 1, 1, 2, 2]),
                                vals, bad))
        elif x < 0.50:
            icls = cls if rng.random() < 0.9 else \
                rng.choice(["A", "B", "X", "Z"])
            calls.append(mkcall("Modify", ns, cls, k, vals, bad,
                                rng.choice([0, 0, 0, k, 3 - k]), hp, pl,
                                icls=icls))
        elif x < 0.60:
            calls.append(mkcall("Delete", ns, cls, k))
        elif x < 0.75:
            calls.append(mkcall("Get", ns, cls, k, hasplist=hp, plist=pl))
        elif x < 0.90:
            calls.append(mkcall("Enum", ns, cls, 0, hasplist=hp, plist=pl,
                                deep=rng.random() < 0.5))
        else:
            calls.append(mkcall("EnumNames", ns, cls, 0))
    return calls


def run_calls(rng, calls, mutate=True):
    d = Driver(rng, mutate)
    for c in calls:
        d.call(c)
    return d


def clean_events(events):
    return [{k: v for k, v in e.items() if k != "pyerror"} for e in events]


def signature(ev, clauses):
    s = "%s:%s" % (ev["op"], "+".join(sorted(clauses)))
    if ev.get("pyerror"):
        s += ":" + ev["pyerror"]
        if ev["op"] == "Modify" and ev["hasplist"] and "k" in ev["plist"] \
                and ev["kprop"] == 0:
            s += ":keylisted"    # PropertyList names an unsupplied key
    return s
