"""
C20 helper: concretisation of abstract ValueMap vectors, driving the real
pywbem.ValueMapping, projection of what was observed to monomorphic JSON.

Nothing in here decides the property: the events go to TLC (ValueMapTrace.tla).
"""
import pywbem
from pywbem import (CIMClass, CIMProperty, CIMMethod, CIMParameter,
                    CIMQualifier, CIMQualifierDeclaration, ValueMapping,
                    WBEMServer)
from pywbem_mock import FakedWBEMConnection

TYPES = {
    "uint8": (0, 2**8 - 1), "sint8": (-2**7, 2**7 - 1),
    "uint16": (0, 2**16 - 1), "sint16": (-2**15, 2**15 - 1),
    "uint32": (0, 2**32 - 1), "sint32": (-2**31, 2**31 - 1),
    "uint64": (0, 2**64 - 1), "sint64": (-2**63, 2**63 - 1),
}
TYPE_NAMES = sorted(TYPES)
SMALL = ("uint8", "sint8", "uint16", "sint16")

ANCHORS = {
    "uint32": [0, 2**31, 2**32 - 1],
    "sint32": [-2**31, 0, 2**31 - 1],
    "uint64": [0, 2**31, 2**32, 2**63, 2**64 - 1],
    "sint64": [-2**63, -2**31, 0, 2**31, 2**63 - 1],
}
STEP = 100000      # virtual distance of two anchors
RADIUS = 30000     # |delta| around an anchor that is mapped one to one
NEAR = 1000        # entries and near probes stay within this delta


class Virt:
    """Order- and successor-preserving image of a CIM integer type in TLC's
    32-bit integers.  8/16-bit types: identity.  32/64-bit types: the
    neighbourhoods of the anchors map one to one (anchor j + d -> j*STEP + d),
    any other ("far") number maps to the middle of its gap; far numbers are
    only used as probes, never as entry bounds, so no break point of any
    mapping lies between two far numbers of the same gap."""

    def __init__(self, tname):
        self.tname = tname
        self.tmin, self.tmax = TYPES[tname]
        self.anchors = ANCHORS.get(tname)

    def c2v(self, x):
        if self.anchors is None:
            return x
        best = min(range(len(self.anchors)),
                   key=lambda j: abs(x - self.anchors[j]))
        d = x - self.anchors[best]
        if abs(d) <= RADIUS:
            return best * STEP + d
        j = best if d > 0 else best - 1
        if j < 0:
            return -STEP // 2
        return j * STEP + STEP // 2

    @property
    def vmin(self):
        return self.c2v(self.tmin)

    @property
    def vmax(self):
        return self.c2v(self.tmax)


# ---------------------------------------------------------------------------
# entry texts
# ---------------------------------------------------------------------------

BAD_TEXTS = ["x", "1..2..3", "x..5", "5..y", "08", "0b1", " 5", "", "1 ..2",
             "0x", "B", "5.", "1..2..", "--1", "0x1G", "12a", "1.0", "one",
             "2b2", "09..12"]


# lexeme classes of malformed entries (spec: BadClasses in ValueMap.tla);
# "junk" = BAD_TEXTS, the others are built from a well-formed entry shape
LEX_CLASSES = ("udigit", "nl", "ws", "under")

# zero digits of Unicode decimal digit (category Nd) scripts other than
# US-ASCII: Arabic-Indic, Extended Arabic-Indic, NKo, Devanagari, Bengali,
# Gurmukhi, Tamil, Thai, Lao, Tibetan, Myanmar, Khmer, Mongolian, Fullwidth,
# Mathematical Bold / Double-struck / Monospace
UDIGIT_ZEROS = [0x0660, 0x06F0, 0x07C0, 0x0966, 0x09E6, 0x0A66, 0x0BE6,
                0x0E50, 0x0ED0, 0x0F20, 0x1040, 0x17E0, 0x1810, 0xFF10,
                0x1D7CE, 0x1D7D8, 0x1D7F6]


def udigit_text(n, rng):
    """Decimal text of n in which at least one digit is not US-ASCII."""
    digits = str(abs(n))
    z = rng.choice(UDIGIT_ZEROS)
    if rng.random() < 0.6 or len(digits) == 1:
        out = "".join(chr(z + int(c)) for c in digits)       # one script
    else:
        k = rng.randrange(len(digits))                         # mixed
        out = "".join(chr(z + int(c)) if (i == k or rng.random() < 0.3)
                      else c for i, c in enumerate(digits))
    return ("-" if n < 0 else "") + out


def under_text(n, rng):
    """Decimal digits grouped by '_' (Python int() literal syntax)."""
    digits = str(abs(n))
    if len(digits) == 1:
        digits = "0" + digits
    k = rng.randrange(1, len(digits))
    return ("-" if n < 0 else "") + digits[:k] + "_" + digits[k:]


def octal_has_zero(n):
    return "0" in oct(abs(n))[2:]


def num_text(n, notation, rng):
    """DSP0004 integerValue text of n; returns (text, tag)."""
    sign = "-" if n < 0 else ("+" if rng.random() < 0.15 else "")
    a = abs(n)
    if notation == "bin":
        return sign + bin(a)[2:] + rng.choice("bB"), "bin"
    if notation == "oct":
        digits = oct(a)[2:]
        if a == 0:
            # "0" alone is decimal and octal at once; "00" is octal only
            return sign + "00", "oct0"
        return sign + "0" + digits, ("oct0" if "0" in digits else "oct")
    if notation == "hex":
        h = hex(a)[2:]
        h = "".join(rng.choice((c.upper(), c.lower())) for c in h)
        return sign + "0" + rng.choice("xX") + h, "hex"
    return sign + str(a), "dec"


def pick_notation(n, rng, allow_oct0=False):
    r = rng.random()
    if r < 0.55:
        return "dec"
    if r < 0.70:
        return "bin"
    if r < 0.85:
        return "hex"
    if n != 0 and (allow_oct0 or not octal_has_zero(n)):
        return "oct"
    return "dec"


class Entry:
    """One ValueMap entry: concrete numbers, text, abstract JSON form."""

    def __init__(self, k, lo=0, hi=0, lopen=False, hopen=False, text=None,
                 nt="dec"):
        self.k, self.lo, self.hi = k, lo, hi
        self.lopen, self.hopen = lopen, hopen
        self.text, self.nt = text, nt

    def render(self, rng, force_oct0=False, allow_oct0=False):
        if self.k == "U":
            self.text = ".."
        elif self.k == "BAD" and self.nt in LEX_CLASSES:
            self.text = self._render_lex(rng)
        elif self.k == "BAD":
            self.text = rng.choice(BAD_TEXTS)
            self.nt = "junk"
        else:
            tags = []

            def txt(n):
                no = "oct" if force_oct0 and octal_has_zero(n) else \
                    pick_notation(n, rng, allow_oct0)
                t, tag = num_text(n, no, rng)
                tags.append(tag)
                return t
            if self.k == "S":
                self.text = txt(self.lo)
            else:
                lo = "" if self.lopen else txt(self.lo)
                hi = "" if self.hopen else txt(self.hi)
                self.text = lo + ".." + hi
            self.nt = "oct0" if "oct0" in tags else \
                (tags[0] if len(set(tags)) == 1 else "mix")
        return self

    def _render_lex(self, rng):
        """Malformed text of lexeme class self.nt whose shape (single, closed
        range, open low / high end) and numbers are those of this entry: the
        entry a too lenient reader would take it for."""
        cls = self.nt
        single = not (self.lopen or self.hopen or self.lo != self.hi)
        bounds = [None if self.lopen else self.lo] if single else \
            [None if self.lopen else self.lo, None if self.hopen else self.hi]
        closed = [i for i, b in enumerate(bounds) if b is not None]
        # the offending bound(s): one of the closed bounds, sometimes both
        off = set([rng.choice(closed)])
        if len(closed) == 2 and rng.random() < 0.3:
            off = set(closed)
        texts = []
        for i, b in enumerate(bounds):
            if b is None:
                texts.append("")
            elif cls == "nl" or i not in off:
                texts.append(num_text(b, pick_notation(b, rng), rng)[0])
            elif cls == "udigit":
                texts.append(udigit_text(b, rng))
            elif cls == "under":
                texts.append(under_text(b, rng))
            else:                                   # "ws"
                t = num_text(b, pick_notation(b, rng), rng)[0]
                w = rng.choice([" ", "\t", "  "])
                texts.append(w + t if rng.random() < 0.5 else t + w)
        text = texts[0] if single else texts[0] + ".." + texts[1]
        if cls == "nl":
            text += "\n"
        return text

    def lenient(self):
        return self.k == "BAD" and self.nt in LEX_CLASSES

    def to_json(self, virt):
        plain = self.k in ("U", "BAD") and not self.lenient()
        return {"k": self.k,
                "lo": 0 if (self.lopen or plain) else virt.c2v(self.lo),
                "hi": 0 if (self.hopen or plain) else virt.c2v(self.hi),
                "lopen": bool(self.lopen or self.k == "U"),
                "hopen": bool(self.hopen or self.k == "U"),
                "nt": self.nt}

    def points(self):
        pts = []
        if self.k in ("S", "R"):
            if not self.lopen:
                pts.append(self.lo)
            if not self.hopen:
                pts.append(self.hi)
        return pts


def concretize_abstract(amap, tname, rng):
    """Abstract array from TLC (entries over the points {0,1,3,4,5,15} of the
    abstract 'uint4': 0/1 = type minimum (+1), 15 = type maximum, 3,4,5 = three
    consecutive inner numbers) -> list of Entry for the real type."""
    tmin, tmax = TYPES[tname]
    anchors = ANCHORS.get(tname) or [tmin, 0, tmax]
    has_oct0 = any(e.get("nt") == "oct0" for e in amap)
    for _ in range(200):
        a = rng.choice(anchors)
        c = a + rng.randint(-40, 40)
        if not (tmin + 2 <= c and c + 2 <= tmax - 1):
            continue
        if has_oct0 and not octal_has_zero(c + 1):
            continue
        break
    else:
        c = tmin + 7          # c + 1 = tmin + 8
    pt = {0: tmin, 1: tmin + 1, 3: c, 4: c + 1, 5: c + 2, 15: tmax}
    out = []
    for e in amap:
        k = e["k"]
        if k == "U" or (k == "BAD" and e.get("nt") not in LEX_CLASSES):
            out.append(Entry(k).render(rng))
            continue
        if k == "BAD":
            out.append(Entry(k, 0 if e["lopen"] else pt[e["lo"]],
                             0 if e["hopen"] else pt[e["hi"]],
                             e["lopen"], e["hopen"], nt=e["nt"]).render(rng))
            continue
        ent = Entry(k, 0 if e["lopen"] else pt[e["lo"]],
                    0 if e["hopen"] else pt[e["hi"]],
                    e["lopen"], e["hopen"])
        out.append(ent.render(rng, force_oct0=(e.get("nt") == "oct0")))
    return out


def random_point(tname, rng):
    tmin, tmax = TYPES[tname]
    if tname in ("uint8", "sint8"):
        return rng.choice([tmin, tmin + 1, tmax, tmax - 1, 0, 1,
                           rng.randint(tmin, tmax), rng.randint(tmin, tmax)])
    anchors = ANCHORS.get(tname) or [tmin, 0, tmax]
    while True:
        x = rng.choice(anchors) + rng.choice(
            [0, 1, -1, 2, rng.randint(-30, 30), rng.randint(-NEAR + 5, NEAR - 5)])
        if tmin <= x <= tmax:
            return x


def random_map(tname, rng, maxlen=6):
    """Seeded random ValueMap array from the DSP0004 entry grammar.  Three
    styles: CIM-schema like (ascending, disjoint, reserved ranges, '..'),
    shuffled / overlapping, and anything goes."""
    tmin, tmax = TYPES[tname]
    n = rng.randint(0, maxlen)
    style = rng.choice(["schema", "schema", "mixed", "wild"])
    pts = sorted(set(random_point(tname, rng) for _ in range(2 * n + 2)))
    ents = []
    if style == "schema":
        i = 0
        while len(ents) < n and i < len(pts):
            r = rng.random()
            if r < 0.5 or i + 1 >= len(pts):
                ents.append(Entry("S", pts[i], pts[i]))
                i += 1
            elif r < 0.75:
                ents.append(Entry("R", pts[i], pts[i + 1]))
                i += 2
            elif r < 0.85:
                ents.append(Entry("R", 0, pts[i], lopen=True))
                i += 1
            elif r < 0.95:
                ents.append(Entry("R", pts[i], 0, hopen=True))
                i += 1
            else:
                ents.append(Entry("U"))
        if rng.random() < 0.3:
            ents.append(Entry("U"))
    else:
        for _ in range(n):
            r = rng.random()
            a, b = rng.choice(pts), rng.choice(pts)
            if r < 0.35:
                ents.append(Entry("S", a, a))
            elif r < 0.6:
                if style == "mixed" and a > b:
                    a, b = b, a
                ents.append(Entry("R", a, b))
            elif r < 0.75:
                ents.append(Entry("R", 0, a, lopen=True))
            elif r < 0.9:
                ents.append(Entry("R", a, 0, hopen=True))
            elif r < 0.97 or style == "mixed":
                ents.append(Entry("U"))
            elif rng.random() < 0.4:
                ents.append(Entry("BAD"))
            else:
                # malformed entry of a lexeme class, any shape
                sh = rng.randrange(4)
                if a > b:
                    a, b = b, a
                ents.append(Entry("BAD", 0 if sh == 2 else a,
                                  0 if sh == 3 else (a if sh == 0 else b),
                                  lopen=(sh == 2), hopen=(sh == 3),
                                  nt=rng.choice(LEX_CLASSES)))
        if style == "mixed" and rng.random() < 0.5:
            rng.shuffle(ents)
    allow = rng.random() < 0.04
    return [e.render(rng, allow_oct0=allow) for e in ents]


# ---------------------------------------------------------------------------
# probes
# ---------------------------------------------------------------------------

def probes_for(tname, ents, nvals, rng, full):
    tmin, tmax = TYPES[tname]
    if full or tname in ("uint8", "sint8"):
        return list(range(tmin, tmax + 1))
    anchors = ANCHORS.get(tname) or [tmin, 0, tmax]
    base = set(anchors) | {0, nvals, nvals - 1}
    for e in ents:
        base.update(e.points())
    ps = set()
    for b in base:
        for d in (-2, -1, 0, 1, 2):
            ps.add(b + d)
    for _ in range(6):
        ps.add(random_point(tname, rng))
    for _ in range(3):
        ps.add(rng.randint(tmin, tmax))          # far points
    return sorted(p for p in ps if tmin <= p <= tmax)


# ---------------------------------------------------------------------------
# the real code
# ---------------------------------------------------------------------------

class Repo:
    """One FakedWBEMConnection whose classes C20Base / C20Sub are replaced for
    every vector (GetClass with inheritance resolution, qualifier
    declarations present)."""

    NS = "root/c20"

    def __init__(self):
        self.conn = FakedWBEMConnection(default_namespace=self.NS)
        scopes = {"PROPERTY": True, "METHOD": True, "PARAMETER": True}
        self.conn.add_cimobjects([
            CIMQualifierDeclaration("ValueMap", "string", is_array=True,
                                    scopes=scopes),
            CIMQualifierDeclaration("Values", "string", is_array=True,
                                    scopes=scopes, translatable=True)],
            namespace=self.NS)
        self.have = []

    def install(self, classes):
        for name in reversed(self.have):
            self.conn.DeleteClass(name, namespace=self.NS)
        self.have = []
        for c in classes:
            self.conn.add_cimobjects([c], namespace=self.NS)
            self.have.append(c.classname)


class Direct:
    """Minimal connection object: only GetClass (for_* only needs that)."""

    def __init__(self, cls):
        self.cls = cls

    def GetClass(self, ClassName, namespace=None, **kw):  # noqa: N802,N803
        return self.cls.copy()


def _case(name, rng):
    return "".join(rng.choice((c.upper(), c.lower())) for c in name)


def build_case(tname, ents, hasmap, vals, dflt, rng, full=False, hasvals=True):
    """A replayable concrete case (plain JSON)."""
    return {
        "type": tname,
        "map": [e.text for e in ents] if hasmap else None,
        "ents": [[e.k, e.lo, e.hi, bool(e.lopen), bool(e.hopen), e.nt]
                 for e in ents] if hasmap else [],
        "vals": list(vals) if hasvals else None,
        "dflt": dflt,
        "kind": rng.choice(["property", "method", "parameter"]),
        "array": rng.random() < 0.3,
        "via": rng.choice(["mock", "mock", "mock-sub", "server", "direct"]),
        "cimint": rng.random() < 0.5,
        "listcall": rng.random() < 0.3,
        "full": bool(full),
        "pseed": rng.randint(0, 2**30),
        "extra_q": rng.random() < 0.5,
    }


def run_case(case, repo, rng_mod):
    """Drive the real code for one case; returns the event for TLC plus a
    human-readable record."""
    import random
    rng = random.Random(case["pseed"])
    tname = case["type"]
    virt = Virt(tname)
    ents = [Entry(k, lo, hi, lopen, hopen, nt=nt)
            for k, lo, hi, lopen, hopen, nt in case["ents"]]
    hasmap = case["map"] is not None
    hasvals = case["vals"] is not None
    vals = case["vals"] or []
    quals = []
    if hasmap:
        quals.append(CIMQualifier("ValueMap", list(case["map"]), type="string"))
    if hasvals:
        quals.append(CIMQualifier("Values", list(vals), type="string"))
    if rng.random() < 0.5:
        quals.reverse()
    kind = case["kind"]
    arr = case["array"]
    if kind == "property":
        el = CIMProperty("Prop", None, type=tname, is_array=arr,
                         qualifiers=quals)
        base = CIMClass("C20Base", properties=[el])
    elif kind == "method":
        el = CIMMethod("Meth", return_type=tname, qualifiers=quals)
        base = CIMClass("C20Base", methods=[el])
    else:
        par = CIMParameter("Par", type=tname, is_array=arr, qualifiers=quals)
        el = CIMMethod("Meth", return_type="uint32", parameters=[par])
        base = CIMClass("C20Base", methods=[el])
    via = case["via"]
    cname = "C20Base"
    if via == "direct":
        server = Direct(base)
        ns = "root/x"
    else:
        classes = [base]
        if via == "mock-sub":
            classes.append(CIMClass("C20Sub", superclass="C20Base"))
            cname = "C20Sub"
        repo.install(classes)
        server = WBEMServer(repo.conn) if via == "server" else repo.conn
        ns = None if (via == "mock" and kind != "method" and
                      rng.random() < 0.3) else Repo.NS
    cname = _case(cname, rng)
    args = {"values_default": case["dflt"]} if case["dflt"] is not None else {}
    ctor = "ok"
    exc_text = ""
    vm = None
    try:
        if kind == "property":
            vm = ValueMapping.for_property(server, ns, cname,
                                           _case("Prop", rng), **args)
        elif kind == "method":
            vm = ValueMapping.for_method(server, ns, cname,
                                         _case("Meth", rng), **args)
        else:
            vm = ValueMapping.for_parameter(server, ns, cname,
                                            _case("Meth", rng),
                                            _case("Par", rng), **args)
    except Exception as exc:  # noqa: every exception type is an observation
        ctor = type(exc).__name__
        exc_text = str(exc)[:200]

    ev = {"tmin": virt.vmin, "tmax": virt.vmax, "zero": virt.c2v(0),
          "hasmap": hasmap, "map": [e.to_json(virt) for e in ents],
          "hasvals": hasvals, "vals": list(vals),
          "hasdflt": case["dflt"] is not None,
          "dflt": case["dflt"] if case["dflt"] is not None else "",
          "ctor": ctor, "tv": [], "tb": [], "items": [], "items2": []}
    info = {"exc": exc_text, "nprobes": 0}
    if vm is None:
        return ev, info
    qs = []
    for s in list(vals) + [ev["dflt"], "no such string"] + \
            list(case.get("queries") or []):
        if s not in qs:
            qs.append(s)
    observe(vm, ev, info, tname, ents, len(vals), qs, case, rng, virt)
    return ev, info


def observe(vm, ev, info, tname, ents, nvals, qs, case, rng, virt):
    """Everything that is observed on a created ValueMapping: tovalues for
    every probe, tobinary for the strings qs, items(); written into ev."""
    # tovalues for every probe
    probes = probes_for(tname, ents, nvals, rng, case["full"])
    info["nprobes"] = len(probes)
    cimtype = pywbem.type_from_name(tname)
    results = None
    if case["listcall"]:
        try:
            arg = [cimtype(p) for p in probes] if case["cimint"] else probes
            if rng.random() < 0.5:
                arg = tuple(arg)
            r = vm.tovalues(arg)
            if isinstance(r, list) and len(r) == len(probes):
                results = [_proj_tv(x) for x in r]
        except Exception:   # a single failing value fails the list call
            results = None
    if results is None:
        results = []
        for p in probes:
            try:
                r = vm.tovalues(cimtype(p) if case["cimint"] else p)
                results.append(_proj_tv(r))
            except Exception as exc:  # noqa
                results.append((False, type(exc).__name__))
    ev["tv"] = _rle(probes, results, virt)

    # tobinary for every Values string, the default and a foreign string
    for s in qs:
        rec = {"s": s, "k": "E", "lo": 0, "hi": 0, "x": ""}
        try:
            rec.update(_proj_bin(vm.tobinary(s), virt))
        except Exception as exc:  # noqa
            rec["x"] = type(exc).__name__
        ev["tb"].append(rec)

    # items(), twice: reading the object does not change it
    for field in ("items", "items2"):
        try:
            for it in vm.items():
                b, s = it
                rec = {"s": s if isinstance(s, str)
                       else "UNCLASSIFIED:%r" % (s,),
                       "k": "E", "lo": 0, "hi": 0}
                rec.update(_proj_bin(b, virt))
                ev[field].append(rec)
        except Exception as exc:  # noqa
            ev[field].append({"s": "UNCLASSIFIED:items raised %s" %
                              type(exc).__name__, "k": "E", "lo": 0,
                              "hi": 0})


# ---------------------------------------------------------------------------
# histories: several value mappings created from ONE class object
# ---------------------------------------------------------------------------

class Kept:
    """Connection stub of a caller that keeps the class object: GetClass
    hands out that very object every time."""

    def __init__(self, cls):
        self.cls = cls

    def GetClass(self, ClassName, namespace=None, **kw):  # noqa: N802,N803
        return self.cls


class CachingConn(FakedWBEMConnection):
    """A connection with a class cache in front of the (mock) server: the
    first GetClass of a class goes to the server, later ones are answered
    with the cached object."""

    def __init__(self, *args, **kw):
        super().__init__(*args, **kw)
        self.class_cache = {}

    def GetClass(self, ClassName, namespace=None, **kw):  # noqa: N802,N803
        key = ((namespace or self.default_namespace).lower(),
               str(ClassName).lower())
        if key not in self.class_cache:
            self.class_cache[key] = super().GetClass(
                ClassName, namespace=namespace, **kw)
        return self.class_cache[key]


HIST_VIAS = ["kept", "kept", "caching-mock", "caching-server", "fresh-mock"]


def build_hist_case(plan, val_words, rng):
    """Plan from TLC ([decl |-> <<element..>>, acts |-> <<[el, hasdflt,
    dflt]..>>]) -> replayable concrete history (plain JSON)."""
    kinds = rng.sample(["property", "method", "parameter"], len(plan["decl"]))
    words = rng.sample(val_words, 8)
    dmap = {"d1": "Default/%s" % words[6], "d2": "Default/%s" % words[7],
            "": ""}
    els = []
    for d, kind in zip(plan["decl"], kinds):
        tname = rng.choice(TYPE_NAMES)
        ents = concretize_abstract(d["map"], tname, rng)
        els.append({
            "type": tname, "kind": kind,
            "array": kind != "method" and rng.random() < 0.3,
            "map": [e.text for e in ents],
            "ents": [[e.k, e.lo, e.hi, bool(e.lopen), bool(e.hopen), e.nt]
                     for e in ents],
            "vals": ["%s#%d" % (words[i], i) for i in range(len(d["vals"]))],
        })
    return {
        "els": els,
        "acts": [{"el": a["el"], "dflt": dmap[a["dflt"]] if a["hasdflt"]
                  else None} for a in plan["acts"]],
        "via": rng.choice(HIST_VIAS),
        "cimint": rng.random() < 0.5,
        "listcall": rng.random() < 0.3,
        "full": False,
        "pseed": rng.randint(0, 2**30),
    }


def _hist_class(hc):
    props, meths = [], []
    mq, mtype, pars = [], "uint32", []
    for el in hc["els"]:
        quals = [CIMQualifier("ValueMap", list(el["map"]), type="string"),
                 CIMQualifier("Values", list(el["vals"]), type="string")]
        if el["kind"] == "property":
            props.append(CIMProperty("Prop", None, type=el["type"],
                                     is_array=el["array"], qualifiers=quals))
        elif el["kind"] == "method":
            mq, mtype = quals, el["type"]
        else:
            pars.append(CIMParameter("Par", type=el["type"],
                                     is_array=el["array"], qualifiers=quals))
    meths.append(CIMMethod("Meth", return_type=mtype, parameters=pars,
                           qualifiers=mq))
    return CIMClass("C20Hist", properties=props, methods=meths)


def _element_of(cls, kind):
    try:
        if kind == "property":
            return cls.properties["Prop"]
        if kind == "method":
            return cls.methods["Meth"]
        return cls.methods["Meth"].parameters["Par"]
    except KeyError:
        return None


def _snapshot(cls, hc):
    """The ValueMap / Values qualifiers of every element as they are on the
    class object now."""
    out = []
    for el in hc["els"]:
        obj = _element_of(cls, el["kind"]) if cls is not None else None
        rec = {"hasmap": False, "maptext": [], "hasvals": False, "vals": []}
        if obj is not None:
            for qn, hk, vk in (("ValueMap", "hasmap", "maptext"),
                               ("Values", "hasvals", "vals")):
                q = obj.qualifiers.get(qn, None)
                if q is not None:
                    rec[hk] = True
                    rec[vk] = [x if isinstance(x, str) else
                               "UNCLASSIFIED:%r" % (x,)
                               for x in (q.value or [])]
        out.append(rec)
    return out


def run_hist_case(hc):
    """Drive one history on the real code; returns the trace for TLC
    (Declare + one Create event per factory call) and readable records."""
    import random
    rng = random.Random(hc["pseed"])
    cls = _hist_class(hc)
    via = hc["via"]
    ns = Repo.NS
    if via == "kept":
        conn = Kept(cls)
        server = conn

        def current():
            return cls
    else:
        klass = FakedWBEMConnection if via == "fresh-mock" else CachingConn
        conn = klass(default_namespace=ns)
        scopes = {"PROPERTY": True, "METHOD": True, "PARAMETER": True}
        conn.add_cimobjects([
            CIMQualifierDeclaration("ValueMap", "string", is_array=True,
                                    scopes=scopes),
            CIMQualifierDeclaration("Values", "string", is_array=True,
                                    scopes=scopes, translatable=True),
            cls], namespace=ns)
        server = WBEMServer(conn) if via == "caching-server" else conn

        def current():
            return conn.GetClass("C20Hist", namespace=ns, LocalOnly=False,
                                 IncludeQualifiers=True)
    virts = [Virt(el["type"]) for el in hc["els"]]
    entss = [[Entry(k, lo, hi, lopen, hopen, nt=nt)
              for k, lo, hi, lopen, hopen, nt in el["ents"]]
             for el in hc["els"]]
    blank = {"op": "", "el": 0, "decl": [], "hasdflt": False, "dflt": "",
             "ctor": "", "tv": [], "tb": [], "items": [], "items2": [],
             "after": [],
             "judgeobj": True}
    decl = []
    for el, virt, ents in zip(hc["els"], virts, entss):
        decl.append({"tmin": virt.vmin, "tmax": virt.vmax,
                     "zero": virt.c2v(0), "hasmap": True,
                     "map": [e.to_json(virt) for e in ents],
                     "maptext": list(el["map"]), "hasvals": True,
                     "vals": list(el["vals"])})
    trace = [dict(blank, op="Declare", decl=decl)]
    infos = []
    dstrings = []
    for a in hc["acts"]:
        if a["dflt"] is not None and a["dflt"] not in dstrings:
            dstrings.append(a["dflt"])
    for a in hc["acts"]:
        i = a["el"] - 1
        el, virt, ents = hc["els"][i], virts[i], entss[i]
        args = {"values_default": a["dflt"]} if a["dflt"] is not None else {}
        ev = dict(blank, op="Create", el=a["el"],
                  hasdflt=a["dflt"] is not None,
                  dflt=a["dflt"] if a["dflt"] is not None else "",
                  ctor="ok", tv=[], tb=[], items=[], items2=[])
        info = {"exc": "", "nprobes": 0}
        vm = None
        try:
            if el["kind"] == "property":
                vm = ValueMapping.for_property(server, ns, "C20Hist",
                                               _case("Prop", rng), **args)
            elif el["kind"] == "method":
                vm = ValueMapping.for_method(server, ns, "C20Hist",
                                             _case("Meth", rng), **args)
            else:
                vm = ValueMapping.for_parameter(server, ns, "C20Hist",
                                                _case("Meth", rng),
                                                _case("Par", rng), **args)
        except Exception as exc:  # noqa: every exception type is an observation
            ev["ctor"] = type(exc).__name__
            info["exc"] = str(exc)[:200]
        if vm is not None:
            qs = []
            for s in list(el["vals"]) + dstrings + ["no such string"]:
                if s not in qs:
                    qs.append(s)
            observe(vm, ev, info, el["type"], ents, len(el["vals"]), qs, hc,
                    rng, virt)
        try:
            ev["after"] = _snapshot(current(), hc)
        except Exception as exc:  # noqa
            ev["after"] = [{"hasmap": False, "maptext": [], "hasvals": False,
                            "vals": ["UNCLASSIFIED:%s" % type(exc).__name__]}]
        trace.append(ev)
        infos.append(info)
    return trace, infos


def _proj_tv(r):
    if isinstance(r, str):
        return (True, r)
    return (True, "UNCLASSIFIED:%r" % (r,))


def _is_int(x):
    return isinstance(x, int) and not isinstance(x, bool)


def _proj_bin(b, virt):
    if b is None:
        return {"k": "N", "lo": 0, "hi": 0}
    if _is_int(b):
        v = virt.c2v(int(b))
        return {"k": "S", "lo": v, "hi": v}
    if isinstance(b, tuple) and len(b) == 2 and _is_int(b[0]) and _is_int(b[1]):
        return {"k": "R", "lo": virt.c2v(int(b[0])), "hi": virt.c2v(int(b[1]))}
    return {"k": "UNCLASSIFIED:%r" % (b,), "lo": 0, "hi": 0}


def _rle(probes, results, virt):
    """Run-length encode <probe, result> over consecutive integers."""
    segs = []
    prev = None
    for p, (ok, s) in zip(probes, results):
        v = virt.c2v(p)
        if (segs and prev is not None and p == prev + 1 and
                segs[-1]["ok"] == ok and segs[-1]["s"] == s and
                v == segs[-1]["hi"] + 1):
            segs[-1]["hi"] = v
        else:
            segs.append({"lo": v, "hi": v, "ok": ok, "s": s})
        prev = p
    return segs


# ---------------------------------------------------------------------------
# descriptive features (for signatures only)
# ---------------------------------------------------------------------------

def features(case):
    f = []
    ents = case["ents"]
    n = len(ents) if case["map"] is not None else len(case["vals"] or [])
    nv = len(case["vals"] or [])
    if case["vals"] is None:
        f.append("no-Values")
    if case["map"] is None:
        f.append("no-ValueMap")
    if case["dflt"] is not None and nv > n:
        f.append("values-longer+default")
    if case["dflt"] is not None and nv < n:
        f.append("values-shorter+default")
    if case["dflt"] is None and nv != n:
        f.append("size-mismatch")
    for i in range(len(ents) - 1):
        a, b = ents[i], ents[i + 1]
        if a[0] == "R" and a[4] and b[0] == "R" and b[3]:
            f.append("adjacent-open-ends")
        if (a[0] == "R" and a[4] and b[0] == "U") or \
                (a[0] == "U" and b[0] == "R" and b[3]):
            f.append("open-end-next-to-unclaimed")
    if any(e[5] == "oct0" for e in ents):
        f.append("octal-with-digit-0")
    if any(e[0] == "BAD" for e in ents):
        f.append("bad-entry")
    out = []
    for x in f:
        if x not in out:
            out.append(x)
    return out


RELEVANT = {
    "IndexError": ["values-longer+default", "values-shorter+default"],
    "RecursionError": ["adjacent-open-ends", "open-end-next-to-unclaimed"],
    "ModelError": ["octal-with-digit-0", "adjacent-open-ends",
                   "open-end-next-to-unclaimed"],
}


def shape_tag(case, ctor):
    fs = features(case)
    for x in RELEVANT.get(ctor, []):
        if x in fs:
            return x
    if ctor == "ok":
        bad = sorted(set(e[5] for e in case["ents"] if e[0] == "BAD"))
        if bad:
            return "bad-entry-accepted:" + "+".join(bad)
        return "lookup"
    return "-"
