"""
C17 helper: concretisation of abstract request classes into raw bytes, a real
WBEMListener on a loopback socket, a minimal own HTTP response reader and the
projection of what came back to the monomorphic observation record judged by
spec/ListenerHttpReq.tla.

Nothing here decides the property; the only "oracles" used on the Python side
are for CONCRETISATION (is this mutated body really ill-formed for expat?) and
the projection is deliberately dumb (regular expressions for the HTTP grammar,
xml.etree/expat for the body; never pywbem's own reader).
"""
import logging
import re
import socket
import sys
import threading
import time
import xml.etree.ElementTree as ET
import xml.parsers.expat

import pywbem
from pywbem import _cim_xml as X

DIMS = ("verb", "accept", "charset", "range", "ctype", "cenc", "clen", "body",
        "lpos", "lex")
VALID = dict(verb="POST", accept="ok", charset="ok", range="absent",
             ctype="ok", cenc="ok", clen="ok", body="validExport",
             lpos="none", lex="none")

KNOWN_VERBS = ["GET", "HEAD", "PUT", "DELETE", "OPTIONS", "TRACE", "CONNECT",
               "PATCH", "M_POST"]
UNKNOWN_VERBS = ["FOO", "M-POST", "post", "PROPFIND", "Post", "REPORT"]

T_HANG = 8.0        # watchdog: no byte and the handler is not reading
T_DRAIN = 10.0      # after the first byte: time to reach EOF
T_DELIVER = 8.0     # callback thread catches up


def cls_of(t):
    return dict(zip(DIMS, t))


def tup_of(c):
    return tuple(c[d] for d in DIMS)


def deviations(c):
    return [d for d in DIMS if c[d] != VALID[d]]


# ----------------------------------------------------------------------------
# concretisation
# ----------------------------------------------------------------------------

def casevar(rng, name):
    return rng.choice([name, name.lower(), name.upper()])


_IDCHARS = ["a", "Z", "7", "-", "_", ".", ":", " ", "<", ">", "&", '"', "'",
            "ä", "€", "Ā", "\U0001F600", "/", "=", ";", "%"]


def random_msgid(rng):
    # no TAB/CR/LF: attribute-value normalisation of those is C01's business
    n = rng.randint(1, 10)
    s = "".join(rng.choice(_IDCHARS) for _ in range(n)).strip()
    return s or "m1"


def random_instance(rng, marker):
    props = [pywbem.CIMProperty("Sender", marker, type="string")]
    pool = [
        lambda: pywbem.CIMProperty("Seq", pywbem.Uint32(rng.randint(0, 2**32 - 1))),
        lambda: pywbem.CIMProperty("Txt", rng.choice(
            ["", "x", "a<b&c>d", "ä€\U0001F600", "]]>", "  sp  ",
             "line1 line2"]), type="string"),
        lambda: pywbem.CIMProperty("Flag", rng.choice([True, False])),
        lambda: pywbem.CIMProperty("Nul", None, type="string"),
        lambda: pywbem.CIMProperty("When", pywbem.CIMDateTime(
            "20260925120000.000000+000")),
        lambda: pywbem.CIMProperty("Arr", [pywbem.Sint16(-1), pywbem.Sint16(5)]),
        lambda: pywbem.CIMProperty("SArr", ["a", "b&"], type="string"),
        lambda: pywbem.CIMProperty("R", pywbem.Real64(1.5)),
        lambda: pywbem.CIMProperty("Emb", pywbem.CIMInstance(
            "VTest_Inner", properties={"K": "v<&"}), embedded_object="instance"),
        lambda: pywbem.CIMProperty("Big", pywbem.Uint64(2**64 - 1)),
        lambda: pywbem.CIMProperty("Long", "y" * rng.choice([100, 5000, 60000]),
                                   type="string"),
    ]
    for mk in rng.sample(pool, rng.randint(0, 4)):
        props.append(mk())
    rng.shuffle(props)
    cn = rng.choice(["VTest_Indication", "CIM_AlertIndication",
                     "vtest_indication"])
    return pywbem.CIMInstance(cn, properties=props)


def export_body(rng, marker, msgid, method="ExportIndication", params=None,
                dtd=None, cim=None, proto=None, raw_params=None,
                splice=None, subst=None):
    """`splice`: literal XML put in front of the other children of the
    indication instance (a lexeme class at a converted position);
    `subst`: {placeholder attribute text: literal replacement} applied to the
    serialised message (strings the request writer of pywbem itself might
    refuse or re-spell are written by the harness)"""
    inst = random_instance(rng, marker)
    if raw_params is None:
        if params is None:
            params = [("NewIndication", inst)]
        pv = [X.EXPPARAMVALUE(n, v.tocimxml() if v is not None else None)
              for n, v in params]
    else:
        pv = []
    msg = X.CIM(X.MESSAGE(X.SIMPLEEXPREQ(X.EXPMETHODCALL(method, pv)),
                          msgid,
                          proto if proto is not None else rng.choice(["1.0", "1.2", "1.4"])),
                cim if cim is not None else rng.choice(["2.0", "2.3"]),
                dtd if dtd is not None else rng.choice(["2.0", "2.4", "2.3.1"]))
    s = msg.toxml()
    if raw_params is not None:
        # splice literal parameter XML into the (empty) EXPMETHODCALL
        a = '<EXPMETHODCALL NAME="%s"/>' % method
        assert a in s, s[:300]
        s = s.replace(a, '<EXPMETHODCALL NAME="%s">%s</EXPMETHODCALL>' %
                      (method, raw_params))
    if splice is not None:
        m = re.search(r'<INSTANCE CLASSNAME="[^"]*">', s)
        assert m, s[:300]
        s = s[:m.end()] + splice + s[m.end():]
    for old, new in (subst or {}).items():
        assert s.count(old) == 1, (old, s[:400])
        s = s.replace(old, new)
    if rng.random() < 0.5:
        s = '<?xml version="1.0" encoding="utf-8" ?>\n' + s
    return s


# ----------------------------------------------------------------------------
# lexeme classes at the positions the CIM-XML reader converts
# (spec/ListenerHttpReq.tla: LexAt; the classes come from TLC, this part only
# writes down members of each class)
# ----------------------------------------------------------------------------

NUMT = ["uint8", "uint16", "uint32", "uint64", "sint8", "sint16", "sint32",
        "sint64", "real32", "real64"]
INTT = NUMT[:8]
OTHERT = ["string", "boolean", "datetime", "char16"]
INT_RANGE = {"uint8": (0, 2**8 - 1), "uint16": (0, 2**16 - 1),
             "uint32": (0, 2**32 - 1), "uint64": (0, 2**64 - 1),
             "sint8": (-2**7, 2**7 - 1), "sint16": (-2**15, 2**15 - 1),
             "sint32": (-2**31, 2**31 - 1), "sint64": (-2**63, 2**63 - 1)}


def xattr(v):
    """attribute value, double-quoted; TAB/CR/LF as character references (a
    literal one would be normalised to a blank)"""
    out = []
    for ch in v:
        if ch == "&":
            out.append("&amp;")
        elif ch == "<":
            out.append("&lt;")
        elif ch == ">":
            out.append("&gt;")
        elif ch == '"':
            out.append("&quot;")
        elif ch in "\t\n\r":
            out.append("&#%d;" % ord(ch))
        else:
            out.append(ch)
    return '"%s"' % "".join(out)


def xtext(v):
    return v.replace("&", "&amp;").replace("<", "&lt;") \
            .replace(">", "&gt;").replace("\r", "&#13;")


def lex_typename(rng, lex, m):
    num = rng.choice(NUMT)
    if lex == "unknown":
        return rng.choice(["foo", "x" + m, "integer", "float", "number",
                           "object", "instance", "str", "int", "bit"])
    if lex == "numSuffix":
        return num + rng.choice(["x", "s", "0", "_t", m, "[]", ".0", "-",
                                 "y" * 300, "é", "Ā"])
    if lex == "numTrailSp":
        return num + rng.choice([" ", "  ", "\t", "\r", " \t ", "\n ", "\n\n",
                                 "\r\n ", "\n\r"])
    if lex == "numTrailNl":
        return num + "\n"
    if lex == "numPrefix":
        return rng.choice(["x", "u", "_", m, "0", "é"]) + num
    if lex == "numLeadSp":
        return rng.choice([" ", "\t", "\n", "\r\n", "  "]) + num
    if lex == "otherSuffix":
        return rng.choice(OTHERT) + rng.choice(["x", "s", " ", "\n", m, "16",
                                                "[]"])
    if lex == "badWidth":
        return rng.choice(["uint", "sint", "real", "uint128", "sint24",
                           "real16", "uint7", "uint1", "sint3", "real6",
                           "uint08"])
    if lex == "upper":
        return rng.choice(["UINT8", "Uint8", "String", "BOOLEAN", "DateTime",
                           "Real32", "sINT16", "CHAR16"])
    if lex == "empty":
        return ""
    if lex == "reference":
        return "reference"
    if lex == "nonLatin":
        return rng.choice(["Ā" + m, "üint8", "uint８", "strinġ", "€"])
    raise ValueError("typename lexeme %r" % lex)


def lex_number(rng, lex, m, typ):
    """typ: integer type name | real32 | real64 | None (untyped key)"""
    lo, hi = INT_RANGE.get(typ, (-2**31, 2**31 - 1))
    small = rng.randint(0, min(hi, 127))
    hexs = rng.choice(["0x%X", "0X%x", "0x%x", "0x0%X"]) % small
    if lex == "hex":
        return hexs
    if lex == "hexPlus":
        return "+" + hexs
    if lex == "decPlus":
        return "+%d" % small
    if lex == "hexSuffix":
        return hexs + rng.choice(["Z", "g", "h", "x", "L", "p3", ".5", m,
                                  " x", "é"])
    if lex == "hexPrefix":
        return rng.choice(["Z", "x", "#", "$", "0", "=", m]) + hexs
    if lex == "hexNoDigits":
        return rng.choice(["0x", "0X", "+0x", "x1F", "0xg", "0x" + m])
    if lex == "hexHuge":
        return rng.choice(["", "+", "-"]) + "0x" + \
            "F" * rng.choice([300, 400, 5000])
    if lex == "decSuffix":
        return "%d" % small + rng.choice(["abc", "x", "L", "u", "e", "f", "%",
                                          m, "d", "j", "é"])
    if lex == "decPrefix":
        return rng.choice(["abc", "x", "#", "$", "=", "'", m]) + "%d" % small
    if lex == "empty":
        return rng.choice(["", "", " ", "\n"])
    if lex == "innerSpace":
        return rng.choice(["1 2", "1\t2", "0x 1F", "- 5", "+ 5", "1 000"])
    if lex == "word":
        return rng.choice(["abc", m, "one", "true", "null", "None", "zero"])
    if lex == "doubleSign":
        return rng.choice(["--5", "+-5", "++5", "-+0x1", "--0x1", "+-0"])
    if lex == "outOfRange":
        return str(rng.choice([hi + 1, lo - 1, hi + 1000, 2**64, -2**63 - 1,
                               10**30]))
    if lex == "hugeDec":
        return rng.choice(["", "-", "+"]) + \
            rng.choice("123456789") * rng.choice([310, 400, 4000])
    if lex == "hugeDecX":
        return rng.choice(["", "-"]) + "9" * rng.choice([4301, 5000, 20000])
    if lex == "fraction":
        return rng.choice(["1.5", "0.25", "3.0", "12.75", "+1.5"])
    if lex == "bareDot":
        return rng.choice(["1.", ".5", "7.", "+.5"])
    if lex == "exponent":
        return rng.choice(["1.5e1", "2.0E0", "1.0e+1", "1.25e2", "5.0e-1"])
    if lex == "hugeExp":
        return rng.choice(["1e400", "-1e999", "1.0e309", "1E5000"])
    if lex == "nan":
        return rng.choice(["NaN", "nan", "NAN"])
    if lex == "inf":
        return rng.choice(["Inf", "-Inf", "infinity", "INF", "+inf"])
    if lex == "underscore":
        return rng.choice(["1_0", "1_1", "0_7", "1_2_3"])
    if lex == "uniDigits":
        return rng.choice(["١٢", "１２", "٣", "७"])
    if lex == "otherBase":
        return rng.choice(["0b11", "0o7", "0B1", "0O17", "1e", "0b"])
    if lex == "leadingZero":
        return rng.choice(["010", "007", "00", "+01"])
    if lex == "padded":
        return rng.choice([" 12 ", "\n7\t", "  0x1F", "5 ", "\r\n3"])
    if lex == "nlInside":
        return rng.choice(["1\n2", "0x1\nF", "12\nX-Injected-%s: 1" % m,
                           "1\r\n\r\n2"])
    if lex == "nonLatin":
        return rng.choice(["Ā", "1Ā", "€5", "Ā" + m])
    raise ValueError("number lexeme %r" % lex)


def lex_boolean(rng, lex, m):
    if lex == "upper":
        return rng.choice(["TRUE", "FALSE", "True", "fAlSe"])
    if lex == "padded":
        return rng.choice([" true ", "\nfalse\t", "true ", "  FALSE"])
    if lex == "empty":
        return rng.choice(["", "", " "])
    if lex == "word":
        return rng.choice(["yes", "no", "on", "off", m, "null"])
    if lex == "digit":
        return rng.choice(["1", "0"])
    if lex == "suffix":
        return rng.choice(["truex", "falsey", "true1", "true" + m, "false."])
    if lex == "prefix":
        return rng.choice(["xtrue", "untrue", "0false", m + "true", "!true"])
    if lex == "abbrev":
        return rng.choice(["t", "f", "tru", "fals", "T"])
    if lex == "two":
        return rng.choice(["true false", "true true", "true,false",
                           "true\nfalse"])
    if lex == "nonLatin":
        return rng.choice(["trüe", "Ā", "falsĕ"])
    raise ValueError("boolean lexeme %r" % lex)


def lex_datetime(rng, lex, m):
    ts = rng.choice(["20260925120000.000000+000", "19991231235959.999999-300",
                     "20240229000000.123456+060"])
    if lex == "interval":
        return rng.choice(["00000001000000.000000:000",
                           "12345678121212.123456:000",
                           "00000000000000.000000:000"])
    if lex == "short":
        k = rng.randrange(len(ts))
        return ts[:k] + ts[k + 1:]
    if lex == "long":
        k = rng.choice([0, 4, 14, 21, 25])
        return ts[:k] + "0" + ts[k:]
    if lex == "empty":
        return ""
    if lex == "suffix":
        return ts + rng.choice(["x", "Z", "UTC", m])
    if lex == "prefix":
        return rng.choice(["x", "T", "D:", m]) + ts
    if lex == "badMonth":
        return rng.choice(["20261325120000.000000+000",
                           "20260025120000.000000+000"])
    if lex == "badDay":
        return rng.choice(["20260230120000.000000+000",
                           "20260932120000.000000+000",
                           "20260900120000.000000+000"])
    if lex == "badMinute":
        return rng.choice(["20260925126000.000000+000",
                           "20260925250000.000000+000",
                           "20260925120061.000000+000"])
    if lex == "badSep":
        return rng.choice(["20260925120000,000000+000",
                           "2026092512000.0000000+000",
                           "20260925120000 000000+000"])
    if lex == "noSign":
        return rng.choice(["20260925120000.000000 000",
                           "20260925120000.000000x000",
                           "20260925120000.0000000000"])
    if lex == "letters":
        return rng.choice(["abcdefghijklmn.opqrst+uvw",
                           "2026092512oooo.000000+000",
                           "20260925120000.000000+utc"])
    if lex == "uniDigits":
        return rng.choice(["٢٠٢٦0925120000.000000+000",
                           "２０２６0925120000.000000+000"])
    if lex == "hugeOffset":
        return rng.choice(["20260925120000.000000+999",
                           "20260925120000.000000-999"])
    if lex == "asterisks":
        return rng.choice(["2026092512****.******+000",
                           "20260925120000.******+000"])
    if lex == "nonLatin":
        return rng.choice(["2026092512000Ā.000000+000", "Ā", "€" + ts[1:]])
    raise ValueError("datetime lexeme %r" % lex)


def lex_arraysize(rng, lex, m):
    if lex == "word":
        return rng.choice(["x", m, "many", "two"])
    if lex == "empty":
        return ""
    if lex == "negative":
        return rng.choice(["-1", "-5", "-0"])
    if lex == "hex":
        return rng.choice(["0x10", "0X2", "+0x1"])
    if lex == "fraction":
        return rng.choice(["1.5", "2.0", "1e1", "2."])
    if lex == "huge":
        return "9" * rng.choice([20, 40, 400])
    if lex == "hugeX":
        return "9" * rng.choice([4301, 5000])
    if lex == "suffix":
        return rng.choice(["2x", "10 items", "3;", "2" + m])
    if lex == "padded":
        return rng.choice([" 2 ", "\n2", "2\t"])
    if lex == "underscore":
        return rng.choice(["1_0", "2_0"])
    if lex == "uniDigits":
        return rng.choice(["١", "２"])
    if lex == "zero":
        return rng.choice(["0", "00"])
    raise ValueError("ARRAYSIZE lexeme %r" % lex)


def lex_embattr(rng, lex, m):
    if lex == "unknown":
        return rng.choice(["foo", m, "class", "embedded", "yes"])
    if lex == "upper":
        return rng.choice(["INSTANCE", "Object", "OBJECT", "Instance"])
    if lex == "suffix":
        return rng.choice(["instancex", "objects", "instance" + m, "object1"])
    if lex == "padded":
        return rng.choice([" instance", "object ", "\ninstance"])
    if lex == "empty":
        return ""
    if lex == "boolWord":
        return rng.choice(["true", "false", "1", "TRUE"])
    if lex == "nonLatin":
        return rng.choice(["Ā", "instancé", "objeĉt"])
    if lex == "validWord":
        return rng.choice(["instance", "object"])
    raise ValueError("EmbeddedObject lexeme %r" % lex)


def lex_embxml(rng, lex, m):
    if lex == "notXml":
        return rng.choice(["x", m, "plain text", "INSTANCE"])
    if lex == "illformed":
        return rng.choice(["<a>", '<INSTANCE CLASSNAME="E">',
                           "<INSTANCE CLASSNAME=E/>", "&", "<%s>" % m,
                           '<INSTANCE CLASSNAME="E"/><'])
    if lex == "empty":
        return ""
    if lex == "blank":
        return rng.choice(["  ", "\n", " \t "])
    if lex == "otherElement":
        return rng.choice(["<FOO/>", "<VALUE>1</VALUE>",
                           '<INSTANCENAME CLASSNAME="E"/>', "<%s/>" % m,
                           '<PROPERTY NAME="P" TYPE="string"/>'])
    if lex == "twoRoots":
        return rng.choice(['<INSTANCE CLASSNAME="E"/><INSTANCE CLASSNAME="E"/>',
                           '<CLASS NAME="E"/><CLASS NAME="F"/>'])
    if lex == "missingAttr":
        return rng.choice(["<INSTANCE/>", "<CLASS/>",
                           '<INSTANCE NAME="E"/>'])
    if lex == "badChild":
        return rng.choice(['<INSTANCE CLASSNAME="E"><FOO/></INSTANCE>',
                           '<INSTANCE CLASSNAME="E"><METHOD NAME="M" '
                           'TYPE="uint8"/></INSTANCE>',
                           '<INSTANCE CLASSNAME="E">text %s</INSTANCE>' % m,
                           '<CLASS NAME="E"><VALUE>1</VALUE></CLASS>'])
    raise ValueError("embedded object lexeme %r" % lex)


def lex_valuetype(rng, lex, m):
    if lex == "unknown":
        return rng.choice(["foo", m, "integer", "real"])
    if lex == "suffix":
        return rng.choice(["numericx", "strings", "boolean ", "numeric" + m])
    if lex == "upper":
        return rng.choice(["Numeric", "STRING", "Boolean"])
    if lex == "empty":
        return ""
    if lex == "nonLatin":
        return rng.choice(["Ā", "numeriĉ"])
    raise ValueError("VALUETYPE lexeme %r" % lex)


def lex_char16(rng, lex, m):
    return {"empty": "", "two": rng.choice(["ab", m, "a "]),
            "astral": rng.choice(["\U0001F600", "\U00010000"]),
            "blank": rng.choice([" ", "\t"])}[lex]


def emb_attr_name(rng):
    return rng.choice(["EmbeddedObject", "EMBEDDEDOBJECT"])


def embedded(rng, inner, name, kind=None):
    """string property whose value is the embedded object `inner`"""
    kind = kind or rng.choice(["instance", "object"])
    return '<PROPERTY NAME="%s" TYPE="string" %s="%s"><VALUE>%s</VALUE>' \
        '</PROPERTY>' % (name, emb_attr_name(rng), kind, xtext(inner))


def keyvalue_ref(rng, name, kv):
    """reference property whose instance path has the KEYVALUE `kv`"""
    if rng.random() < 0.25:
        path = '<INSTANCENAME CLASSNAME="VTest_Ref">%s</INSTANCENAME>' % kv
    else:
        path = '<INSTANCENAME CLASSNAME="VTest_Ref"><KEYBINDING NAME="K">%s' \
            '</KEYBINDING></INSTANCENAME>' % kv
    if rng.random() < 0.3:
        path = '<LOCALINSTANCEPATH><LOCALNAMESPACEPATH><NAMESPACE NAME="root"/>' \
            '</LOCALNAMESPACEPATH>%s</LOCALINSTANCEPATH>' % path
    return '<PROPERTY.REFERENCE NAME="%s"><VALUE.REFERENCE>%s</VALUE.REFERENCE>' \
        '</PROPERTY.REFERENCE>' % (name, path)


def make_lexeme(rng, lpos, lex, m):
    """-> literal XML for the children of the indication instance: one
    element in which position `lpos` carries a member of lexeme class `lex`"""
    n = "Lx" + m
    num_pos = {"intValue", "arrValue", "qualValue", "embPropValue",
               "realValue", "keyNumValue"}
    type_pos = {"propType", "arrType", "qualType", "keyType", "embPropType",
                "clsPropType", "propTypeNull", "clsMethodType", "clsParamType"}
    if lpos in type_pos:
        t = xattr(lex_typename(rng, lex, m))
        v = rng.choice(["1", "0", "7"])
        if lpos == "propType":
            return '<PROPERTY NAME="%s" TYPE=%s><VALUE>%s</VALUE></PROPERTY>' \
                % (n, t, v)
        if lpos == "arrType":
            return '<PROPERTY.ARRAY NAME="%s" TYPE=%s><VALUE.ARRAY>' \
                '<VALUE>%s</VALUE><VALUE>2</VALUE></VALUE.ARRAY>' \
                '</PROPERTY.ARRAY>' % (n, t, v)
        if lpos == "qualType":
            q = '<QUALIFIER NAME="Lq%s" TYPE=%s><VALUE>%s</VALUE></QUALIFIER>' \
                % (m, t, v)
            if rng.random() < 0.5:
                return q
            return '<PROPERTY NAME="%s" TYPE="string">%s<VALUE>x</VALUE>' \
                '</PROPERTY>' % (n, q)
        if lpos == "keyType":
            return keyvalue_ref(rng, n, '<KEYVALUE VALUETYPE="numeric" TYPE=%s>'
                                '%s</KEYVALUE>' % (t, v))
        if lpos == "embPropType":
            return embedded(rng, '<INSTANCE CLASSNAME="VTest_E"><PROPERTY '
                            'NAME="P" TYPE=%s><VALUE>%s</VALUE></PROPERTY>'
                            '</INSTANCE>' % (t, v), n)
        if lpos == "clsPropType":
            return embedded(rng, '<CLASS NAME="VTest_E"><PROPERTY NAME="P" '
                            'TYPE=%s><VALUE>%s</VALUE></PROPERTY></CLASS>'
                            % (t, v), n, "object")
        if lpos == "propTypeNull":
            if rng.random() < 0.5:
                return '<PROPERTY NAME="%s" TYPE=%s/>' % (n, t)
            return '<PROPERTY.ARRAY NAME="%s" TYPE=%s></PROPERTY.ARRAY>' % (n, t)
        if lpos == "clsMethodType":
            return embedded(rng, '<CLASS NAME="VTest_E"><METHOD NAME="M" '
                            'TYPE=%s/></CLASS>' % t, n, "object")
        if lpos == "clsParamType":
            el = rng.choice(["PARAMETER", "PARAMETER.ARRAY"])
            return embedded(rng, '<CLASS NAME="VTest_E"><METHOD NAME="M" '
                            'TYPE="uint8"><%s NAME="p" TYPE=%s/></METHOD>'
                            '</CLASS>' % (el, t), n, "object")
    if lpos == "keyValueType":
        return keyvalue_ref(rng, n, '<KEYVALUE VALUETYPE=%s>1</KEYVALUE>'
                            % xattr(lex_valuetype(rng, lex, m)))
    if lpos in num_pos:
        if lpos == "realValue":
            typ = rng.choice(["real32", "real64"])
        elif lpos == "keyNumValue":
            typ = None
        else:
            typ = rng.choice(INTT)
        x = xtext(lex_number(rng, lex, m, typ))
        if lpos in ("intValue", "realValue"):
            return '<PROPERTY NAME="%s" TYPE="%s"><VALUE>%s</VALUE>' \
                '</PROPERTY>' % (n, typ, x)
        if lpos == "arrValue":
            vals = ["<VALUE>1</VALUE>"] * rng.randint(0, 2)
            vals.insert(rng.randint(0, len(vals)), "<VALUE>%s</VALUE>" % x)
            return '<PROPERTY.ARRAY NAME="%s" TYPE="%s"><VALUE.ARRAY>%s' \
                '</VALUE.ARRAY></PROPERTY.ARRAY>' % (n, typ, "".join(vals))
        if lpos == "qualValue":
            if rng.random() < 0.5:
                val = "<VALUE>%s</VALUE>" % x
            else:
                val = "<VALUE.ARRAY><VALUE>%s</VALUE></VALUE.ARRAY>" % x
            return '<QUALIFIER NAME="Lq%s" TYPE="%s">%s</QUALIFIER>' \
                % (m, typ, val)
        if lpos == "embPropValue":
            return embedded(rng, '<INSTANCE CLASSNAME="VTest_E"><PROPERTY '
                            'NAME="P" TYPE="%s"><VALUE>%s</VALUE></PROPERTY>'
                            '</INSTANCE>' % (typ, x), n)
        if lpos == "keyNumValue":
            return keyvalue_ref(rng, n, '<KEYVALUE VALUETYPE="numeric">%s'
                                '</KEYVALUE>' % x)
    if lpos == "boolValue":
        x = xtext(lex_boolean(rng, lex, m))
        if rng.random() < 0.7:
            return '<PROPERTY NAME="%s" TYPE="boolean"><VALUE>%s</VALUE>' \
                '</PROPERTY>' % (n, x)
        return '<PROPERTY.ARRAY NAME="%s" TYPE="boolean"><VALUE.ARRAY><VALUE>' \
            'true</VALUE><VALUE>%s</VALUE></VALUE.ARRAY></PROPERTY.ARRAY>' \
            % (n, x)
    if lpos == "boolAttr":
        x = xattr(lex_boolean(rng, lex, m))
        k = rng.randrange(4)
        if k == 0:
            return '<PROPERTY NAME="%s" TYPE="string" PROPAGATED=%s><VALUE>x' \
                '</VALUE></PROPERTY>' % (n, x)
        if k == 1:
            return '<PROPERTY.ARRAY NAME="%s" TYPE="uint8" PROPAGATED=%s/>' \
                % (n, x)
        if k == 2:
            return '<PROPERTY.REFERENCE NAME="%s" PROPAGATED=%s/>' % (n, x)
        a = rng.choice(["PROPAGATED", "OVERRIDABLE", "TOSUBCLASS",
                        "TOINSTANCE", "TRANSLATABLE"])
        return '<QUALIFIER NAME="Lq%s" TYPE="string" %s=%s><VALUE>x</VALUE>' \
            '</QUALIFIER>' % (m, a, x)
    if lpos == "dtValue":
        return '<PROPERTY NAME="%s" TYPE="datetime"><VALUE>%s</VALUE>' \
            '</PROPERTY>' % (n, xtext(lex_datetime(rng, lex, m)))
    if lpos == "char16Value":
        return '<PROPERTY NAME="%s" TYPE="char16"><VALUE>%s</VALUE>' \
            '</PROPERTY>' % (n, xtext(lex_char16(rng, lex, m)))
    if lpos == "arraySize":
        return '<PROPERTY.ARRAY NAME="%s" TYPE="uint8" ARRAYSIZE=%s>' \
            '<VALUE.ARRAY><VALUE>1</VALUE></VALUE.ARRAY></PROPERTY.ARRAY>' \
            % (n, xattr(lex_arraysize(rng, lex, m)))
    if lpos == "embAttr":
        return '<PROPERTY NAME="%s" TYPE="string" %s=%s><VALUE>%s</VALUE>' \
            '</PROPERTY>' % (n, emb_attr_name(rng),
                             xattr(lex_embattr(rng, lex, m)),
                             xtext('<INSTANCE CLASSNAME="VTest_E"/>'))
    if lpos == "embAttrNum":
        return '<PROPERTY NAME="%s" TYPE="uint8" %s=%s><VALUE>1</VALUE>' \
            '</PROPERTY>' % (n, emb_attr_name(rng),
                             xattr(lex_embattr(rng, lex, m)))
    if lpos == "embValue":
        return embedded(rng, lex_embxml(rng, lex, m), n)
    if lpos == "embArrValue":
        vals = ['<VALUE>%s</VALUE>' % xtext('<INSTANCE CLASSNAME="VTest_E"/>')
                ] * rng.randint(0, 2)
        vals.insert(rng.randint(0, len(vals)),
                    "<VALUE>%s</VALUE>" % xtext(lex_embxml(rng, lex, m)))
        return '<PROPERTY.ARRAY NAME="%s" TYPE="string" %s="%s"><VALUE.ARRAY>' \
            '%s</VALUE.ARRAY></PROPERTY.ARRAY>' % (
                n, emb_attr_name(rng), rng.choice(["instance", "object"]),
                "".join(vals))
    raise ValueError("lexeme position %r" % lpos)


# ---- strings the handler compares with a NAME or echoes into its answer ----

_C1 = [chr(c) for c in list(range(0x80, 0x85)) + list(range(0x86, 0xa0))]
CHAR_CLASS = {
    "del": ["\x7f"],
    "c1": _C1,
    "nel": ["\x85"],
    "latin1": [chr(c) for c in range(0xa0, 0x100)],
    "bmp": ["\u0100", "\u20ac", "\u4e2d", "\ud7ff", "\ue000", "\u0301",
            "\ufeff", "\u200b"],
    "lsep": ["\u2028", "\u2029"],
    "fffd": ["\ufffd"],
    "nonchar": ["\ufdd0", "\ufdef", "\U0001fffe", "\U0010ffff"],
    "astral": ["\U00010000", "\U0001f600", "\U000e0001", "\U0010fffd"],
}
NAME_POS = ("msgId", "methName", "paramName", "dtdVer", "cimVer", "protoVer")
HDR_POS = {"acceptVal": "accept", "charsetVal": "charset",
           "ctypeVal": "ctype", "cencVal": "cenc"}
NEW_POS = NAME_POS + tuple(HDR_POS) + ("embDepth", "refDepth")
DEPTH = {"few": (2, 8), "tens": (20, 60), "hundreds": (200, 400),
         "thousands": (1000, 5000)}


def consistent(c):
    """spec: HdrPosConsistent"""
    d = HDR_POS.get(c.get("lpos"))
    return d is None or c[d] == "ok"


def lex_chartext(rng, lex, pre, post):
    """text with character(s) of class `lex` between / around ASCII parts"""
    ch = rng.choice(CHAR_CLASS[lex])
    k = rng.randrange(5)
    if k == 0:
        return ch + pre + post
    if k == 1:
        return pre + post + ch
    if k == 2:
        return pre + ch + ch + post
    return pre + ch + post


def case_variant(rng, name, lex):
    if lex == "upper":
        return name.upper()
    if lex == "lower":
        return name.lower()
    assert lex == "mixed", lex
    for _ in range(50):
        v = rng.choice([
            name.swapcase(), name[:1].swapcase() + name[1:],
            name[:-1] + name[-1:].swapcase(),
            "".join(c.upper() if i % 2 else c.lower()
                    for i, c in enumerate(name)),
            "".join(rng.choice([c.lower(), c.upper()]) for c in name)])
        if v not in (name, name.upper(), name.lower()):
            return v
    raise ValueError("no mixed-case variant of %r" % name)


def xattr_ref(rng, v):
    """attribute value, double-quoted; the characters >= U+007F literally or
    as character references (seeded)"""
    how = rng.choice(["lit", "hex", "dec", "mix"])
    out = []
    for ch in v:
        if ch == "&":
            out.append("&amp;")
        elif ch == "<":
            out.append("&lt;")
        elif ch == '"':
            out.append("&quot;")
        elif ord(ch) >= 0x7f:
            h = how if how != "mix" else rng.choice(["lit", "hex", "dec"])
            out.append(ch if h == "lit" else "&#x%X;" % ord(ch) if h == "hex"
                       else "&#%d;" % ord(ch))
        else:
            out.append(ch)
    return '"%s"' % "".join(out)


def nested_embedded(rng, depth, m):
    """a string property holding `depth` levels of embedded instances"""
    x = '<INSTANCE CLASSNAME="VTest_E"><PROPERTY NAME="K" TYPE="string">' \
        '<VALUE>%s</VALUE></PROPERTY></INSTANCE>' % m
    att = emb_attr_name(rng)
    for _ in range(depth - 1):
        x = '<INSTANCE CLASSNAME="E"><PROPERTY NAME="P" TYPE="string" ' \
            '%s="instance"><VALUE>%s</VALUE></PROPERTY></INSTANCE>' \
            % (att, xtext(x))
    return '<PROPERTY NAME="Lx%s" TYPE="string" %s="instance"><VALUE>%s' \
        '</VALUE></PROPERTY>' % (m, att, xtext(x))


def nested_refs(rng, depth, m):
    """a reference property whose instance path has a reference-valued key
    whose instance path has a reference-valued key ... (`depth` levels)"""
    x = '<INSTANCENAME CLASSNAME="VTest_E"><KEYBINDING NAME="K"><KEYVALUE>' \
        '%s</KEYVALUE></KEYBINDING></INSTANCENAME>' % m
    for _ in range(depth - 1):
        x = '<INSTANCENAME CLASSNAME="E"><KEYBINDING NAME="K">' \
            '<VALUE.REFERENCE>%s</VALUE.REFERENCE></KEYBINDING>' \
            '</INSTANCENAME>' % x
    return '<PROPERTY.REFERENCE NAME="Lx%s"><VALUE.REFERENCE>%s' \
        '</VALUE.REFERENCE></PROPERTY.REFERENCE>' % (m, x)


def make_named(rng, cls, m, msgid):
    """body for a lexeme class at a compared / echoed string outside the
    indication instance -> str"""
    lpos, lex = cls["lpos"], cls["lex"]
    ph = "VPH" + m
    if lpos == "msgId":
        # (concretise() chose `msgid` as a member of the class)
        return export_body(rng, m, ph, subst={
            'ID="%s"' % ph: "ID=" + xattr_ref(rng, msgid)})
    if lpos == "methName":
        if lex in CHAR_CLASS:
            pre, post = rng.choice([("Export", "Indication"), (m, ""),
                                    ("ExportIndication", ""), ("", "X")])
            name = lex_chartext(rng, lex, pre, post)
        else:
            name = case_variant(rng, "ExportIndication", lex)
        return export_body(rng, m, msgid, method=ph, subst={
            'NAME="%s"' % ph: "NAME=" + xattr_ref(rng, name)})
    if lpos == "paramName":
        name = case_variant(rng, "NewIndication", lex)
        return export_body(rng, m, msgid,
                           params=[(ph, random_instance(rng, m))],
                           subst={'NAME="%s"' % ph: "NAME=" + xattr(name)})
    v = lex_chartext(rng, lex, rng.choice(["3.", "9", "x", ""]), m)
    a = xattr_ref(rng, v)
    if lpos == "dtdVer":
        return export_body(rng, m, msgid, dtd=ph,
                           subst={'DTDVERSION="%s"' % ph: "DTDVERSION=" + a})
    if lpos == "cimVer":
        return export_body(rng, m, msgid, cim=ph,
                           subst={'CIMVERSION="%s"' % ph: "CIMVERSION=" + a})
    if lpos == "protoVer":
        return export_body(rng, m, msgid, proto=ph, subst={
            'PROTOCOLVERSION="%s"' % ph: "PROTOCOLVERSION=" + a})
    raise ValueError("position %r" % lpos)


def expat_rejects(data):
    p = xml.parsers.expat.ParserCreate()
    try:
        p.Parse(data, True)
    except xml.parsers.expat.ExpatError:
        return True
    return False


def utf8_ok(data):
    try:
        data.decode("utf-8")
        return True
    except UnicodeDecodeError:
        return False


def mutate_illformed(rng, good, marker):
    """Byte-level mutation of a valid body until expat rejects it (the class
    'illformedXml' is defined by an XML parser other than pywbem's)."""
    g = good.encode("utf-8")
    for _ in range(50):
        b = bytearray(g)
        k = rng.choice(["del>", "dup<", "cut", "swap", "amp", "flip", "ins",
                        "mline"])
        pos = rng.randrange(1, len(b) - 1)
        if k == "del>":
            i = b.find(b">", pos)
            if i >= 0:
                del b[i]
        elif k == "dup<":
            i = b.find(b"<", pos)
            if i >= 0:
                b[i:i] = b"<"
        elif k == "cut":
            del b[pos:]
        elif k == "swap":
            i = b.find(b"</", pos)
            if i >= 0:
                b[i:i + 2] = b"<//"
        elif k == "amp":
            i = b.find(b">", pos)
            if i >= 0:
                b[i + 1:i + 1] = b"&" + marker.encode() + b" "
        elif k == "flip":
            i = b.find(b"=", pos)
            if i >= 0:
                b[i:i + 2] = b"= "
        elif k == "ins":
            b[pos:pos] = rng.choice([b"<", b"</x>", b"]]>", b"<!--", b"<?",
                                     b"\x00"])
        elif k == "mline":
            i = b.find(b">", pos)
            if i >= 0:
                b[i + 1:i + 1] = (b"\nX-Injected-" + marker.encode() +
                                  b": 1\n<" + marker.encode() + b"\n>")
        b = bytes(b)
        if b and utf8_ok(b) and expat_rejects(b):
            return b
    return b"<CIM>\n<" + marker.encode() + b">\n</CIM>"


def make_body(rng, cls, marker, msgid):
    """-> (bytes, has_msgid)"""
    b = cls["body"]
    m = marker
    if cls.get("lpos", "none") != "none":
        # a lexeme class at a converted position; the body is well-formed
        # (checked with expat: the class is about the lexeme, nothing else)
        if cls["lpos"] in NAME_POS:
            g = make_named(rng, cls, m, msgid)
        elif cls["lpos"] in HDR_POS:
            g = export_body(rng, m, msgid)      # (the lexeme is in a header)
        elif cls["lpos"] in ("embDepth", "refDepth"):
            nest = nested_embedded if cls["lpos"] == "embDepth" \
                else nested_refs
            g = export_body(rng, m, msgid, splice=nest(
                rng, rng.randint(*DEPTH[cls["lex"]]), m))
        else:
            assert b in ("validExport", "lexeme"), cls
            g = export_body(rng, m, msgid, splice=make_lexeme(
                rng, cls["lpos"], cls["lex"], m))
        g = g.encode("utf-8")
        if expat_rejects(g):
            raise ValueError("lexeme body is not well-formed: %r" % (cls,))
        return g, True
    if b == "validExport":
        return export_body(rng, m, msgid).encode("utf-8"), True
    if b == "empty":
        return b"", False
    if b == "illformedXml":
        v = rng.randrange(5)
        if v == 0:
            return (b"<CIM>\nX-Injected-" + m.encode() + b": 1 <a>\n</CIM>"), False
        if v == 1:
            return (b"<CIM><" + m.encode() + b"></CIM>"), False
        return mutate_illformed(rng, export_body(rng, m, msgid), m), False
    if b == "badUtf8":
        g = export_body(rng, m, msgid).encode("utf-8")
        bad = rng.choice([b"\xff\xfe", b"\xc3(", b"\xe2\x82", b"\xc0\xaf",
                          b"\xed\xa0\x80", b"\xf8\x88\x80\x80\x80", b"\x80"])
        i = g.find(m.encode())
        where = rng.choice([i, i + len(m), g.find(b"<MESSAGE") + 1,
                            len(g) - 3])
        return g[:where] + bad + g[where:], False
    if b in ("wrongDtdVersion", "wrongDtdVersionU"):
        v = rng.choice(["3.0", "1.9", "x" + m, "", "20.1"])
        if b.endswith("U"):
            v = rng.choice(["Ā", "3.€", "\U0001F600"]) + m
        return export_body(rng, m, msgid, dtd=v).encode("utf-8"), True
    if b in ("wrongCimVersion", "wrongCimVersionU"):
        v = rng.choice(["3.0", "1.0", "x" + m, "", "12.5"])
        if b.endswith("U"):
            v = rng.choice(["Ā", "3.€", "\U0001F600"]) + m
        return export_body(rng, m, msgid, cim=v).encode("utf-8"), True
    if b in ("wrongProtocolVersion", "wrongProtocolVersionU"):
        v = rng.choice(["2.0", "0.9", "x" + m, "", "21.0"])
        if b.endswith("U"):
            v = rng.choice(["Ā", "2.€", "\U0001F600"]) + m
        return export_body(rng, m, msgid, proto=v).encode("utf-8"), True
    if b == "wrongElement":
        g = export_body(rng, m, msgid)
        v = rng.randrange(9)
        if v == 7:
            # attributes the DTD does not give EXPPARAMVALUE (they belong to
            # PARAMVALUE / PROPERTY), with lexemes of their own
            a = rng.choice(["PARAMTYPE", "TYPE", "EmbeddedObject",
                            "EMBEDDEDOBJECT", "ARRAYSIZE", "PROPAGATED"])
            x = rng.choice(["instance", "uint8", "uint8x", "uint8\n", m, "",
                            "0x1FZ", "truex", "object "])
            g = g.replace("<EXPPARAMVALUE ", "<EXPPARAMVALUE %s=%s " %
                          (a, xattr(x)), 1)
        elif v == 8:
            x = rng.choice(["instance", "uint8x", "real32s", "uint8\n", m, ""])
            g = g.replace("<EXPPARAMVALUE ", "<PARAMVALUE PARAMTYPE=%s " %
                          xattr(x)).replace("</EXPPARAMVALUE>", "</PARAMVALUE>")
        elif v == 0:
            g = g.replace("SIMPLEEXPREQ", "SIMPLEREQ")
        elif v == 1:
            g = g.replace("EXPMETHODCALL", "METHODCALL")
        elif v == 2:
            g = "<%s/>" % m
        elif v == 3:
            g = g.replace("<SIMPLEEXPREQ>", "<%s/><SIMPLEEXPREQ>" % m)
        elif v == 4:
            g = re.sub(r'<MESSAGE ID="[^"]*"', "<MESSAGE", g)
        elif v == 5:
            g = g.replace("EXPPARAMVALUE", "PARAMVALUE")
        else:
            g = g.replace("<INSTANCE ", "<INSTANCE %s=\"1\" " % m, 1) \
                 .replace("CLASSNAME=", "CLASSNAMEX=", 1)
        return g.encode("utf-8"), False
    if b == "unknownMethod":
        meth = rng.choice(["Foo", m, "ExportIndications", "Export&Indication",
                           "GetInstance"])
        return export_body(rng, m, msgid, method=meth).encode("utf-8"), True
    if b == "missingParam":
        inst = random_instance(rng, m)
        v = rng.randrange(3)
        if v == 0:
            params = []
        elif v == 1:
            params = [(rng.choice(["OldIndication", m, "newindicatio"]), inst)]
        else:
            params = [("NewIndication", inst), ("Other" + m, inst)]
        return export_body(rng, m, msgid, params=params).encode("utf-8"), True
    if b == "dupParam":
        inst = random_instance(rng, m)
        return export_body(rng, m, msgid, params=[
            ("NewIndication", inst), ("NewIndication", inst)]
        ).encode("utf-8"), True
    if b == "nullParam":
        return export_body(rng, m, msgid, params=[("NewIndication", None)]
                           ).encode("utf-8"), True
    if b == "nonInstance":
        raw = rng.choice([
            '<EXPPARAMVALUE NAME="NewIndication"><VALUE>%s</VALUE>'
            '</EXPPARAMVALUE>' % m,
            '<EXPPARAMVALUE NAME="NewIndication"><VALUE.ARRAY><VALUE>%s'
            '</VALUE></VALUE.ARRAY></EXPPARAMVALUE>' % m,
            '<EXPPARAMVALUE NAME="NewIndication"><CLASS NAME="%s"/>'
            '</EXPPARAMVALUE>' % m,
            '<EXPPARAMVALUE NAME="NewIndication"><INSTANCENAME CLASSNAME="%s"/>'
            '</EXPPARAMVALUE>' % m])
        return export_body(rng, m, msgid, raw_params=raw).encode("utf-8"), True
    raise ValueError("unknown body class %r" % b)


_HDR = {
    "accept": ("Accept",
               ["text/xml", "application/xml", "*/*"],
               ["text/html", "application/json", "foo/%s", "image/png"]),
    "charset": ("Accept-Charset",
                ["utf-8", "UTF-8", "*", "iso-8859-1;q=0.5, utf-8;q=0.9",
                 "utf-8, iso-8859-1"],
                ["iso-8859-1", "us-ascii", "%s", "utf-16"]),
    "range": ("Accept-Range", [], ["bytes", "none", "%s"]),
    "ctype": ("Content-Type",
              ["text/xml", "application/xml", "application/xml; charset=utf-8",
               'text/xml; charset="utf-8"', "text/xml;charset=UTF-8"],
              ["text/plain", "application/json",
               "text/xml; charset=iso-8859-1", "%s/xml"]),
    "cenc": ("Content-Encoding",
             ["identity", "Identity"],
             ["gzip", "deflate", "compress", "%s"]),
}


def make_headers(rng, cls, marker):
    hs = []
    for dim, (name, oks, bads) in _HDR.items():
        v = cls[dim]
        if v == "absent":
            continue
        if v == "ok" and HDR_POS.get(cls.get("lpos")) == dim:
            # an admissible value in another lexical case
            val = case_variant(rng, rng.choice(
                [x for x in oks if x.lower() == x and
                 re.search("[a-z]", x)]), cls["lex"])
        elif v == "ok":
            val = rng.choice(oks)
        else:
            val = rng.choice(bads)
            if "%s" in val:
                val = val % marker
            if v == "fold":
                val += rng.choice(["\r\n ", "\r\n\t", "\r\n  "]) + \
                    "X-Injected-%s: 1" % marker
        hs.append((casevar(rng, name), val))
    return hs


def make_clen(rng, cls, body):
    """-> (header value or None, bytes actually sent as body)"""
    c = cls["clen"]
    n = len(body)
    if c == "ok":
        return str(n), body
    if c == "absent":
        return None, body
    if c == "short":
        if n < 2:
            return "0", body + b"<x/>  "
        for _ in range(20):
            k = rng.randrange(1, n)
            if not utf8_ok(body[:k]) or expat_rejects(body[:k]):
                return str(k), body
        return "1", body
    if c == "long":
        return str(n + rng.choice([1, 2, 17, 1000, 65536])), body
    if c == "nonnum":
        return rng.choice(["abc", "12abc", "1.5", "0x10", "", "1e3", "ten",
                           "12 34", "1,000", "--1", "NaN"]), body
    if c == "negone":
        return "-1", body
    if c == "neg":
        return rng.choice(["-2", "-17", "-4096", "-%d" % max(n, 2)]), body
    if c == "huge":
        return rng.choice(["9" * 20, str(2**64), str(2**63), "1" + "0" * 40]), \
            body
    raise ValueError(c)


class Req:
    pass


def concretise(rng, cls, uid):
    """abstract class -> concrete request; the dimensions the statement calls
    irrelevant (header name case, order, extra headers, HTTP version, path,
    indication content, message id) are randomised."""
    r = Req()
    r.cls = dict(cls)
    r.marker = "VQ%05dK" % uid + "".join(rng.choice("ABCDEFGH") for _ in range(3))
    r.msgid = random_msgid(rng)
    if cls.get("lpos") == "msgId":
        r.msgid = lex_chartext(rng, cls["lex"], rng.choice(["", "a", "7-"]),
                               rng.choice(["", "b", ":1", " z"])).strip(" ")
    body, has_id = make_body(rng, cls, r.marker, r.msgid)
    r.has_msgid = has_id
    clen, sent = make_clen(rng, cls, body)
    if cls["verb"] == "POST":
        r.verb = "POST"
    elif cls["verb"] == "known":
        r.verb = rng.choice(KNOWN_VERBS)
    else:
        r.verb = rng.choice(UNKNOWN_VERBS)
    hs = make_headers(rng, cls, r.marker)
    if clen is not None:
        hs.append((casevar(rng, "Content-Length"), clen))
    extra = [("Host", "127.0.0.1"), ("CIMExport", "MethodRequest"),
             ("CIMExportMethod", "ExportIndication"),
             ("User-Agent", "verif/" + r.marker),
             ("Connection", rng.choice(["close", "keep-alive"])),
             ("X-" + r.marker, "1"), ("Accept-Encoding", "gzip, deflate"),
             ("Accept-Language", "en"), ("Content-Language", "en")]
    hs += rng.sample(extra, rng.randint(1, len(extra)))
    rng.shuffle(hs)
    path = rng.choice(["/", "/cimlistener", "/" + r.marker, "/a/b?c=d"])
    ver = rng.choice(["HTTP/1.1", "HTTP/1.0"])
    head = "%s %s %s\r\n" % (r.verb, path, ver)
    for k, v in hs:
        sep = rng.choice([": ", ":", ":  "])
        head += "%s%s%s\r\n" % (k, sep, v)
    head += "\r\n"
    r.raw = head.encode("latin-1") + sent
    r.body_len = len(body)
    r.clen = clen
    return r


# ----------------------------------------------------------------------------
# the listener under test
# ----------------------------------------------------------------------------

class Box:
    """One real WBEMListener on a loopback port with a logging callback.
    `qcap` > 0: listener with max_ind_queue_size=qcap (else the library
    default).  The tester can hold the callback (a slow consumer): the
    callback thread then sits in the callback with one indication and the
    queue fills up."""

    def __init__(self, qcap=0):
        self.lock = threading.Lock()
        self.log = {}
        self.listener = None
        self.port = None
        self.stop_error = ""
        self.handler_errors = []
        self.want_qcap = qcap
        self.qcap = 0
        self.gate = threading.Event()
        self.gate.set()
        self.in_callback = 0
        self.accepted = set()   # markers answered 'success', not yet delivered
        self.dirty = False      # something may sit in the queue unobserved

    def _callback(self, indication, host):
        with self.lock:
            self.in_callback += 1
        try:
            self.gate.wait(120)
            try:
                key = str(indication["Sender"])
            except Exception:  # noqa
                key = "?"
            with self.lock:
                self.log[key] = self.log.get(key, 0) + 1
        finally:
            with self.lock:
                self.in_callback -= 1

    def hold(self):
        self.gate.clear()

    def release(self):
        self.gate.set()

    def held(self):
        return not self.gate.is_set()

    def seen_drained(self, wait):
        """Has the tester SEEN that nothing sits in the indication queue or
        in the callback: the callback is not held, every indication that was
        answered 'success' has arrived in the callback log, the callback is
        not running and the listener reports an empty queue (waits up to
        `wait` seconds for that).  Positive evidence only: False means 'not
        seen', which the requirement machine treats as 'may be full'."""
        if self.held() or self.dirty:
            return False
        t0 = time.time()
        while True:
            with self.lock:
                self.accepted = {m for m in self.accepted
                                 if self.log.get(m, 0) < 1}
                ok = not self.accepted and self.in_callback == 0
            if ok and self.listener.ind_queue_empty():
                with self.lock:
                    if self.in_callback == 0:
                        return True
            if time.time() - t0 >= wait:
                return False
            time.sleep(0.005)

    def start(self):
        last = None
        for _ in range(30):
            s = socket.socket()
            s.bind(("127.0.0.1", 0))
            port = s.getsockname()[1]
            s.close()
            if self.want_qcap:
                lst = pywbem.WBEMListener("127.0.0.1", http_port=port,
                                          max_ind_queue_size=self.want_qcap)
            else:
                lst = pywbem.WBEMListener("127.0.0.1", http_port=port)
            self.qcap = int(lst.max_ind_queue_size)
            lst.logger.setLevel(logging.CRITICAL + 10)
            lst.add_callback(self._callback)
            try:
                lst.start()
            except pywbem.ListenerPortError as exc:
                last = exc
                continue
            self.listener, self.port = lst, port
            srv = getattr(lst, "_http_server", None)
            if srv is not None:
                # socketserver prints handler tracebacks to stderr; keep the
                # check's output readable (the handler thread still dies)
                srv.handle_error = self._handle_error
            return self
        raise RuntimeError("cannot start a listener: %r" % (last,))

    def _handle_error(self, request, client_address):
        with self.lock:
            self.handler_errors.append(repr(sys.exc_info()[1])[:200])

    def delivered(self, marker):
        with self.lock:
            return self.log.get(marker, 0)

    def alive(self):
        lst = self.listener
        st = getattr(lst, "_http_thread", None)
        ct = getattr(lst, "_callback_thread", None)
        return {"server": bool(st is None or st.is_alive()),
                "callback": bool(ct is None or ct.is_alive())}

    def stop(self):
        self.gate.set()
        try:
            self.listener.stop()
        except Exception as exc:  # noqa  (C16's business; recorded only)
            self.stop_error = "%s: %s" % (type(exc).__name__, exc)


def handler_blocked_reading(local_port):
    """Is there a request handler for the connection from `local_port` whose
    thread is blocked in a socket read?  (positive evidence that the server
    waits for more bytes; read-only introspection of thread stacks)"""
    for frame in list(sys._current_frames().values()):
        top = frame
        f = frame
        found = False
        while f is not None:
            if f.f_code.co_name in ("do_POST", "handle_one_request"):
                h = f.f_locals.get("self")
                ca = getattr(h, "client_address", None)
                if ca and ca[1] == local_port:
                    found = f.f_code.co_name == "do_POST"
                    break
            f = f.f_back
        if found:
            return top.f_code.co_name == "readinto" and \
                top.f_code.co_filename.endswith("socket.py")
    return False


class Conn:
    """One connection carrying one request."""

    def __init__(self, port, raw):
        self.sock = socket.create_connection(("127.0.0.1", port), timeout=5)
        self.local_port = self.sock.getsockname()[1]
        self.buf = b""
        self.eof = False
        self.reset = False
        self.send_error = False
        try:
            self.sock.sendall(raw)
        except (BrokenPipeError, ConnectionResetError):
            # the server answered and closed before it had read everything
            self.send_error = True

    def _recv(self, timeout):
        self.sock.settimeout(timeout)
        try:
            d = self.sock.recv(262144)
        except socket.timeout:
            return None
        except (ConnectionResetError, BrokenPipeError):
            self.eof = True
            self.reset = True
            return b""
        if not d:
            self.eof = True
        self.buf += d
        return d

    def first(self, t_hang=T_HANG):
        """-> response | closed | waiting | hang"""
        t0 = time.time()
        blocked = 0
        while True:
            d = self._recv(0.04)
            if self.buf:
                return "response"
            if self.eof:
                return "closed"
            if d is None:
                if handler_blocked_reading(self.local_port):
                    blocked += 1
                    if blocked >= 3:
                        return "waiting"
                else:
                    blocked = 0
                if time.time() - t0 > t_hang:
                    return "hang"

    def drain(self, limit=T_DRAIN):
        t0 = time.time()
        while not self.eof and time.time() - t0 < limit:
            self._recv(0.25)
        return self.eof

    def half_close(self):
        try:
            self.sock.shutdown(socket.SHUT_WR)
        except OSError:
            pass

    def close(self):
        try:
            self.sock.close()
        except OSError:
            pass


# ----------------------------------------------------------------------------
# projection of the bytes that came back
# ----------------------------------------------------------------------------

_STATUS = re.compile(rb"^HTTP/\d\.\d (\d{3})(?: [\t\x20-\x7e\x80-\xff]*)?$")
_FIELD = re.compile(rb"^[!#$%&'*+\-.^_`|~0-9A-Za-z]+:[\t\x20-\x7e\x80-\xff]*$")
_CONT = re.compile(rb"^[ \t][\t\x20-\x7e\x80-\xff]*$")


def blank_obs(outcome):
    return dict(outcome=outcome, nresp=0, status=0, lineok=False, hdrsyn=False,
                framing=False, rawnl=False, fold=False, derived=False,
                cimerror=False, allow=False, bodykind="none", bodywf=False,
                chain=[], leaf=[], attrsok=False, reqid=[], respid=[],
                ndeliv=0)


def local(tag):
    return tag.rsplit("}", 1)[-1]


def project_body(body, o):
    o["bodykind"] = "xml" if body.lstrip()[:1] == b"<" else "other"
    try:
        root = ET.fromstring(body)
    except Exception:  # noqa
        o["bodywf"] = False
        return
    o["bodywf"] = True
    chain = []
    attrs_ok = True
    need = {"CIM": ("CIMVERSION", "DTDVERSION"),
            "MESSAGE": ("ID", "PROTOCOLVERSION"),
            "SIMPLEEXPRSP": (), "EXPMETHODRESPONSE": ("NAME",)}
    el = root
    while True:
        name = local(el.tag)
        chain.append(name)
        for a in need.get(name, ()):
            if a not in el.attrib:
                attrs_ok = False
        if name == "MESSAGE":
            o["respid"] = [ord(ch) for ch in el.attrib.get("ID", "")]
        kids = list(el)
        if name == "EXPMETHODRESPONSE" or len(chain) >= 8:
            o["leaf"] = [local(k.tag) for k in kids]
            for k in kids:
                if local(k.tag) == "ERROR" and "CODE" not in k.attrib:
                    attrs_ok = False
            break
        if len(kids) != 1:
            chain.append("UNCLASSIFIED:%d children" % len(kids))
            break
        if (el.text or "").strip() or (kids[0].tail or "").strip():
            chain.append("UNCLASSIFIED:text")
            break
        el = kids[0]
    o["chain"] = chain
    o["attrsok"] = attrs_ok


def project(buf, eof, req):
    """bytes received on the connection -> observation record"""
    o = blank_obs("response")
    if req.has_msgid:
        o["reqid"] = [ord(ch) for ch in req.msgid]
    if not re.match(rb"^HTTP/\d\.\d \d{3}", buf):
        o["outcome"] = "garbage"
        return o, {}
    info = {}
    end = buf.find(b"\r\n\r\n")
    if end < 0:
        head, rest, terminated = buf, b"", False
    else:
        head, rest, terminated = buf[:end], buf[end + 4:], True
    lines = head.split(b"\r\n")
    o["lineok"] = bool(_STATUS.match(lines[0]))
    o["status"] = int(lines[0][9:12])
    o["nresp"] = 1
    fields = []
    syn = terminated
    for ln in lines[1:]:
        if b"\r" in ln or b"\n" in ln:
            o["rawnl"] = True
        if ln[:1] in (b" ", b"\t") and fields:
            o["fold"] = True
            fields[-1].append(ln)
            if not _CONT.match(ln.replace(b"\r", b"").replace(b"\n", b"")):
                syn = False
            continue
        fields.append([ln])
        if not _FIELD.match(ln.replace(b"\r", b"x").replace(b"\n", b"x")):
            syn = False
    o["hdrsyn"] = syn
    mk = req.marker.encode().lower()
    names = {}
    for f in fields:
        whole = b"\r\n".join(f)
        name = f[0].split(b":", 1)[0].strip().lower()
        names.setdefault(name, f[0].split(b":", 1)[-1].strip())
        split = len(f) > 1 or b"\r" in whole or b"\n" in whole
        if split and mk in whole.lower():
            o["derived"] = True
            info["split_header"] = whole[:400].decode("latin-1")
        elif split and "split_header" not in info:
            info["split_header"] = whole[:400].decode("latin-1")
    o["cimerror"] = b"cimerror" in names
    o["allow"] = b"allow" in names
    info["cimerror"] = names.get(b"cimerror", b"").decode("latin-1")
    info["status_line"] = lines[0][:200].decode("latin-1")
    info["headers"] = sorted(n.decode("latin-1") for n in names)
    # body framing
    body = rest
    framing = eof
    cl = names.get(b"content-length")
    if req.verb == "HEAD":
        if rest:
            framing = False
        body = b""
    elif cl is not None:
        if not re.match(rb"^\d+$", cl):
            framing = False
        else:
            n = int(cl)
            if len(rest) < n:
                framing = False
            elif len(rest) > n:
                extra = rest[n:]
                body = rest[:n]
                if re.match(rb"^HTTP/\d\.\d \d{3}", extra):
                    o["nresp"] = 2
                else:
                    framing = False
    elif re.match(rb"^HTTP/\d\.\d \d{3} ", rest):
        # no Content-Length: the body runs until the close - but a "body"
        # that starts with a status line is a second response
        o["nresp"] = 2
    o["framing"] = framing
    if body:
        project_body(body, o)
    return o, info


# ----------------------------------------------------------------------------
# histories
# ----------------------------------------------------------------------------

class History:
    def __init__(self, classes):
        self.classes = classes
        self.events = []
        self.info = []


_uid_lock = threading.Lock()
_uid = [0]


def next_uid():
    with _uid_lock:
        _uid[0] += 1
        return _uid[0]


def normalise_script(steps):
    """Tester script (from TLC): [(op, class, request number)] with op in
    req | block | release | peerclose -> script that ends with: callback
    released, a valid indication.  Steps are [op, class or None, number]."""
    out = []
    held = False
    for op, cls, idx in steps:
        if op == "block":
            if held:
                continue
            held = True
        elif op == "release":
            if not held:
                continue
            held = False
        out.append([op, dict(cls) if op == "req" else None, int(idx)])
    if held:
        out.append(["release", None, 0])
    k = max([i for i, st in enumerate(out) if st[0] == "release"] or [-1])
    if not (out and out[-1][0] == "req" and not deviations(out[-1][1])
            and k < len(out) - 1):
        n = sum(1 for st in out if st[0] == "req")
        out.append(["req", dict(VALID), n + 1])
    return out


def run_history(box, rng, classes, reqs=None, steps=None, drain_wait=0.0):
    """Send the requests of one history (one connection each, sequentially;
    connections on which the server waits stay open until the end), then read
    the callback log.  `reqs`: already concretised requests (replay).
    `steps`: tester script [(req, class) | (block, -) | (release, -)] instead
    of `classes`; `drain_wait`: how long the tester is prepared to wait before
    a request to see the queue drained (0: it never claims to have seen it)."""
    if steps is None:
        steps = [["req", c, i + 1] for i, c in enumerate(classes)]
    classes = [st[1] for st in steps if st[0] == "req"]
    h = History(classes)
    h.steps = steps
    h.box_qcap = box.want_qcap
    pending = []
    done = []
    idx = -1

    def give_up(item):
        """the peer gives up on a request the server waits on"""
        req, c, info = item
        c.half_close()
        if not c.drain(2.0):
            box.dirty = True
        info["after_peer_close"] = c.buf[:60].decode("latin-1")
        # what the handler wrote once it had its EOF is not judged (the peer
        # had given up), but the tester must know whether an indication went
        # into the queue
        o2 = project(c.buf, c.eof, req)[0] if c.buf else blank_obs("closed")
        if o2["status"] == 200 and o2["leaf"] == [] and o2["bodywf"]:
            info["accepted_after_peer_close"] = True
            with box.lock:
                box.accepted.add(req.marker)
        elif not (o2["outcome"] == "response" and o2["nresp"] == 1 and
                  (o2["status"] >= 400 or o2["leaf"] == ["ERROR"])):
            box.dirty = True
        c.close()

    gave_up = []
    for op, cls, num in steps:
        if op == "block":
            box.hold()
            continue
        if op == "release":
            box.release()
            continue
        if op == "peerclose":
            for item in list(pending):
                if item[0].number == num:
                    pending.remove(item)
                    gave_up.append(item)
                    give_up(item)
            continue
        idx += 1
        req = reqs[idx] if reqs else concretise(rng, cls, next_uid())
        req.number = idx + 1
        # a tester that is prepared to wait does so before every request it
        # sends while it does not hold the callback; it claims 'drained' only
        # if, in addition, none of its earlier connections is still open
        seen = drain_wait > 0 and box.seen_drained(drain_wait)
        env = {"qcap": box.qcap, "drained": bool(seen and not pending)}
        try:
            c = Conn(box.port, req.raw)
        except OSError as exc:
            o = blank_obs("hang")
            info = {"connect_error": repr(exc)}
            box.dirty = True
            done.append((req, o, info, env))
            continue
        out = c.first()
        for _ in range(3):
            if not (c.send_error and out != "response"):
                break
            # our own send failed half way and nothing could be read: the
            # observation says nothing about the listener; try again
            c.close()
            c = Conn(box.port, req.raw)
            out = c.first()
        if c.send_error and out != "response":
            raise RuntimeError("cannot deliver a request of %d bytes" %
                               len(req.raw))
        info = {}
        if out == "response":
            eof = c.drain()
            o, info = project(c.buf, eof, req)
            c.close()
        elif out == "waiting":
            o = blank_obs("waiting")
            pending.append((req, c, info))
        else:
            o = blank_obs(out)
            if c.reset:
                info["reset"] = True
            c.close()
        if req.has_msgid and not o["reqid"]:
            o["reqid"] = [ord(ch) for ch in req.msgid]
        if o["status"] == 200 and o["leaf"] == [] and o["bodywf"]:
            with box.lock:
                box.accepted.add(req.marker)
        elif o["outcome"] == "waiting":
            pass    # open connection: resolved when the peer gives up (below)
        elif not (o["outcome"] == "response" and o["nresp"] == 1 and
                  (o["status"] >= 400 or o["leaf"] == ["ERROR"])):
            # no clear refusal and no clear acceptance: the tester can no
            # longer tell what sits in the queue of this listener
            box.dirty = True
        done.append((req, o, info, env))
    box.release()
    # peers give up on the requests the server still waits on
    for item in pending:
        give_up(item)
    pending = gave_up + pending
    # let the callback thread catch up: every 200/success answer (also those
    # written after a peer close) names an indication that must show up
    want = [req.marker for req, o, info, env in done
            if o["status"] == 200 and o["leaf"] == [] and o["bodywf"]]
    want += [req.marker for req, c, info in pending
             if info.get("accepted_after_peer_close")]
    t0 = time.time()
    while time.time() - t0 < T_DELIVER:
        if all(box.delivered(m) >= 1 for m in want):
            break
        time.sleep(0.01)
    else:
        box.dirty = True    # an accepted indication may still sit somewhere
    for req, o, info, env in done:
        o["ndeliv"] = box.delivered(req.marker)
        h.events.append({"kind": "req", "cls": req.cls, "obs": o, "env": env,
                         "alive": {"server": True, "callback": True}})
        info["raw_request"] = req.raw[:1500].decode("latin-1")
        info["raw_request_full"] = req.raw
        info["marker"] = req.marker
        info["msgid"] = req.msgid
        info["has_msgid"] = req.has_msgid
        info["verb"] = req.verb
        h.info.append(info)
    h.events.append({"kind": "end", "cls": dict(VALID),
                     "obs": blank_obs("response"),
                     "env": {"qcap": box.qcap, "drained": False},
                     "alive": box.alive()})
    h.info.append({})
    return h
