"""
X02 - stand-alone reproducers (no harness, real sockets) for the deviations of
WBEMListener.start() from its documentation:
  "If this method raises an exception, the callback thread and listener
   threads are cleaned up again."  /  "Raises: ListenerCertificateError ...
   ListenerPortError ... OSError"  /  class docstring: "The listener must be
   stopped in order to free the TCP/IP port it listens on."
Run:  /venv/bin/python X02_repro.py        (exit 1 if any deviation shows)
"""
import http.client
import logging
import queue
import socket
import sys
import threading
import time
import types
import warnings

import pywbem
import pywbem._listener as L
from pywbem import _cim_xml as X

logging.disable(logging.CRITICAL)
warnings.simplefilter("ignore")
bad = 0


def free_port():
    so = socket.socket()
    so.bind(("127.0.0.1", 0))
    p = so.getsockname()[1]
    so.close()
    return p


def bound(port):
    so = socket.socket()
    so.setsockopt(socket.SOL_SOCKET, socket.SO_REUSEADDR, 1)
    try:
        so.bind(("127.0.0.1", port))
        return False
    except OSError:
        return True
    finally:
        so.close()


def post(port, n):
    inst = pywbem.CIMInstance("T_Ind", properties=[
        pywbem.CIMProperty("Seq", pywbem.Uint32(n))])
    msg = X.CIM(X.MESSAGE(X.SIMPLEEXPREQ(X.EXPMETHODCALL(
        "ExportIndication",
        [X.EXPPARAMVALUE("NewIndication", inst.tocimxml())])),
        "m%d" % n, "1.4"), "2.0", "2.0")
    c = http.client.HTTPConnection("127.0.0.1", port, timeout=10)
    try:
        c.request("POST", "/", body=msg.toxml().encode("utf-8"), headers={
            "Content-Type": "application/xml; charset=utf-8",
            "CIMExport": "MethodRequest",
            "CIMExportMethod": "ExportIndication"})
    except ConnectionRefusedError:
        return False
    r = c.getresponse()
    data = r.read()
    c.close()
    return r.status == 200 and b"<ERROR" not in data


def names():
    return sorted(t.name for t in threading.enumerate()
                  if t.name in ("http", "https", "CallbackThread"))


# --- D1: HTTPS port in use -> HTTP listener thread keeps running -------------
blocker = socket.socket()
blocker.bind(("127.0.0.1", 0))
blocker.listen(1)
hp, sp = free_port(), blocker.getsockname()[1]
got = []
li = pywbem.WBEMListener("127.0.0.1", http_port=hp, https_port=sp,
                         certfile="nonexistent.pem", keyfile="nonexistent.pem")
li.add_callback(lambda ind, host: got.append(ind))
try:
    li.start()
except pywbem.ListenerPortError as exc:
    print("D1 start() raised ListenerPortError:", exc)
print("D1 after the failed start: http_started=%s threads=%s HTTP port "
      "bound=%s" % (li.http_started, names(), bound(hp)))
acked = post(hp, 1)
time.sleep(0.3)
print("D1 indication sent to the HTTP port: acknowledged=%s delivered=%d"
      % (acked, len(got)))
if li.http_started or "http" in names():
    bad += 1
    print("D1 DEVIATION: listener thread not cleaned up; an acknowledged "
          "indication is lost" if acked and not got else "D1 DEVIATION")
li.stop()
blocker.close()

# --- D2: unusable certificate -> HTTPS server socket stays bound -------------
sp = free_port()
li = pywbem.WBEMListener("127.0.0.1", https_port=sp,
                         certfile="nonexistent.pem", keyfile="nonexistent.pem")
try:
    li.start()
except pywbem.ListenerCertificateError as exc:
    print("D2 start() raised ListenerCertificateError")
    print("D2 while the caller still holds the exception: https_started=%s "
          "HTTPS port bound=%s" % (li.https_started, bound(sp)))
    if bound(sp):
        bad += 1
        print("D2 DEVIATION: a listener that is not started holds its port; "
              "stop() does not free it:", (li.stop(), bound(sp))[1])
# the leaked socket sits in a reference cycle (frame <-> exception), so it even
# survives the except block until the cyclic garbage collector runs: a retry
# (say, after repairing the certificate file) hits the listener's own socket
try:
    li.start()
except Exception as exc:  # noqa
    print("D2 retry of start() without gc.collect():", type(exc).__name__,
          "-", exc)
li.stop()

# --- D3: discard loop races with the callback thread -> queue.Empty ----------
# Only legal delays are inserted: a slow address resolution for the HTTPS port
# and a preemption of the main thread between empty() and get(block=False).


class SlowQueue(queue.Queue):
    def empty(self):
        r = super().empty()
        if threading.current_thread() is threading.main_thread() and not r:
            while self.qsize():          # the callback thread takes the item
                time.sleep(0.01)
        return r


L.queue = types.SimpleNamespace(Queue=SlowQueue, Empty=queue.Empty,
                                Full=queue.Full)
orig_make_server = L.make_server
hp, sp = free_port(), free_port()


def slow_make_server(logger, host, port, handler):
    if port == sp:
        time.sleep(1.0)
    return orig_make_server(logger, host, port, handler)


L.make_server = slow_make_server
li = pywbem.WBEMListener("127.0.0.1", http_port=hp, https_port=sp,
                         certfile="nonexistent.pem", keyfile="nonexistent.pem")
li.add_callback(lambda ind, host: time.sleep(1.5))


def sender():
    time.sleep(0.3)
    post(hp, 1)          # occupies the callback for 1.5 s
    post(hp, 2)          # waits in the queue


th = threading.Thread(target=sender)
th.start()
try:
    li.start()
    print("D3 start() returned?!")
except pywbem.ListenerCertificateError:
    print("D3 start() raised ListenerCertificateError (documented)")
except Exception as exc:  # noqa
    bad += 1
    print("D3 DEVIATION: start() raised %s.%s; threads left: %s" %
          (type(exc).__module__, type(exc).__name__, names()))
    try:
        li.start()
    except BaseException as exc2:  # noqa
        print("D3 a second start() raises", type(exc2).__name__)
th.join()
li.stop()
L.queue = queue
L.make_server = orig_make_server
print("deviations shown:", bad)
sys.exit(1 if bad else 0)
