"""Stand-alone reproducers for the three X01 deviations (documentation vs code)
on the pinned pywbem tree.  Run:  PYTHONPATH=/repo /venv/bin/python X01_repro.py
Each block prints DEVIATION when the documented promise does not hold."""
import pywbem
import pywbem_mock
from pywbem import CIMQualifierDeclaration as QD


def conn():
    c = pywbem_mock.FakedWBEMConnection(default_namespace="root/qa")
    c.add_namespace("root/qb")
    return c


# 1. R12 Isolated: BaseObjectStore.update "The object is copied into the object
#    store so the user can safely modify the original object"
c = conn()
c.SetQualifier(QD("QAlpha", "string", value="one", scopes={"CLASS": True}))
qd = QD("QAlpha", "string", value="two", scopes={"CLASS": True})
c.SetQualifier(qd)                      # replaces the existing declaration
qd.value = "changed by the client after the call"
got = c.GetQualifier("qalpha").value
print("1.", "DEVIATION" if got != "two" else "ok", "- GetQualifier returns", repr(got))

# 2. R9 RemoveNs: "CIM_ERR_NAMESPACE_NOT_EMPTY if attempting to delete the
#    default connection namespace.  This namespace cannot be deleted"
c = conn()
try:
    c.remove_namespace("root/qa")
    print("2. DEVIATION - default namespace removed; namespaces =", list(c.namespaces))
except pywbem.CIMError as exc:
    print("2. ok -", exc.status_code_name)

# 3. R7 Compile: "If a CIM class or CIM qualifier type to be added already
#    exists in the target namespace ... this method raises CIMError"
c = conn()
c.compile_mof_string('Qualifier QAlpha : string = "one", Scope(class);')
try:
    c.compile_mof_string('Qualifier qalpha : string = "two", Scope(property);')
    print("3. DEVIATION - no exception; declaration now:",
          c.GetQualifier("QALPHA").value)
except pywbem.Error as exc:
    print("3. ok -", type(exc).__name__)

# 4. R6 AddObj: "TypeError: Invalid type in `objects` parameter"
c = conn()
try:
    c.add_cimobjects([QD("QAlpha", "string"), 42])
    print("4. DEVIATION - accepted")
except (TypeError, ValueError) as exc:
    print("4. ok -", type(exc).__name__)
except Exception as exc:  # noqa
    print("4. DEVIATION -", type(exc).__name__, "raised (assert statement: nothing "
          "is raised under python -O)")
