"""Stand-alone reproducers for the deviations X05 found on the pinned tree.
Run:  PYTHONPATH=/repo /venv/bin/python /verif/.work/notes/X05_repro.py
Every line prints what the documentation promises and what happens."""
import pickle
from pywbem import NocaseDict
from pywbem._vendor.nocaselist import NocaseList


def show(title, promised, fn):
    try:
        got = repr(fn())
    except Exception as exc:  # noqa
        got = "raises %s: %s" % (type(exc).__name__, exc)
    print("%s\n    promised: %s\n    observed: %s" % (title, promised, got))


# 1. D.pop:Lookup.Result  (pywbem/_nocasedict.py pop)
show("NocaseDict().pop('missing')", "KeyError (dict.pop without default)",
     lambda: NocaseDict().pop('missing'))

# 2. D.new(*) / D.fromkeys: Unnamed.ValueError  (pywbem/_nocasedict.py __init__)
show("NocaseDict([(None, 1)])", "ValueError (unnamed key not allowed)",
     lambda: NocaseDict([(None, 1)]))
show("NocaseDict({'ab': 1, None: 2})", "ValueError (unnamed key not allowed)",
     lambda: NocaseDict({'ab': 1, None: 2}))
show("NocaseDict.fromkeys(['a', None])", "ValueError",
     lambda: NocaseDict.fromkeys(['a', None]))

# 3. L.remove  (_vendor/nocaselist remove)
def rm1():
    ncl = NocaseList(['a', 'B'])
    try:
        ncl.remove('A')
    except ValueError as exc:
        return "ValueError(%s); afterwards list=%r but 'a' in list -> %r" % (
            exc, list(ncl), 'a' in ncl)
    return list(ncl)
show("NocaseList(['a','B']).remove('A')",
     "removes 'a' ('comparing ... case-insensitively')", rm1)
def rm2():
    ncl = NocaseList(['a', 'A'])
    ncl.remove('A')
    return list(ncl)
show("NocaseList(['a','A']).remove('A')", "['A'] (the FIRST matching item goes)",
     rm2)

# 4. L.extend(gen) / L.iadd(gen) / L.setslice(gen)
def ext():
    ncl = NocaseList(['a'])
    ncl.extend(iter(['B']))
    return "list=%r, 'b' in list -> %r, count('B') -> %r" % (
        list(ncl), 'b' in ncl, ncl.count('B'))
show("ncl.extend(iter(['B']))", "'b' in ncl is True", ext)
def iadd():
    ncl = NocaseList(['a'])
    ncl += (x for x in ['B'])
    return "list=%r, 'B' in list -> %r" % (list(ncl), 'B' in ncl)
show("ncl += (generator)", "'B' in ncl is True ('must be an iterable but is "
     "otherwise not restricted in type')", iadd)
def setslice():
    ncl = NocaseList(['a', 'b'])
    try:
        ncl[0:1] = iter(['X'])
    except Exception as exc:  # noqa
        return "raises %s; afterwards list=%r, 'x' in list -> %r, " \
            "'a' in list -> %r" % (type(exc).__name__, list(ncl), 'x' in ncl,
                                   'a' in ncl)
    return list(ncl)
show("ncl[0:1] = iter(['X'])", "['X', 'b'] with 'x' in ncl (list semantics)",
     setslice)

# 5. L.copy(pickle0/1)
for proto in (0, 1, 2):
    def rt(proto=proto):
        ncl = pickle.loads(pickle.dumps(NocaseList(['A']), proto))
        return "list=%r, 'a' in list -> %r" % (list(ncl), 'a' in ncl)
    show("pickle protocol %d round trip" % proto,
         "'a' in result ('supports serialization via the Python pickle module')",
         rt)
