"""corrupt one field of recorded (accepted) vectors and confirm TLC rejects"""
import json, sys, glob, copy
sys.path.insert(0, '/verif/harness')
import vlib
ctx = vlib.Ctx("C05_corrupt", "quick", 0)
pair = trip = cp = hs = None
for fn in sorted(glob.glob('/verif/.work/C05/batch*.json')):
    for t in json.load(open(fn))["traces"]:
        e = t[0]
        if e["ev"] == "pair" and pair is None and e["eab"] == "T" and e["a"] != e["b"] and e["h"] == "T":
            pair = e
        if e["ev"] == "triple" and trip is None and e["eab"] == e["ebc"] == "T":
            trip = e
        if e["ev"] == "copy" and cp is None and e["m"] == "copy" and e["k"] == "Instance" and any(m["steps"] == ["props:D"] for m in e["muts"]) and e["h"] == "T":
            cp = e
        if e["ev"] == "hist" and hs is None and e["eab"] == "T" and e["h"] == "T" and len(e["acts"]) == 2:
            hs = e
tests = [("pair unchanged", pair, None)]
def mut(e, **kw):
    x = copy.deepcopy(e); x.update(kw); return x
tests += [("pair eab T->F", mut(pair, eab="F"), "rej"),
          ("pair nab F->T", mut(pair, nab="T"), "rej"),
          ("pair h T->F", mut(pair, h="F"), "rej"),
          ("pair inset T->F", mut(pair, inset="F"), "rej"),
          ("triple unchanged", trip, None),
          ("triple eac T->F", mut(trip, eac="F"), "rej"),
          ("copy unchanged", cp, None)]
x = copy.deepcopy(cp); x["muts"][0]["same"] = "F"
tests.append(("copy props:D mutation same T->F", x, "rej"))
x = copy.deepcopy(cp); x["ceq"] = "F"
tests.append(("copy ceq T->F", x, "rej"))
x = copy.deepcopy(cp); x["c"]["nm"][0]["b"] = "n9"
tests.append(("copy projected classname base changed", x, "rej"))
tests.append(("hist unchanged", hs, None))
tests.append(("hist h T->F (stale hash)", mut(hs, h="F"), "rej"))
tests.append(("hist inset T->F", mut(hs, inset="F"), "rej"))
x = copy.deepcopy(hs); x["acts"][1]["v"] = "frobnicate"
tests.append(("hist unknown action", x, "rej"))
vs = ctx.validate_traces("CimEqTrace", "CimEqTrace.cfg", [[t[1]] for t in tests])
ok = True
for (name, _e, exp), v in zip(tests, vs):
    good = (v["ok"] and exp is None) or (not v["ok"] and exp == "rej")
    ok &= good
    print("%-45s -> %s %s" % (name, "accepted" if v["ok"] else "REJECTED %s" % v["clauses"], "" if good else "  <-- UNEXPECTED"))
print("corruption test", "passed" if ok else "FAILED")
