"""Minimal reproducers for the C02 findings (run: /venv/bin/python C02_repro.py).
Every case answers one WBEMConnection call with one HTTP response and prints
what escapes; everything printed as LEAK is not a pywbem.Error."""
import pywbem
import requests_mock

ENV = ('<?xml version="1.0" encoding="utf-8" ?><CIM CIMVERSION="2.0" '
       'DTDVERSION="2.0"><MESSAGE ID="1" PROTOCOLVERSION="1.0"><SIMPLERSP>'
       '<%(r)s NAME="%(n)s">%(b)s</%(r)s></SIMPLERSP></MESSAGE></CIM>')
IP = pywbem.CIMInstanceName('C', {'k': 1})
INST = '<INSTANCE CLASSNAME="C">%s</INSTANCE>'


def case(title, call, name, inner, r='IMETHODRESPONSE', raw=None, **resp):
    conn = pywbem.WBEMConnection('http://srv', default_namespace='root/a')
    body = raw if raw is not None else (ENV % dict(r=r, n=name, b=inner)).encode()
    resp.setdefault('headers', {'Content-Type': 'application/xml'})
    with requests_mock.Mocker() as m:
        m.post('http://srv:5988/cimom', content=body, **resp)
        try:
            res = call(conn)
            print('%-58s returned %.60r' % (title, res))
        except pywbem.Error as exc:
            print('%-58s ok: %s' % (title, type(exc).__name__))
        except Exception as exc:  # noqa
            print('%-58s LEAK %s: %.70s' % (title, type(exc).__name__, exc))


get = lambda c: c.GetInstance(IP)                                   # noqa
case('1  ERROR CODE="x"', get, 'GetInstance', '<ERROR CODE="x"/>')
case('2  VALUE.NULL in uint8 array', get, 'GetInstance',
     '<IRETURNVALUE>' + INST % '<PROPERTY.ARRAY NAME="p" TYPE="uint8">'
     '<VALUE.ARRAY><VALUE>1</VALUE><VALUE.NULL/></VALUE.ARRAY>'
     '</PROPERTY.ARRAY>' + '</IRETURNVALUE>')
case('3  ARRAYSIZE="x"', get, 'GetInstance',
     '<IRETURNVALUE>' + INST % '<PROPERTY.ARRAY NAME="p" TYPE="uint8" '
     'ARRAYSIZE="x"/>' + '</IRETURNVALUE>')
case('4  PullInstancesWithPath: empty IMETHODRESPONSE',
     lambda c: c.PullInstancesWithPath(('ctx', 'root/a'), 1),
     'PullInstancesWithPath', '')
case('5  EnumerateInstances answered with INSTANCE',
     lambda c: c.EnumerateInstances('C'), 'EnumerateInstances',
     '<IRETURNVALUE>' + INST % '' + '</IRETURNVALUE>')
case('6  Associators answered with CLASSNAME',
     lambda c: c.Associators(IP), 'Associators',
     '<IRETURNVALUE><CLASSNAME NAME="C"/></IRETURNVALUE>')
case('7  Associators answered with INSTANCENAME',
     lambda c: c.Associators(IP), 'Associators',
     '<IRETURNVALUE><INSTANCENAME CLASSNAME="C"/></IRETURNVALUE>')
case('8  ReferenceNames answered with VALUE',
     lambda c: c.ReferenceNames(IP), 'ReferenceNames',
     '<IRETURNVALUE><VALUE>x</VALUE></IRETURNVALUE>')
case('9  ExecQuery answered with VALUE.OBJECT/CLASS',
     lambda c: c.ExecQuery('WQL', 'select * from C'), 'ExecQuery',
     '<IRETURNVALUE><VALUE.OBJECT><CLASS NAME="C"/></VALUE.OBJECT>'
     '</IRETURNVALUE>')
case('10 Associators(class) answered with instances',
     lambda c: c.Associators('C'), 'Associators',
     '<IRETURNVALUE><VALUE.OBJECT>' + INST % '' + '</VALUE.OBJECT>'
     '</IRETURNVALUE>')
inv = lambda c: c.InvokeMethod('M', 'C')                             # noqa
case('11 InvokeMethod: RETURNVALUE without PARAMTYPE', inv, 'M',
     '<RETURNVALUE><VALUE>1</VALUE></RETURNVALUE>', r='METHODRESPONSE')
case('12 InvokeMethod: uint8 return value "0x1f" (valid DSP0201)', inv, 'M',
     '<RETURNVALUE PARAMTYPE="uint8"><VALUE>0x1f</VALUE></RETURNVALUE>',
     r='METHODRESPONSE')
case('13 InvokeMethod: PARAMVALUE PARAMTYPE="uint128"', inv, 'M',
     '<PARAMVALUE NAME="o" PARAMTYPE="uint128"><VALUE>1</VALUE></PARAMVALUE>',
     r='METHODRESPONSE')
case('14 InvokeMethod: datetime out parameter "yesterday"', inv, 'M',
     '<PARAMVALUE NAME="o" PARAMTYPE="datetime"><VALUE>yesterday</VALUE>'
     '</PARAMVALUE>', r='METHODRESPONSE')
case('15 InvokeMethod: two RETURNVALUE elements', inv, 'M',
     '<RETURNVALUE PARAMTYPE="uint8"><VALUE>1</VALUE></RETURNVALUE>' * 2,
     r='METHODRESPONSE')
case('16 InvokeMethod: INSTANCE child with PARAMTYPE="uint8"', inv, 'M',
     '<PARAMVALUE NAME="o" PARAMTYPE="uint8">' + INST % '' + '</PARAMVALUE>',
     r='METHODRESPONSE')
case('17 encoding="shift_jis"', get, '', '',
     raw=b'<?xml version="1.0" encoding="shift_jis"?><CIM/>')
case('18 encoding="no-such-enc"', get, '', '',
     raw=b'<?xml version="1.0" encoding="no-such-enc"?><CIM/>')
case('19 encoding="idna"', get, '', '',
     raw=b'<?xml version="1.0" encoding="idna"?><CIM/>')
deep = '<INSTANCENAME CLASSNAME="C"><KEYBINDING NAME="k"><KEYVALUE>v' \
       '</KEYVALUE></KEYBINDING></INSTANCENAME>'
for _ in range(200):
    deep = '<INSTANCENAME CLASSNAME="C"><KEYBINDING NAME="k">' \
           '<VALUE.REFERENCE>%s</VALUE.REFERENCE></KEYBINDING>' \
           '</INSTANCENAME>' % deep
case('20 reference keys nested 200 deep',
     lambda c: c.EnumerateInstanceNames('C'), 'EnumerateInstanceNames',
     '<IRETURNVALUE>%s</IRETURNVALUE>' % deep)
case('21 302 with Location: http://[bad', get, '', '', raw=b'',
     status_code=302, headers={'Location': 'http://[bad'})
case('22 OpenEnumerateInstances answered with CLASS elements',
     lambda c: c.OpenEnumerateInstances('C'), 'OpenEnumerateInstances',
     '<IRETURNVALUE><CLASS NAME="C"/></IRETURNVALUE><PARAMVALUE '
     'NAME="EndOfSequence"><VALUE>TRUE</VALUE></PARAMVALUE>')
case('23 OpenQueryInstances: EmbeddedObject on QueryResultClass',
     lambda c: c.OpenQueryInstances('WQL', 'q'), 'OpenQueryInstances',
     '<PARAMVALUE NAME="QueryResultClass" EmbeddedObject="object">'
     '<CLASS NAME="C"/></PARAMVALUE><PARAMVALUE NAME="EndOfSequence">'
     '<VALUE>TRUE</VALUE></PARAMVALUE>')
