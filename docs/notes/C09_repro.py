"""C09: minimal reproducers of the genuine defects (run: PYTHONPATH=/repo /venv/bin/python C09_repro.py)"""
import os, sys, tempfile
from pywbem import MOFCompiler, MOFWBEMConnection, CIMError
from pywbem._mof_compiler import MOFCompileError, BaseRepositoryConnection

def t(label, mof=None, fn=None, **kw):
    c = MOFCompiler(kw.pop("handle", None) or MOFWBEMConnection(), log_func=None, **kw)
    try:
        fn(c) if fn else c.compile_string(mof, "root/cimv2")
        print("%-4s ok" % label)
    except MOFCompileError as e:
        print("%-4s %s (fine)" % (label, type(e).__name__))
    except BaseException as e:
        print("%-4s ESCAPES %s: %s" % (label, type(e).__name__, str(e)[:90]))

t("A", '#pragma namespace("1:")')                                   # AttributeError
t("B", 'Qualifier Q : string = "abc\\x41", Scope(any);')            # IndexError (valid MOF!)
t("C", 'class A {\n\r\r\r@\n};')                                    # IndexError in _get_error_context
d = tempfile.mkdtemp(dir="/verif/.work")
open(os.path.join(d, "self.mof"), "w").write('#pragma include("self.mof")\n')
t("D1", fn=lambda c: c.compile_file(os.path.join(d, "self.mof"), "root/cimv2"))   # RecursionError
open(os.path.join(d, "SPA.mof"), "w").write("class SPA : SPB {};\n")
open(os.path.join(d, "SPB.mof"), "w").write("class SPB : SPA {};\n")
t("D2", "class C : SPA {};", search_paths=[d])                      # RecursionError
t("E1", 'Qualifier Q : uint8 = 300, Scope(any);')                   # ValueError
t("E2", 'class A { uint8 p = "x"; };')                              # ValueError
t("E3", 'class A { datetime p = 3; };')                             # TypeError
t("E4", 'Qualifier M : uint32 = null, Scope(any);\nclass A { [M("x")] string p; };')  # ValueError
t("E5", 'class A { datetime d; };\ninstance of A { d = 3; };')      # TypeError
t("F", 'class A { uint64 p = ' + "1" * 5000 + '; };')               # ValueError (int max str digits)

class Stub(MOFWBEMConnection):
    """repository that rejects like a server may"""
    def __init__(self, op, code):
        super().__init__(); self.op, self.code = op, code
    def SetQualifier(self, *a, **k):
        if self.op == "SetQualifier": raise CIMError(self.code, "rejected")
        return super().SetQualifier(*a, **k)
    def CreateClass(self, *a, **k):
        if self.op == "CreateClass": raise CIMError(self.code, "rejected")
        return super().CreateClass(*a, **k)
    def CreateInstance(self, *a, **k):
        if self.op == "CreateInstance": raise CIMError(self.code, "rejected")
        return super().CreateInstance(*a, **k)
Q = 'Qualifier Q : string = "a", Scope(any);'
t("G1", Q, handle=Stub("SetQualifier", 3))      # AttributeError: server is None
t("G2", Q, handle=Stub("SetQualifier", 7))      # CIMError escapes from the retry
t("G3", "class A { uint8 p; };", handle=Stub("CreateClass", 3))    # AttributeError
t("G4", "class A { uint8 p; };", handle=Stub("CreateClass", 10))   # AttributeError (find_mof(None))
h = Stub("none", 0)
c = MOFCompiler(h, log_func=None)
c.compile_string('Qualifier Key : boolean = false, Scope(any);\nclass A { [Key] uint8 k; string s; };', "root/cimv2")
h.op, h.code = "CreateInstance", 11
try:
    c.compile_string('instance of A { s = "nokey"; };', "root/cimv2")
except MOFCompileError as e: print("G5   fine")
except BaseException as e: print("G5   ESCAPES %s: %s" % (type(e).__name__, e))   # ValueError from _format
import shutil; shutil.rmtree(d)
