"""
X06 - stand-alone reproducers of the deviations between the documentation of
pywbem.WBEMServer and the code (pinned tree).  Needs only pywbem + pywbem_mock:
    /venv/bin/python /verif/.work/notes/X06_repro.py
Every block prints what the documentation promises and what happens.
"""
import pywbem
import pywbem_mock
from pywbem import CIMInstance, CIMInstanceName, CIMProperty, Uint16

MOF = """
Qualifier Key : boolean = false, Scope(property, reference),
    Flavor(DisableOverride, ToSubclass);
Qualifier Association : boolean = false, Scope(association),
    Flavor(DisableOverride, ToSubclass);
Qualifier In : boolean = true, Scope(parameter), Flavor(DisableOverride, ToSubclass);
Qualifier Out : boolean = false, Scope(parameter), Flavor(DisableOverride, ToSubclass);
Qualifier ValueMap : string[], Scope(property, method, parameter);
Qualifier Values : string[], Scope(property, method, parameter),
    Flavor(EnableOverride, ToSubclass, Translatable);
class CIM_ManagedElement { string Caption; string Description; string ElementName; };
class CIM_Namespace : CIM_ManagedElement {
  [Key] string SystemCreationClassName; [Key] string SystemName;
  [Key] string ObjectManagerCreationClassName; [Key] string ObjectManagerName;
  [Key] string CreationClassName; [Key] string Name; };
class CIM_ObjectManager : CIM_ManagedElement {
  [Key] string SystemCreationClassName; [Key] string SystemName;
  [Key] string CreationClassName; [Key] string Name; string Version; };
class CIM_RegisteredProfile : CIM_ManagedElement {
  [Key] string InstanceID;
  [ValueMap {"1","2","11"}, Values {"Other","DMTF","SNIA"}]
  uint16 RegisteredOrganization;
  string RegisteredName; string RegisteredVersion; };
[Association] class CIM_ElementConformsToProfile {
  [Key] CIM_RegisteredProfile REF ConformantStandard;
  [Key] CIM_ManagedElement REF ManagedElement; };
[Association] class CIM_ReferencedProfile {
  [Key] CIM_RegisteredProfile REF Antecedent;
  [Key] CIM_RegisteredProfile REF Dependent; };
class TST_S : CIM_ManagedElement { [Key] string Id; };
class TST_C : CIM_ManagedElement { [Key] string Id; };
[Association] class TST_A1 {
  [Key] CIM_ManagedElement REF Left; [Key] CIM_ManagedElement REF Right; };
"""
from pywbem_mock.config import (OBJECTMANAGERNAME, SYSTEMNAME,
                                SYSTEMCREATIONCLASSNAME,
                                OBJECTMANAGERCREATIONCLASSNAME)
I = "interop"


def server(om_props=None, two=False):
    conn = pywbem_mock.FakedWBEMConnection(default_namespace=I)
    conn.compile_mof_string(MOF, namespace=I)
    conn.install_namespace_provider(I)
    if om_props is not None:
        props = dict(SystemCreationClassName=SYSTEMCREATIONCLASSNAME,
                     SystemName=SYSTEMNAME,
                     CreationClassName=OBJECTMANAGERCREATIONCLASSNAME,
                     Name=OBJECTMANAGERNAME)
        props.update(om_props)
        conn.CreateInstance(CIMInstance("CIM_ObjectManager", properties=props),
                            namespace=I)
        if two:
            props["Name"] = "second"
            props.pop("ElementName", None)
            conn.CreateInstance(CIMInstance("CIM_ObjectManager",
                                            properties=props), namespace=I)
    return conn


def show(label, fn):
    try:
        print("   %-44s -> %r" % (label, fn()))
    except Exception as exc:  # noqa
        print("   %-44s -> raises %s: %s" % (label, type(exc).__name__,
                                              str(exc)[:90]))


PLAIN = dict(ElementName="Mock", Description="Mock Version 1.0.0")

print("1. brand: docstring lists the normalised brand 'FUJITSU CIM Object "
      "Manager'")
s = pywbem.WBEMServer(server(dict(
    ElementName="CIM Object Manager for FUJITSU storage system",
    Description="CIM Object Manager for FUJITSU storage system")))
show("brand", lambda: s.brand)

print("2. brand: '... or the string \"unknown\", if that property is not set'")
s = pywbem.WBEMServer(server(dict(Description="Foo Version 1.2.3")))
show("brand (no ElementName)", lambda: s.brand)
show("version (no ElementName)", lambda: s.version)

print("3. version: 'None, if the version cannot be determined'")
s = pywbem.WBEMServer(server(dict(ElementName="Pegasus")))
show("brand (Pegasus, no Description)", lambda: s.brand)
show("version (Pegasus, no Description)", lambda: s.version)

print("4. brand: 'CIMError: CIM_ERR_NOT_FOUND, Unexpected number of "
      "CIM_ObjectManager instances' (ModelError since 0.12)")
s = pywbem.WBEMServer(server(dict(PLAIN), two=True))
show("brand (two object managers)", lambda: s.brand)

print("5. delete_namespace: 'CIM_ERR_NOT_FOUND, Specified namespace does not "
      "exist' - but it exists (namespace names are case insensitive)")
s = pywbem.WBEMServer(server(dict(PLAIN)))
show("create_namespace('Root/New')", lambda: s.create_namespace("Root/New"))
show("delete_namespace('root/new')", lambda: s.delete_namespace("root/new"))

print("6. create_namespace of an existing namespace (other lexical case): "
      "pywbem_mock documents 'already exists' (CIM_ERR_INVALID_PARAMETER)")
show("create_namespace('ROOT/NEW')", lambda: s.create_namespace("ROOT/NEW"))
show("namespaces", lambda: s.namespaces)
show("repository namespaces", lambda: list(s.conn.namespaces))
show("delete_namespace('ROOT/NEW')", lambda: s.delete_namespace("ROOT/NEW"))
show("namespaces (dangling instance)", lambda: s.namespaces)
show("repository namespaces", lambda: list(s.conn.namespaces))

print("7. get_central_instances: malformed scoping_path is a user error "
      "(documented: ValueError)")


class NoCentral(pywbem_mock.FakedWBEMConnection):
    """server that does not implement the central class methodology"""
    def AssociatorNames(self, ObjectName, AssocClass=None, **kw):
        if (AssocClass or "").lower() == "cim_elementconformstoprofile" and \
                ObjectName.keybindings["InstanceID"] == "comp":
            raise pywbem.CIMError(pywbem.CIM_ERR_NOT_SUPPORTED, "no")
        return super().AssociatorNames(ObjectName, AssocClass=AssocClass, **kw)


conn = NoCentral(default_namespace=I)
conn.compile_mof_string(MOF, namespace=I)


def prof(i):
    return conn.CreateInstance(CIMInstance("CIM_RegisteredProfile", properties=dict(
        InstanceID=i, RegisteredOrganization=Uint16(2), RegisteredName=i,
        RegisteredVersion="1.0.0")), namespace=I)


comp, auto = prof("comp"), prof("auto")
sys_ = conn.CreateInstance(CIMInstance("TST_S", properties=dict(Id="s")), namespace=I)
fan = conn.CreateInstance(CIMInstance("TST_C", properties=dict(Id="c")), namespace=I)
conn.CreateInstance(CIMInstance("CIM_ReferencedProfile", properties=dict(
    Antecedent=comp, Dependent=auto)), namespace=I)
conn.CreateInstance(CIMInstance("CIM_ElementConformsToProfile", properties=dict(
    ConformantStandard=auto, ManagedElement=sys_)), namespace=I)
conn.CreateInstance(CIMInstance("TST_A1", properties=dict(Left=fan, Right=sys_)),
                    namespace=I)
s = pywbem.WBEMServer(conn)
show("scoping_path=['TST_A1'] (well formed)", lambda: [
    str(p) for p in s.get_central_instances(comp, "TST_C", "TST_S", ["TST_A1"])])
show("scoping_path=[]", lambda: s.get_central_instances(comp, "TST_C", "TST_S", []))
show("scoping_path=['TST_A1', 'TST_A1']", lambda: s.get_central_instances(
    comp, "TST_C", "TST_S", ["TST_A1", "TST_A1"]))
