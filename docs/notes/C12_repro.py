# Reproducers for the three C12 defects (run: /venv/bin/python C12_repro.py)
import pywbem_mock
from pywbem import CIMClass, CIMProperty, CIMQualifier
Q = '''
Qualifier Key : boolean = false, Scope(property), Flavor(DisableOverride, ToSubclass);
Qualifier Override : string = null, Scope(property, method), Flavor(EnableOverride, Restricted);
Qualifier QA : string = null, Scope(any), Flavor(EnableOverride, ToSubclass);
Qualifier QC : string = null, Scope(any), Flavor(DisableOverride, ToSubclass);
'''
# 1. class-level qualifiers are never inherited / DisableOverride not enforced
c = pywbem_mock.FakedWBEMConnection()
c.compile_mof_string(Q + '[QA("1"), QC("1")] class A { [Key] uint32 k; };'
                     'class B : A { };  [QC("2")] class C : A { };')
print(1, dict(c.GetClass("B", LocalOnly=False, IncludeQualifiers=True).qualifiers))
#    -> {}            expected QA="1" and QC="1" (both ToSubclass)
print(1, c.GetClass("C", LocalOnly=False, IncludeQualifiers=True).qualifiers["QC"].value)
#    -> '2' accepted  expected CIMError: QC is DisableOverride and A has QC="1"

# 2. parameters of an overriding method: qualifiers not inherited / not enforced
c = pywbem_mock.FakedWBEMConnection()
c.compile_mof_string(Q + 'class A { [Key] uint32 k; uint32 m([QA("1"), QC("1")] string x); };'
                     'class B : A { [Override("m")] uint32 m(string x); };'
                     'class C : A { [Override("m")] uint32 m([QC("2")] string x); };')
print(2, dict(c.GetClass("B", LocalOnly=False, IncludeQualifiers=True).methods["m"].parameters["x"].qualifiers))
#    -> {}            expected QA="1", QC="1";  class C (QC="2") should have been refused

# 3. CreateClass path: a DisableOverride qualifier restated by an override stops flowing
c = pywbem_mock.FakedWBEMConnection()
c.compile_mof_string(Q)
def cls(name, sup, quals):
    return CIMClass(name, superclass=sup, properties=[
        CIMProperty("k", None, type="uint32", qualifiers=[CIMQualifier("Key", True)])] if not sup else [
        CIMProperty("p", "x", type="string", qualifiers=[CIMQualifier(n, v) for n, v in quals.items()])])
c.CreateClass(CIMClass("A", properties=[
    CIMProperty("k", None, type="uint32", qualifiers=[CIMQualifier("Key", True)]),
    CIMProperty("p", "x", type="string", qualifiers=[CIMQualifier("QC", "1")])]))
c.CreateClass(cls("B", "A", {"Override": "p", "QC": "1"}))      # restates QC="1"
c.CreateClass(cls("C", "B", {"Override": "p"}))
c.CreateClass(cls("D", "B", {"Override": "p", "QC": "2"}))      # should be refused
print(3, sorted(c.GetClass("C", LocalOnly=False, IncludeQualifiers=True).properties["p"].qualifiers))
#    -> ['Override']  expected QC="1" too;  class D (QC="2") was accepted
print(3, c.GetClass("B", LocalOnly=False).properties["p"].qualifiers["QC"].tosubclass)
#    -> None          (flavor attributes never initialised)

# observation (not a C12 violation): EnumerateClasses ignores IncludeClassOrigin=True
print(4, [p.class_origin for p in c.EnumerateClasses(IncludeClassOrigin=True, LocalOnly=False)[0].properties.values()])
