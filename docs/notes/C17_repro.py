# C17 reproducers against the real listener (no harness needed):
#   /venv/bin/python /verif/.work/notes/C17_repro.py
import logging, socket, pywbem
s = socket.socket(); s.bind(("127.0.0.1", 0)); port = s.getsockname()[1]; s.close()
lst = pywbem.WBEMListener("127.0.0.1", http_port=port)
lst.logger.setLevel(logging.CRITICAL + 1); lst.start()
lst._http_server.handle_error = lambda *a: None   # keep stderr quiet
def ask(headers, body, wait=1.0):
    c = socket.create_connection(("127.0.0.1", port), timeout=wait)
    c.sendall(("POST / HTTP/1.1\r\nContent-Type: text/xml\r\n" + headers + "\r\n").encode() + body)
    buf = b""
    try:
        while True:
            d = c.recv(65536)
            if not d: return buf or "CONNECTION CLOSED WITHOUT A RESPONSE"
            buf += d
    except socket.timeout:
        return buf or "NO RESPONSE (handler blocks until the peer closes)"
bad = b"<CIM>\nX-Injected: 1 </a>"
ver = '<CIM CIMVERSION="2.0" DTDVERSION="Ā"><MESSAGE ID="1" PROTOCOLVERSION="1.4"/></CIM>'.encode()
try:
    print("1 ill-formed body      :", ask("Content-Length: %d\r\n" % len(bad), bad))
    print("2 folded Accept header :", ask("Accept: text/html\r\n X-Injected: 1\r\nContent-Length: 0\r\n", b""))
    print("3 Content-Length: abc  :", ask("Content-Length: abc\r\n", bad))
    print("4 Content-Length: -5   :", ask("Content-Length: -5\r\n", bad))
    print("5 Content-Length: -1   :", ask("Content-Length: -1\r\n", bad))
    print("6 Content-Length: 2^64 :", ask("Content-Length: %d\r\n" % 2**64, bad))
    print("7 DTDVERSION=U+0100    :", ask("Content-Length: %d\r\n" % len(ver), ver))
finally:
    lst.stop()
