"""
X03 - stand-alone reproducers (run: /venv/bin/python X03_repro.py) for the
discrepancies between the documentation of user-defined providers in the
pywbem mock WBEM server and the code.  Nothing from /verif is imported.
"""
import os
import tempfile
import warnings

import pywbem
import pywbem_mock
from pywbem import CIMInstance, CIMInstanceName, CIMProperty, Uint32, Uint8
from pywbem_mock import InstanceWriteProvider, MethodProvider

warnings.simplefilter("ignore")

QUALS = """
Qualifier Key : boolean = false, Scope(property, reference),
    Flavor(DisableOverride, ToSubclass);
Qualifier In : boolean = true, Scope(parameter),
    Flavor(DisableOverride, ToSubclass);
Qualifier Out : boolean = false, Scope(parameter),
    Flavor(DisableOverride, ToSubclass);
Qualifier Static : boolean = false, Scope(property, method),
    Flavor(DisableOverride, ToSubclass);
"""
PA = """class PA { [Key] uint32 K; string S;
    [Static] uint32 SM([IN] uint8 P1, [IN ( false ), OUT] string O1); };
"""
PB = "class PB : PA { string U; };\n"
PS = "class PS { [Key] uint32 K; };\n"


def fresh():
    conn = pywbem_mock.FakedWBEMConnection(default_namespace="root/a")
    conn.add_namespace("root/b")
    for ns in ("root/a", "root/b"):
        conn.compile_mof_string(QUALS + PA + PB, namespace=ns)
    return conn


def show(title, fn):
    try:
        r = fn()
        print("%-58s -> returned %r" % (title, r))
    except Exception as exc:  # noqa
        print("%-58s -> %s: %s" % (title, type(exc).__name__,
                                   str(exc).replace("\n", " ")[:110]))


def schema_dir():
    d = tempfile.mkdtemp()
    os.mkdir(os.path.join(d, "cls"))
    open(os.path.join(d, "qualifiers.mof"), "w").write(QUALS)
    for n, t in (("PA", PA), ("PB", PB), ("PS", PS)):
        open(os.path.join(d, "cls", n + ".mof"), "w").write(t)
    open(os.path.join(d, "schema.mof"), "w").write(
        '#pragma include ("qualifiers.mof")\n' +
        "".join('#pragma include ("cls/%s.mof")\n' % n
                for n in ("PA", "PB", "PS")))
    return os.path.join(d, "schema.mof")


class IW(InstanceWriteProvider):
    provider_classnames = "PA"


print("D1  documented: TypeError (namespace parameter invalid)")
conn = fresh()
show("register_provider(p, namespaces=5)",
     lambda: conn.register_provider(IW(conn.cimrepository), namespaces=5))

print("D2  documented: ValueError (classnames not a string or iterable)")
p = IW(conn.cimrepository)
p.provider_classnames = 5
show("provider_classnames = 5", lambda: conn.register_provider(p))
p.provider_classnames = ["PA", 5]
show("provider_classnames = ['PA', 5]", lambda: conn.register_provider(p))

print("D3  documented: class names 'in any lexical case'")
pragma = schema_dir()


class IWS(InstanceWriteProvider):
    provider_classnames = "ps"            # file is cls/PS.mof


show("provider_classnames='ps', schema_pragma_files=...",
     lambda: conn.register_provider(IWS(conn.cimrepository),
                                    schema_pragma_files=pragma))
IWS.provider_classnames = "PS"
show("provider_classnames='PS', schema_pragma_files=...",
     lambda: conn.register_provider(IWS(conn.cimrepository),
                                    schema_pragma_files=pragma))

print("D4  documented: missing classes of the provider are installed")
conn = fresh()


class MBS(MethodProvider):
    provider_classnames = ["PA", "PS"]    # PA exists (has subclass PB)


show("classes ['PA','PS'], PS missing, PA has a subclass",
     lambda: conn.register_provider(MBS(conn.cimrepository),
                                    schema_pragma_files=pragma))

print("D5  documented: input parameters validated against their 'In' "
      "qualifier before the provider is called")
conn = fresh()
seen = []


class M(MethodProvider):
    provider_classnames = "PA"

    def InvokeMethod(self, methodname, localobject, params):
        seen.append(sorted(params.keys()))
        return (Uint32(0), [])


conn.register_provider(M(conn.cimrepository))
show("InvokeMethod('SM', 'PA', P1=1, O1='x')  (O1 is OUT only)",
     lambda: conn.InvokeMethod("SM", "PA", P1=Uint8(1), O1="x"))
print("    provider was called with parameters:", seen)

print("incidental (MOF compiler support of the mock, not X03's subject):")
conn = fresh()
conn.compile_mof_string("class PB : PA { string U; string Extra; };",
                        namespace="root/b")
print("    compiled a changed PB into root/b; properties of PB now:")
for ns in ("root/a", "root/b"):
    print("     ", ns, sorted(conn.GetClass("PB", namespace=ns,
                                            LocalOnly=True).properties))
