"""Stand-alone reproducers for the X04 deviations (documentation vs code).
Run: /venv/bin/python X04_repro.py      (needs only pywbem; no server)"""
import pywbem
import pywbem_mock

print("1. FakedWBEMConnection: operation after close() (close(): 'Any "
      "subsequent WBEM connection operation requests will generate an "
      "exception')")
c = pywbem_mock.FakedWBEMConnection()
c.compile_mof_string("class C { uint8 k; };")
c.close()
print("   after close():", c.EnumerateClassNames(), " <- returned, no exception")

print("2. last_request with debug off (documented: None)")
conn = pywbem.WBEMConnection("http://127.0.0.1:1", timeout=1)   # nothing listens


def op(cls):
    try:
        conn.EnumerateInstanceNames(cls)
    except pywbem.ConnectionError:
        pass


conn.debug = True
op("First")
conn.debug = False
op("Second")
print("   debug=%r, last_raw_request names %s, last_request names %s" % (
    conn.debug, "Second" if "Second" in conn.last_raw_request else "?",
    "First (stale)" if conn.last_request and "First" in conn.last_request
    else conn.last_request))

print("3. last_request_len 'in Bytes'")
op("Cläss€")
print("   last_request_len=%d, bytes of last_raw_request=%d" % (
    conn.last_request_len, len(conn.last_raw_request.encode("utf-8"))))

print("4. min_server_time after an operation without server response time "
      "(documented: 0)")
st = pywbem.Statistics(True)
h = st.start_timer("Op")
h.stop_timer(10, 10, None)
s = st.get_op_statistic("Op")
print("   avg/min/max server time:", s.avg_server_time, s.min_server_time,
      s.max_server_time)
