"""C09: corrupt single fields of a recorded trace; TLC must reject each.
run: cd /verif && PYTHONPATH=harness:/repo VERIF_WORK=/verif/.work/C09corrupt /venv/bin/python .work/notes/C09_corrupt.py"""
import copy
import vlib
import mofgen
from checks import c09

ctx = vlib.Ctx("C09_corrupt", "quick", 1)
ses = {"main": [{"k": "class", "d": "none", "v": "plain", "a": 0},
                {"k": "qualDecl", "d": "lex", "v": "illegal_char", "a": 2}],
       "inc": [], "api": "string", "handle": "mofwbem"}
res = mofgen.run_session(ses, 5, ctx.work + "/s")
ev = [c09.strip(e) for e in res["events"]]
print([(e["call"], e["out"], e["lineno"], e["column"], e["fileid"]) for e in ev])


def variant(f):
    t = copy.deepcopy(ev)
    t = f(t) or t
    return t


def v_line(t): t[1]["lineno"] = 9999
def v_col(t): t[1]["column"] = 100000
def v_file(t): t[1]["fileid"] = 99
def v_exc(t):
    t[1]["out"] = "KeyError"
    t[1]["mro"] = ["KeyError", "LookupError", "Exception", "BaseException", "object"]
def v_os(t):
    t[1]["out"] = "FileNotFoundError"
    t[1]["mro"] = ["FileNotFoundError", "OSError", "Exception", "BaseException", "object"]
def v_hang(t): t[1]["out"] = "hang"; t[1]["mro"] = []
def v_digest(t): t[2]["digest"] = "deadbeef00"
def v_goodfail(t):
    t[2]["out"] = "MOFParseError"
    t[2]["mro"] = ["MOFParseError", "MOFCompileError", "Error", "Exception", "BaseException", "object"]
def v_drop(t): return [t[0], t[2]]


names = ["unchanged", "lineno", "column", "fileid", "other exception",
         "OSError without missing file", "hang", "digest", "good call fails",
         "bad event dropped"]
traces = [ev] + [variant(f) for f in (v_line, v_col, v_file, v_exc, v_os,
                                      v_hang, v_digest, v_goodfail, v_drop)]
vs = ctx.validate_traces("MofCompileTrace", "MofCompileTrace.cfg", traces)
for n, v in zip(names, vs):
    print("%-30s %s" % (n, v))
assert vs[0]["ok"] and not any(v["ok"] for v in vs[1:])
print("all corruptions rejected")
