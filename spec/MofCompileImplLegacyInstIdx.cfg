\* regression config: p_instanceDeclaration shifts the positions for a preceding qualifier list, but not the property list of the alias branch: qualifier list + alias (must violate ImplRefinesReq: IndexError)
SPECIFICATION Spec
CONSTANTS
  MaxProd = 1
  MaxDepth = 6
  OnlyKinds = {"instance"}
  IncludeGuard = TRUE
  NsNoneCheck = TRUE
  HexBounds = TRUE
  CtxBounds = TRUE
  ValueWrapped = TRUE
  RepoWrapped = TRUE
  EmbFinally = TRUE
  RestoreOnReturn = TRUE
  EmbRestoreAll = TRUE
  SuperCheckFirst = TRUE
  AncestryWalk = TRUE
  GuardCanonical = TRUE
  RegisterAfterCreate = TRUE
  NsCachesInit = TRUE
  EmbNullChecked = TRUE
  OverflowWrapped = TRUE
  InstOffsetAll = FALSE
  OpenPrecheck = TRUE
  EmbLexerClone = TRUE
INVARIANT TypeOK
INVARIANT ImplRefinesReq
INVARIANT PositionFileOK
INVARIANT Reusable

CHECK_DEADLOCK FALSE
