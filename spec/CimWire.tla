------------------------------ MODULE CimWire ------------------------------
(***************************************************************************)
(* C01: CIM objects survive the CIM-XML wire format unchanged.             *)
(*                                                                         *)
(* Requirement machine in event style.  An event is ONE recorded round     *)
(* trip of the real code                                                   *)
(*                                                                         *)
(*     object --tocimxmlstr()--> XML --xml_to_tupletree_sax + TupleParser  *)
(*            --> object' --tocimxmlstr()--> XML' --> object'' --> XML''   *)
(*                                                                         *)
(* with the original and the parsed objects flattened by one projection    *)
(* into ELEMENT RECORDS (one per instance / class / path / keybinding /     *)
(* property / method / parameter / parameter value / qualifier / qualifier *)
(* declaration, nested objects included):                                  *)
(*                                                                         *)
(*   path    position in the tree, made of the lower-cased names           *)
(*   et      element kind                                                  *)
(*   name, lname   exact and lower-cased name (classname for objects)      *)
(*   type    CIM type (keybindings: the type the value's class denotes)    *)
(*   arr     "a" array / "s" scalar;  asize  array_size (-1 = None)        *)
(*   rc, co  reference_class, class_origin ("~" = None)                    *)
(*   pg, ovr, tsc, tin, trl   propagated and the four flavors: N / T / F   *)
(*   emb     embedded_object: N / instance / object                        *)
(*   host, ns, sup   path components, superclass ("~" = None)              *)
(*   isnull  the value is NULL;  val  one exact token per entry ("~" = a   *)
(*           NULL array entry, "@emb"/"@ref" = a nested object, which has  *)
(*           its own records);  vt  the value's type as held in the object *)
(*           cls  class projection (XmlText alphabet) of string entries    *)
(*   kids    the names of the children, per category, in order             *)
(*   scopes  the scopes that are true (sorted)                             *)
(*   lvl     number of embedded-object levels above the element            *)
(*   hp      "Y": an EMBEDDED instance object that has its `path` attribute *)
(*           set.  The path is not part of the embedded object (INSTANCE   *)
(*           does not carry it, DSP0201 has no other form for an embedded  *)
(*           instance) and is not compared; the object must still survive  *)
(*                                                                         *)
(* `Fails(st, e)` is the set of clauses of the property statement that the *)
(* event violates.  Freedom the statement leaves is accepted:              *)
(*   - an attribute that was None may come back None or as the DSP0201     *)
(*     default (Dflt); attributes that were set must come back identical   *)
(*   - names are compared without regard to lexical case                   *)
(*   - NaN is compared by class (token "r:nan"), real32 at 32-bit width    *)
(*     (done by the projection), char16/string values may be held as       *)
(*     Char16 or str as long as the element's CIM type says char16         *)
(*   - the instance path is part of the records only where the chosen      *)
(*     element carries it                                                  *)
(* Second round: object'' = object' and XML'' = XML' byte for byte.        *)
(*                                                                         *)
(* The module also holds a CODE-SHAPED model of the wire (ImplWire): what  *)
(* pywbem's encoder + an XML 1.0 reader + pywbem's parser make of an       *)
(* element, with the variants of the pinned tree as parameters; CimWireMC  *)
(* checks it against Fails for all trees of the builder machine, and the   *)
(* trace module follows it for impl drift only.                            *)
(***************************************************************************)
EXTENDS XmlText, Integers

F(name, holds) == IF holds THEN {} ELSE {name}
Rng(q) == {q[i] : i \in DOMAIN q}
CountOf(q, c) == Cardinality({i \in DOMAIN q : q[i] = c})

CimTypes == {"boolean", "string", "char16", "datetime", "reference",
             "uint8", "sint8", "uint16", "sint16", "uint32", "sint32",
             "uint64", "sint64", "real32", "real64"}

(*------------------------- DSP0201 defaults ------------------------------*)
(* which attributes an element kind has, and the default DSP0201 gives an  *)
(* omitted one ("" = no default: omitted means absent)                     *)
HasPg(et)  == et \in {"prop", "meth", "qual"}
HasFlv(et) == et \in {"qual", "qdecl"}
Dflt(a) == CASE a = "pg" -> "F" [] a = "ovr" -> "T" [] a = "tsc" -> "T"
             [] a = "tin" -> "F" [] a = "trl" -> "F"

Norm1(el) ==
  LET pg == IF HasPg(el.et) /\ el.pg = "N" THEN Dflt("pg") ELSE el.pg
      fl(a, v) == IF HasFlv(el.et) /\ v = "N" THEN Dflt(a) ELSE v
  IN [el EXCEPT !.pg = pg, !.ovr = fl("ovr", el.ovr), !.tsc = fl("tsc", el.tsc),
                !.tin = fl("tin", el.tin), !.trl = fl("trl", el.trl)]
Norm(els) == [i \in DOMAIN els |-> Norm1(els[i])]

(* None -> None or default; set -> identical *)
AttrOk(o, g, d) == IF o = "N" THEN g \in {"N", d} ELSE g = o

(*---------------------------- clauses ------------------------------------*)
StrFamily == {"str", "char16"}
VtOk(o, g) == o = g \/ (o \in StrFamily /\ g \in StrFamily)

NullPos(v) == {i \in DOMAIN v : v[i] = "~"}

(* every element clause carries the element kind: "Values.uint8@prop"      *)
ValueFails(o, g) ==
  IF o.isnull # g.isnull THEN {"Values.null." \o o.type \o "@" \o o.et}
  ELSE IF Len(o.val) # Len(g.val) \/ NullPos(o.val) # NullPos(g.val)
  THEN {"Values.nullentry." \o o.type \o "@" \o o.et}
  ELSE F("Values." \o o.type \o "@" \o o.et, o.val = g.val)

TypeFails(o, g) ==
  F("Types." \o o.type \o "@" \o o.et,
    /\ o.type = g.type /\ o.arr = g.arr
    /\ Len(o.vt) = Len(g.vt)
    /\ \A i \in DOMAIN o.vt : i \in DOMAIN g.vt => VtOk(o.vt[i], g.vt[i]))

ElemFails(o, g) ==
  LET A(name, holds) == F(name \o "@" \o o.et, holds) IN
  A("Names", o.et = g.et /\ o.lname = g.lname /\ o.sup = g.sup)
  \cup (IF o.kids = g.kids THEN {}
        ELSE IF Rng(o.kids) = Rng(g.kids) /\ Len(o.kids) = Len(g.kids)
        THEN {"ChildOrder@" \o o.et} ELSE {"Names@" \o o.et})
  \cup TypeFails(o, g)
  \cup ValueFails(o, g)
  \cup A("Attr.array_size", o.asize = g.asize)
  \cup A("Attr.reference_class", o.rc = g.rc)
  \cup A("Attr.class_origin", o.co = g.co)
  \cup A("Attr.embedded_object", o.emb = g.emb)
  \cup A("Attr.propagated", AttrOk(o.pg, g.pg, "F"))
  \cup A("Attr.overridable", AttrOk(o.ovr, g.ovr, "T"))
  \cup A("Attr.tosubclass", AttrOk(o.tsc, g.tsc, "T"))
  \cup A("Attr.toinstance", AttrOk(o.tin, g.tin, "F"))
  \cup A("Attr.translatable", AttrOk(o.trl, g.trl, "F"))
  \cup A("Scopes", o.scopes = g.scopes)
  \cup A("Path.host", o.host = g.host)
  \cup A("Path.namespace", o.ns = g.ns)

Paths(es) == {es[i].path : i \in DOMAIN es}
AtPath(es, p) == es[CHOOSE i \in DOMAIN es : es[i].path = p]
(* diagnosis, added only when a clause failed: which character classes a   *)
(* string lost / gained, which element kinds carry a NULL array entry      *)
ClsDiag(o, g) ==
  UNION {UNION {IF k \in DOMAIN g.cls
                THEN {"diag.lost." \o c : c \in {c \in Cls :
                          CountOf(o.cls[k], c) > CountOf(g.cls[k], c)}}
                     \cup {"diag.gained." \o c : c \in {c \in Cls :
                          CountOf(o.cls[k], c) < CountOf(g.cls[k], c)}}
                ELSE {} : k \in DOMAIN o.cls}}

(* embedded instances that have a path (qualifies a parse failure)         *)
EmbPathDiag(es) ==
  {"diag.embpath." \o es[i].et : i \in {i \in DOMAIN es : es[i].hp = "Y"}}

NullEntryDiag(es) ==
  {"diag.nullentry." \o es[i].et \o "." \o es[i].type :
      i \in {i \in DOMAIN es : "~" \in Rng(es[i].val) /\ es[i].emb = "N"
                                /\ es[i].type # "reference"}}

ObjFails(e) ==
  IF e.enc # "ok" THEN {"EncoderAccepts." \o e.enc}
  ELSE IF e.parse # "ok"
  THEN {"ParserAccepts." \o e.parse} \cup NullEntryDiag(e.orig)
       \cup EmbPathDiag(e.orig)
  ELSE
  LET common == Paths(e.orig) \cap Paths(e.got)
      core == F("Names", /\ Paths(e.orig) = Paths(e.got)
                         /\ Cardinality(Paths(e.orig)) = Len(e.orig)
                         /\ Cardinality(Paths(e.got)) = Len(e.got))
              \cup F("Unclassified", ~e.uncl)
              \cup UNION {ElemFails(AtPath(e.orig, p), AtPath(e.got, p)) : p \in common}
      second == F("SecondRound.object",
                  e.enc2 = "ok" /\ e.parse2 = "ok" /\ e.got2 = e.got)
                \cup F("SecondRound.xml", e.enc2 # "ok" \/ e.parse2 # "ok" \/ e.x1 = e.x2)
      all == core \cup second
  IN IF all = {} THEN {}
     ELSE all \cup UNION {ClsDiag(AtPath(e.orig, p), AtPath(e.got, p)) : p \in common}

(*--------------------------- string vectors ------------------------------*)
(* word tokens and "semi" are runs of ordinary letters                     *)
WordLen(w) == CASE w = "w:amp" -> 3 [] w = "w:lt" -> 2 [] w = "w:gt" -> 2
                [] w = "w:quot" -> 4 [] w = "w:apos" -> 4 [] w = "w:#13" -> 3
                [] w = "w:#10" -> 3 [] w = "w:#9" -> 2 [] w = "w:cdo" -> 8
                [] w = "w:V" -> 1 [] w = "w:/V" -> 2
Letters(t) == Flat([i \in DOMAIN t |->
                 IF t[i] \in Words THEN [k \in 1..WordLen(t[i]) |-> "ltr"]
                 ELSE IF t[i] = "semi" THEN <<"ltr">> ELSE <<t[i]>>])

StrDiag(e) ==
  IF e.enc # "ok" \/ e.parse # "ok" THEN {} ELSE
  {"diag.lost." \o c : c \in {c \in Cls : CountOf(e.s, c) > CountOf(e.got, c)}}
  \cup {"diag.gained." \o c : c \in {c \in Cls : CountOf(e.s, c) < CountOf(e.got, c)}}
  \cup (IF e.depth = 0 /\ e.enc = "ok" /\ ~("UNCLASSIFIED:text" \in Rng(e.text))
        THEN LET r == IF e.where = "name" THEN AttrRead(e.text) ELSE XmlRead(e.text) IN
             IF r.ok /\ Letters(r.s) = Letters(e.s)
             THEN {"diag.ParserDeviatesFromXml10"}
             ELSE {"diag.EncoderTextDoesNotDenoteSource"}
        ELSE {})

StrFails(e) ==
  LET all ==
        IF e.enc # "ok" THEN {"EncoderAccepts." \o e.enc}
        ELSE IF e.parse # "ok" THEN {"ParserAccepts." \o e.parse}
        ELSE F("Values.string.exact", e.gottok = e.srctok)
             \cup F("SecondRound.object", e.stable = "T")
             \cup F("SecondRound.xml", e.stable # "T" \/ e.x1 = e.x2)
  IN IF all = {} THEN {} ELSE all \cup StrDiag(e)

(*----------------------- requirement machine -----------------------------*)
InitState == 0
Apply(st, e) == st
Fails(st, e) ==
  IF e.op = "str" THEN StrFails(e)
  ELSE IF e.op = "obj" THEN ObjFails(e)
  ELSE {"UnknownEvent"}

(***************************************************************************)
(* Code-shaped model of the wire.  W = variant record:                     *)
(*   W.x          the XmlText variant (CR escaping)                        *)
(*   W.nullOk     TRUE: a NULL entry in an array of any type parses;       *)
(*                FALSE (pinned tree): unpack_numeric / unpack_boolean /   *)
(*                unpack_datetime / unpack_char16 assert data is not None  *)
(*   W.char16Kb   TRUE: a char16 value comes back as Char16 (so a char16   *)
(*                keybinding keeps its CIM type);  FALSE (pinned tree):    *)
(*                as str, i.e. a keybinding becomes CIM type string        *)
(*   W.boolPval   TRUE: a boolean parameter value is parsed;  FALSE        *)
(*                (pinned tree): typed by cimvalue() = bool(text), so      *)
(*                FALSE arrives as TRUE                                    *)
(*   W.nullNode   how CIMProperty.tocimxml() builds the children of        *)
(*                VALUE.ARRAY: "fresh" = one new VALUE.NULL DOM node per   *)
(*                NULL entry (the code);  "shared" = ONE VALUE.NULL node   *)
(*                created before the loop and appended once per NULL entry *)
(*                (a realistic "hoisting" refactoring): minidom's          *)
(*                appendChild MOVES a node that already has a parent, so   *)
(*                of k >= 2 NULL entries only the last one stays           *)
(*   W.embEmpty   what TupleParser.parse_embeddedObject() makes of an      *)
(*                EMPTY array of embedded objects: "list" = [] (the code:  *)
(*                `if val is None: return None` after the list branch);    *)
(*                "null" = None (`if not val: return None` first)          *)
(*   W.pathAttach when the parser gives the instance of VALUE.NAMEDINSTANCE *)
(*                / VALUE.INSTANCEWITHPATH / VALUE.NAMEDOBJECT /            *)
(*                VALUE.OBJECTWITH(LOCAL)PATH its path: "after" = the       *)
(*                finished instance gets `instance.path = path` (the code); *)
(*                "first" = CIMInstance(..., path=path) and the properties  *)
(*                are added afterwards, so that CIMInstance.__setitem__     *)
(*                propagates (deprecated behaviour) every property value    *)
(*                into the same-named keybinding whose value differs        *)
(*   W.embPath    how CIMProperty.tocimxml() / CIMParameter.tocimxml(       *)
(*                as_value) write an embedded instance whose `path` is     *)
(*                set: "kept" = v.tocimxml() (the pinned tree): the string *)
(*                holds VALUE.NAMEDINSTANCE / VALUE.OBJECTWITHLOCALPATH /  *)
(*                VALUE.INSTANCEWITHPATH, which parse_embeddedObject()     *)
(*                refuses (CIMXMLParseError);  "ignored" = the bare        *)
(*                INSTANCE (v.tocimxml(ignore_path=True), as               *)
(*                WBEMConnection.InvokeMethod already does for its input   *)
(*                parameters)                                              *)
(*   W.dtOffset   how CIMDateTime.minutes_from_utc computes the UTC offset  *)
(*                that is written: "days" (the code) / "trunc" (see         *)
(*                MinutesFromUtc below)                                     *)
(***************************************************************************)
WAsIs  == [x |-> AsIs, nullOk |-> FALSE, char16Kb |-> FALSE, boolPval |-> FALSE,
           nullNode |-> "fresh", embEmpty |-> "list", pathAttach |-> "after",
           embPath |-> "kept", dtOffset |-> "days"]
WFixed == [x |-> CrFixed, nullOk |-> TRUE, char16Kb |-> TRUE, boolPval |-> TRUE,
           nullNode |-> "fresh", embEmpty |-> "list", pathAttach |-> "after",
           embPath |-> "ignored", dtOffset |-> "days"]

(*---------------- datetime timestamps: the UTC offset ---------------------*)
(* A CIM timestamp carries its UTC offset as sign + three digits (minutes). *)
(* The offset is part of the value (same hhmmss with another offset is     *)
(* another point in time).  Case distinction the binding covers             *)
(* systematically, in every value position (property, array entry,          *)
(* qualifier, qualifier declaration, keybinding, parameter value):          *)
(*   "zero"       +000                                                      *)
(*   "poswhole" / "negwhole"   a whole number of hours east / west of UTC   *)
(*   "posfrac"  / "negfrac"    NOT a whole number of hours (+330 India,     *)
(*                -210 Newfoundland, -570 Marquesas, +030, -030, -001 ...)  *)
(* Abstract timestamp tokens stand for one representative offset each.     *)
DtOffsetClass(m) ==
  IF m = 0 THEN "zero"
  ELSE IF m % 60 = 0 THEN (IF m > 0 THEN "poswhole" ELSE "negwhole")
  ELSE (IF m > 0 THEN "posfrac" ELSE "negfrac")
DtTsToks == {"d:ts", "d:ts+h", "d:ts-h", "d:ts+m", "d:ts-m", "d:ts-s"}
DtOff(tok) == CASE tok = "d:ts" -> 0 [] tok = "d:ts+h" -> 120
                [] tok = "d:ts-h" -> -300 [] tok = "d:ts+m" -> 330
                [] tok = "d:ts-m" -> -210 [] tok = "d:ts-s" -> -30
DtTokOf(m) == IF \E t \in DtTsToks : DtOff(t) = m
              THEN CHOOSE t \in DtTsToks : DtOff(t) = m
              ELSE "d:ts:shifted"

(* CIMDateTime.minutes_from_utc (what str() and so every CIM-XML encoding  *)
(* writes as offset), from the timezone offset m of the datetime object.   *)
(* datetime.utcoffset() is a timedelta, which Python normalises to         *)
(* days = -1 and a POSITIVE seconds part for negative values.              *)
(*   "days"   the code: offset = seconds / 60; if days == -1:              *)
(*            offset = -(60 * 24 - offset)                                  *)
(*   "trunc"  a realistic rewrite as hours / minutes: hours = int(total /  *)
(*            3600) truncates toward zero, minutes = (abs(total) % 3600)   *)
(*            // 60 is never negative, offset = hours * 60 + minutes: the  *)
(*            minutes part gets the wrong sign for negative offsets that   *)
(*            are not whole hours (-210 -> -150, -030 -> +030)             *)
TdDays(m) == IF m < 0 THEN -1 ELSE 0
TdSeconds(m) == m * 60 - TdDays(m) * 86400
AbsI(x) == IF x < 0 THEN -x ELSE x
MinutesFromUtc(m, variant) ==
  IF variant = "days"
  THEN LET o == TdSeconds(m) \div 60 IN
       IF TdDays(m) = -1 THEN -(60 * 24 - o) ELSE o
  ELSE LET total == m * 60
           hours == (IF total < 0 THEN -1 ELSE 1) * (AbsI(total) \div 3600)
           minutes == (AbsI(total) % 3600) \div 60
       IN hours * 60 + minutes
WireDt(tok, W) ==
  IF tok \in DtTsToks THEN DtTokOf(MinutesFromUtc(DtOff(tok), W.dtOffset))
  ELSE tok

(*---------------- real values: lexical form on the wire -------------------*)
(* DSP0201 wants a decimal point in the significand.  Case distinction of   *)
(* the %.11G / %.17G text of a real value that the binding covers           *)
(* systematically (units `unit-real-exp`), for every valued element kind:   *)
(*   "point"    the text has a decimal point (1.5E+10, 42.1)                *)
(*   "integral" digits only (5 -> 5.0)                                      *)
(*   "exp1"     ONE significant digit and an exponent (1E+22, 1E-07,        *)
(*              -4E+200): the ".0" belongs before the E (1.0E+22), a text   *)
(*              like 1E+22.0 cannot be parsed back                          *)
(*   "special"  INF, -INF, NaN                                              *)
RealLexForms == {"point", "integral", "exp1", "special"}

(*------- the instance's own path and the same-named key property ---------*)
(* An instance that is transmitted WITH its path carries every key twice:  *)
(* as keybinding of the path and (usually) as property.  Nothing forces    *)
(* the two to agree (key property changed locally while the path still     *)
(* addresses the object in the server; values differing in lexical case;   *)
(* a server returning another type) and the statement protects both: the   *)
(* path components AND the property values come back as they were sent.    *)
(* KeyRel is the case distinction the binding covers systematically, for   *)
(* every keybinding type and every form of the path (no namespace /        *)
(* namespace / namespace + host = three different CIM-XML elements):       *)
(*   "none"   not a keybinding of the top-level instance's own path        *)
(*   "free"   no property of that name                                     *)
(*   "shape"  the same-named property is NULL or an array                  *)
(*   "type"   ... is a scalar of another CIM type                          *)
(*   "agree"  ... has the same type and the same value                     *)
(*   "value"  ... has the same type and another value (the binding refines *)
(*            strings into: another string / differing in lexical case     *)
(*            only - names are caseless in pywbem, values are not)         *)
(* Abstract values of different types are taken to differ; abstract string *)
(* values (token "s:") are told apart by their class sequence.             *)
OwnKeyPath(n)  == "/path/kb:" \o n \o "/"
OwnPropPath(n) == "/prop:" \o n \o "/"
IsOwnKey(el) == el.et = "kb" /\ el.path = OwnKeyPath(el.lname)
KeyPropIx(els, el) == {j \in DOMAIN els : els[j].path = OwnPropPath(el.lname)}
KeyPropOf(els, el) == els[CHOOSE j \in KeyPropIx(els, el) : TRUE]
KeyRel(els, i) ==
  LET k == els[i] IN
  IF ~IsOwnKey(k) THEN "none"
  ELSE IF KeyPropIx(els, k) = {} THEN "free"
  ELSE LET p == KeyPropOf(els, k) IN
       IF p.isnull \/ p.arr # "s" THEN "shape"
       ELSE IF p.type # k.type THEN "type"
       ELSE IF p.val = k.val /\ p.cls = k.cls THEN "agree" ELSE "value"
KeyRels(els) == {KeyRel(els, i) : i \in DOMAIN els} \ {"none"}

(* CIMInstance.__setitem__(key, value) on an instance that has a path:     *)
(*   if key in self.path.keybindings and self.path[key] != prop.value:     *)
(*       self.path[key] = prop.value                                       *)
(* (the keybinding takes value, type and lexical case of the property)     *)
PropagateKeys(els) ==
  [i \in DOMAIN els |->
     IF KeyRel(els, i) \in {"shape", "type", "value"}
     THEN LET p == KeyPropOf(els, els[i])
              k == els[i]
              \* abstract trees: the token "s:" stands for the class sequence
              \* (as in WireElem): another class sequence = another token
              tok(j) == IF p.val[j] = "s:" /\ (j \notin DOMAIN k.cls \/ p.cls[j] # k.cls[j])
                        THEN "s:changed" ELSE p.val[j]
          IN [k EXCEPT !.name = p.name, !.type = p.type, !.arr = p.arr,
                       !.isnull = p.isnull, !.vt = p.vt, !.cls = p.cls,
                       !.val = [j \in DOMAIN p.val |-> tok(j)]]
     ELSE els[i]]

(*----------- array encoder: DOM child list of VALUE.ARRAY ----------------*)
(* NULL multiplicity of an array value - the case distinction the binding  *)
(* covers systematically: no NULL entry, exactly one, two or more          *)
(* (adjacent or separated by values; a NULL or a value at the end)         *)
NullCount(v) == Cardinality(NullPos(v))
NullMult(v) == IF NullCount(v) = 0 THEN "none"
               ELSE IF NullCount(v) = 1 THEN "one" ELSE "many"

(* xml.dom.minidom Node.appendChild(node): `if node.parentNode is not None:*)
(* node.parentNode.removeChild(node)`, then the node is appended           *)
DomAppend(ch, n) == SelectSeq(ch, LAMBDA c : c # n) \o <<n>>
RECURSIVE DomChildren(_, _)
DomChildren(ids, k) ==
  IF k = 0 THEN <<>> ELSE DomAppend(DomChildren(ids, k - 1), ids[k])
(* node identities of array_xml in CIMProperty.tocimxml(): the VALUE node  *)
(* of entry k is created in iteration k (identity k); a NULL entry gets a  *)
(* new node ("fresh") or the one node created before the loop (identity 0) *)
NodeIds(val, nn) ==
  [k \in DOMAIN val |-> IF val[k] = "~" /\ nn = "shared" THEN 0 ELSE k]
(* the entries (indices into val) that VALUE.ARRAY ends up with, in order  *)
ArrayKept(val, nn) ==
  LET ch == DomChildren(NodeIds(val, nn), Len(val))
      lastnull == IF NullPos(val) = {} THEN 0
                  ELSE CHOOSE i \in NullPos(val) : \A j \in NullPos(val) : j <= i
  IN [j \in DOMAIN ch |-> IF ch[j] = 0 THEN lastnull ELSE ch[j]]
(* only CIMProperty.tocimxml() has this loop; arrays of embedded objects / *)
(* references have child records whose paths carry the entry index - the   *)
(* model leaves them alone (the builder machine makes no such arrays with  *)
(* two NULL entries)                                                       *)
KeptOf(el, W) ==
  IF el.et = "prop" /\ el.arr = "a" /\ el.emb = "N" /\ el.type # "reference"
  THEN ArrayKept(el.val, W.nullNode)
  ELSE [k \in DOMAIN el.val |-> k]

WireStr(cls, lvl, mode, W) ==
  LET r == NestRead(NestEnc(cls, <<>>, lvl, mode, W.x), lvl) IN
  IF r.ok THEN r.s ELSE <<"ERR">>

(* the exact token of an abstract string value stands for its class        *)
(* sequence: equal iff the class sequences are equal                       *)
WireElem(el, mode, W) ==
  LET n1 == Norm1(el)
      isstr == el.type \in {"string", "char16"} /\ el.emb = "N"
      newcls == [k \in DOMAIN el.cls |->
                   IF isstr /\ el.val[k] # "~"
                   THEN WireStr(el.cls[k], el.lvl, mode, W) ELSE el.cls[k]]
      newval == [k \in DOMAIN el.val |->
                   IF isstr /\ el.val[k] # "~" /\ newcls[k] # el.cls[k]
                   THEN "s:changed"
                   ELSE IF el.et = "pval" /\ el.type = "boolean" /\ ~W.boolPval
                           /\ el.val[k] = "b:F"
                   THEN "b:T"
                   ELSE IF el.type = "datetime" THEN WireDt(el.val[k], W)
                   ELSE el.val[k]]
      newvt == [k \in DOMAIN el.vt |->
                   IF el.vt[k] = "char16" /\ (~W.char16Kb \/ el.et = "pval")
                   THEN "str" ELSE el.vt[k]]
      kept == KeptOf(el, W)
      sel(q) == [j \in DOMAIN kept |-> q[kept[j]]]
      embEmptyAsNull == /\ W.embEmpty = "null" /\ el.emb # "N" /\ el.arr = "a"
                        /\ ~el.isnull /\ el.val = <<>>
  IN [n1 EXCEPT !.cls = sel(newcls), !.val = sel(newval), !.vt = sel(newvt),
                !.isnull = el.isnull \/ embEmptyAsNull,
                !.hp = "N",       \* INSTANCE carries no path
                !.type = IF el.et = "kb" /\ el.type = "char16" /\ ~W.char16Kb
                         THEN "string" ELSE el.type]

(* the parser of the pinned tree asserts on a NULL entry of a non-string   *)
(* array (embedded objects and references have their own paths)            *)
NullEntryFails(el, W) ==
  /\ ~W.nullOk
  /\ "~" \in Rng(el.val)
  /\ el.emb = "N"
  /\ el.type \notin {"string", "reference"}
  /\ el.et # "pval"            \* parameter values are typed by cimvalue()

(* the embedded object string of the pinned tree holds the element that    *)
(* combines path and INSTANCE; parse_embeddedObject() accepts INSTANCE and *)
(* CLASS only                                                              *)
EmbPathFails(el, W) ==
  W.embPath = "kept" /\ el.et = "inst" /\ el.lvl > 0 /\ el.hp = "Y"

ImplWire(els, mode, W) ==
  IF \E i \in DOMAIN els : NullEntryFails(els[i], W)
  THEN [parse |-> "AssertionError", got |-> <<>>]
  ELSE IF \E i \in DOMAIN els : EmbPathFails(els[i], W)
  THEN [parse |-> "CIMXMLParseError", got |-> <<>>]
  ELSE LET asm == IF W.pathAttach = "first" THEN PropagateKeys(els) ELSE els IN
       [parse |-> "ok", got |-> [i \in DOMAIN els |-> WireElem(asm[i], mode, W)]]

WireEvent(els, mode, W) ==
  LET w1 == ImplWire(els, mode, W)
      w2 == IF w1.parse = "ok" THEN ImplWire(w1.got, mode, W) ELSE w1
  IN [op |-> "obj", mode |-> mode, enc |-> "ok", parse |-> w1.parse,
      orig |-> els, got |-> w1.got,
      enc2 |-> IF w1.parse = "ok" THEN "ok" ELSE "",
      parse2 |-> IF w1.parse = "ok" THEN w2.parse ELSE "",
      got2 |-> IF w1.parse = "ok" THEN w2.got ELSE <<>>,
      x1 |-> "x", x2 |-> "x", uncl |-> FALSE]

(*------------------ binding of the transcription (drift) -----------------*)
StrDrift(e) ==
  IF e.enc # "ok" \/ "UNCLASSIFIED:text" \in Rng(e.text) THEN {"encoder.no-text"}
  ELSE LET src == IF e.depth = 0 THEN e.s ELSE e.inner
           same(V) == Letters(IF e.depth = 0 /\ e.where = "name"
                              THEN EncAttr(src, V) ELSE Enc(src, e.mode, V))
                      = Letters(e.text)
       IN IF same(AsIs) THEN {}
          ELSE IF same(CrFixed) THEN {"encoder.is-the-CR-escaping-variant"}
          ELSE {"encoder.text-differs-from-both-variants"}

(* compare the parsed elements with the code-shaped model; string contents *)
(* through the class projection                                            *)
IsStrEntry(el, k) == el.type \in {"string", "char16"} /\ el.emb = "N" /\ el.val[k] # "~"
Shape(el) == [el EXCEPT !.val = [k \in DOMAIN el.val |->
                                   IF IsStrEntry(el, k) THEN "s:" ELSE el.val[k]],
                        !.name = ""]
AllW == {[x |-> xv, nullOk |-> a, char16Kb |-> b, boolPval |-> c,
          nullNode |-> "fresh", embEmpty |-> "list", pathAttach |-> "after",
          embPath |-> ep, dtOffset |-> "days"] :
            xv \in {AsIs, CrFixed}, a \in BOOLEAN, b \in BOOLEAN, c \in BOOLEAN,
            ep \in {"kept", "ignored"}}
ObjDrift(e) ==
  IF e.enc # "ok" THEN {}
  ELSE LET same(W) ==
             LET w == ImplWire(e.orig, e.mode, W) IN
             /\ w.parse = e.parse
             /\ (w.parse = "ok" =>
                   /\ Len(w.got) = Len(e.got)
                   /\ \A i \in DOMAIN w.got : i \in DOMAIN e.got =>
                         Shape(w.got[i]) = Shape(e.got[i]))
       IN IF same(WAsIs) THEN {}
          ELSE IF \E W \in AllW : same(W) THEN {"wire.is-a-repaired-variant"}
          ELSE {"wire.differs-from-every-variant-of-the-model"}

ImplStep(i, e) ==
  << IF e.op = "str" THEN StrDrift(e)
     ELSE IF e.op = "obj" THEN ObjDrift(e) ELSE {}, i >>
=============================================================================
