SPECIFICATION TSpec
CONSTANTS
  PinnedRemove = TRUE
  PinnedIterTwice = TRUE
  PinnedSetSliceIter = TRUE
  PinnedPickleLow = TRUE
  LowerFold = FALSE
  ReverseKeepsShadow = FALSE
  CopyAliasShadow = FALSE
  InsertAppends = FALSE
  EszBase = 2
  NB = 3
CHECK_DEADLOCK FALSE
