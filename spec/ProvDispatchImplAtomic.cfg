\* observation, not a requirement: a FAILED registration may leave the provider
\* registered for the namespaces processed before the failing one (must violate FailedRegAtomic)
SPECIFICATION Spec
CONSTANTS
  NsArgFormatBug = FALSE
  ClassnamesAssert = FALSE
  OutOnlyUnchecked = FALSE
  PragmaCaseSensitive = FALSE
  RecompileExisting = FALSE
  Variant = "none"
  Provs <- ProvsIw
  NsArgs <- NsArgsSmall
  SetupBehs = {"ok", "raise"}
  Targets <- TargetsSmall
  KeyU = {1}
  GenDepth = 0
  MaxStore = 1
  IwLevel = "full"
  MethLevel = "off"
INVARIANT FailedRegAtomic
CONSTRAINT StoreBound
CHECK_DEADLOCK FALSE
