SPECIFICATION Spec
CONSTANTS
  PartialUsecAsterisks = TRUE
  NegOffsetFix = TRUE
  CopyKeepsPrecision = FALSE
  ForeignTzNorm = "keep"
  Years <- YearsS
  Months <- MonthsS
  DaysOfMonth <- DomS
  Hours <- HoursS
  Minutes <- SixtyS
  Seconds <- SixtyS
  Usecs <- UsecsS
  IvDays <- IvDaysS
  IvHours <- HoursS
  Offsets <- OffsetsAll
INVARIANT RoundTrip
INVARIANT CopySame
INVARIANT ParseClosed
CHECK_DEADLOCK FALSE
