------------------------------ MODULE CimXmlDtd ------------------------------
(***************************************************************************)
(* C03 - DTD validity of an element tree against the DSP0203 table.        *)
(*                                                                         *)
(* An element tree (projected from what expat reported for a document      *)
(* emitted by the real code) is a record                                   *)
(*   [t |-> tag, a |-> <<<<attrname, value>>, ...>>, c |-> <<subtrees>>,   *)
(*    x |-> "none" | "ws" | "text" | "other"]                              *)
(* x: character data directly inside the element (none / white space only  *)
(* / other text; "other": comments or processing instructions).            *)
(* Attribute values are tokens: the literal value for enumerated           *)
(* attributes; for CDATA attributes any string (never inspected here).     *)
(*                                                                         *)
(* ElemFaults(e) names every validity constraint of XML 1.0 section 3 that *)
(* the element violates w.r.t. its declaration:                            *)
(*   undeclared-element   [VC: Element Valid]                              *)
(*   content              children do not match the content model          *)
(*   text                 character data in element content / in EMPTY     *)
(*   attr-missing         [VC: Required Attribute]                         *)
(*   attr-undeclared      [VC: Attribute Value Type] (no declaration)      *)
(*   attr-value           [VC: Enumeration] / [VC: Name Token]             *)
(***************************************************************************)
EXTENDS CimXmlDtdTable

AttrNames(e) == {e.a[i][1] : i \in DOMAIN e.a}
HasAttr(e, n) == n \in AttrNames(e)
AttrVal(e, n) ==
  LET I == {i \in DOMAIN e.a : e.a[i][1] = n} IN
  IF I = {} THEN "" ELSE e.a[CHOOSE i \in I : TRUE][2]

ChildTags(e) == [i \in DOMAIN e.c |-> e.c[i].t]

BadNmtoken == "~badtoken"

ElemFaults(e) ==
  IF e.t \notin DtdElements THEN {"undeclared-element:" \o e.t}
  ELSE
    LET d == DtdTable[e.t] IN
    (IF Matches(d.content, ChildTags(e)) THEN {} ELSE {"content:" \o e.t})
    \cup (IF d.pcdata THEN {}
          ELSE IF d.empty THEN (IF e.x = "none" THEN {} ELSE {"text:" \o e.t})
          ELSE IF e.x \in {"none", "ws", "other"} THEN {}
          ELSE {"text:" \o e.t})
    \cup {"attr-missing:" \o e.t \o "@" \o n : n \in d.req \ AttrNames(e)}
    \cup {"attr-undeclared:" \o e.t \o "@" \o n :
            n \in AttrNames(e) \ (d.req \cup d.opt)}
    \cup {"attr-value:" \o e.t \o "@" \o e.a[i][1] :
            i \in {j \in DOMAIN e.a :
                     \/ /\ e.a[j][1] \in DOMAIN d.enum
                        /\ e.a[j][2] \notin d.enum[e.a[j][1]]
                     \/ /\ e.a[j][1] \in d.tok
                        /\ e.a[j][2] = BadNmtoken}}

RECURSIVE TreeFaults(_)
TreeFaults(e) ==
  ElemFaults(e) \cup UNION {TreeFaults(e.c[i]) : i \in DOMAIN e.c}

ValidTree(e) == TreeFaults(e) = {}

=============================================================================
