---------------------------- MODULE NocaseMapTrace ----------------------------
(* X05: trace validation of NocaseDict histories recorded from the real code  *)
(* against NocaseMap (verdicts), with the code-shaped NocaseMapImplOps        *)
(* followed in lock step (drift only).                                        *)
EXTENDS NocaseMapImplOps, Json, IOUtils

VARIABLES tid, l, verdict, ts, ti, drifted

TraceBatch == JsonDeserialize(IOEnv.TRACE_FILE).traces

TK == INSTANCE TraceKit WITH
        TTraces <- TraceBatch,
        TInit0 <- InitState, TFails <- Fails, TApply <- Apply,
        TInv <- FoldUnique,
        TImpl0 <- Impl0, TImplStep <- ImplCmp
TSpec == TK!TSpec
=============================================================================
