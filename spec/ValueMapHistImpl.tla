-------------------------- MODULE ValueMapHistImpl --------------------------
(***************************************************************************)
(* C20 - model check of histories: value mappings created one after the    *)
(* other from ONE class object (kept by the caller / handed out again by a *)
(* caching connection).                                                    *)
(*                                                                         *)
(* Code-shaped: _create_for_element reads element_obj.qualifiers['Values'] *)
(* and reconciles its size with the ValueMap array (values_default appended*)
(* / extra items deleted) on a list.  ShareValuesList = FALSE: the list is *)
(* a copy (`list(values_qual.value)`), the class object `obj` is never     *)
(* written.  ShareValuesList = TRUE: the list IS the qualifier's value, so *)
(* extend / del write through to the class object and the next creation    *)
(* starts from the reconciled array.                                       *)
(*                                                                         *)
(* Universe: class of two value-mapped elements; element 1: every ValueMap *)
(* array of length 1..2 over a 4-entry alphabet x Values of n-1..n+2       *)
(* strings; element 2: one of two size-mismatched declarations; actions    *)
(* Create(element, values_default in {None, "d1", "d2"}); histories of up  *)
(* to MaxHist creations.  HistOK: every creation satisfies the requirement *)
(* machine ValueMapHist (judged against the class AS DECLARED, class       *)
(* object unchanged).                                                      *)
(***************************************************************************)
EXTENDS ValueMapHist, TLC

CONSTANTS TMin, TMax, MaxHist,
          ShareValuesList      \* BOOLEAN

VARIABLES obj,     \* the class object: <<element, ...>>, .vals is mutable
          plan,    \* [decl |-> the class as declared, acts |-> <<[el, hasdflt, dflt]>>]
          last     \* the event of the last action
vars == <<obj, plan, last>>

Ent(k, lo, hi, lopen, hopen) ==
  [k |-> k, lo |-> lo, hi |-> hi, lopen |-> lopen, hopen |-> hopen, nt |-> "dec"]
HAlpha == {Ent("S", 3, 3, FALSE, FALSE), Ent("R", 4, 5, FALSE, FALSE),
           Ent("R", 4, 0, FALSE, TRUE), Ent("U", 0, 0, TRUE, TRUE)}
HMaps == {<<a>> : a \in HAlpha} \cup {<<a, b>> : a \in HAlpha, b \in HAlpha}

ValName == <<"s1", "s2", "s3", "s4", "s5", "s6">>
Elem(m, nq) ==
  [tmin |-> TMin, tmax |-> TMax, zero |-> 0, hasmap |-> TRUE, map |-> m,
   maptext |-> << >>, hasvals |-> TRUE, vals |-> [i \in 1..nq |-> ValName[i]]]

SizesH(n) == {n - 1, n, n + 1, n + 2} \ {0}
Decl1 == UNION {{Elem(m, q) : q \in SizesH(Len(m))} : m \in HMaps}
          \* (0 Values strings with hasvals: covered by the vector universe)
Decl2 == {Elem(<<Ent("S", 3, 3, FALSE, FALSE), Ent("R", 4, 0, FALSE, TRUE)>>, 1),
          Elem(<<Ent("S", 5, 5, FALSE, FALSE)>>, 3)}

Dflts == {[has |-> FALSE, s |-> ""], [has |-> TRUE, s |-> "d1"],
          [has |-> TRUE, s |-> "d2"]}

AllV == [j \in 1..(TMax - TMin + 1) |-> TMin + j - 1]
Snap(o) == [i \in DOMAIN o |-> [hasmap |-> o[i].hasmap, maptext |-> o[i].maptext,
                                hasvals |-> o[i].hasvals, vals |-> o[i].vals]]

NoEvent == [op |-> "none"]

Init == /\ \E d1 \in Decl1, d2 \in Decl2 :
             /\ obj = <<d1, d2>>
             /\ plan = [decl |-> <<d1, d2>>, acts |-> << >>]
        /\ last = NoEvent

(* one for_property / for_method / for_parameter call on the kept object *)
CreateAct(el, d) ==
  LET cur == obj[el]                       \* what the code reads NOW
      e == [tmin |-> cur.tmin, tmax |-> cur.tmax, zero |-> cur.zero,
            hasmap |-> cur.hasmap, map |-> cur.map,
            hasvals |-> cur.hasvals, vals |-> cur.vals,
            hasdflt |-> d.has, dflt |-> d.s,
            ctor |-> "", tv |-> << >>, tb |-> << >>, items |-> << >>,
            items2 |-> << >>]
      r == Recon(e, Fixed)
      o == ImplEvent(e, Fixed, AllV,
                     plan.decl[el].vals \o <<"d1", "d2", "nosuch">>)
      obj2 == IF ShareValuesList /\ cur.hasvals
              THEN [obj EXCEPT ![el].vals = r.vl] ELSE obj
  IN /\ obj' = obj2
     /\ plan' = [plan EXCEPT !.acts = Append(@, [el |-> el, hasdflt |-> d.has,
                                                 dflt |-> d.s])]
     /\ last' = [op |-> "Create", el |-> el, decl |-> << >>,
                 hasdflt |-> d.has, dflt |-> d.s,
                 ctor |-> o.ctor, tv |-> o.tv, tb |-> o.tb, items |-> o.items,
                 items2 |-> o.items2,
                 after |-> Snap(obj2), judgeobj |-> TRUE]

Next == /\ Len(plan.acts) < MaxHist
        /\ \E el \in DOMAIN obj, d \in Dflts : CreateAct(el, d)
Spec == Init /\ [][Next]_vars

(* the requirement machine's state after Declare is the declared class *)
HistOK ==
  \/ last.op = "none"
  \/ LET f == HFails(plan.decl, last) IN
     \/ f = {}
     \/ /\ PrintT(<<"CX", f, plan.acts, last.ctor>>)
        /\ FALSE
(* the same without the clause about the class object: what the later      *)
(* creations DO is already wrong when the list is shared                   *)
HistBehaviourOK ==
  \/ last.op = "none"
  \/ LET f == Fails(0, VecOf(plan.decl[last.el], last)) IN
     \/ f = {}
     \/ /\ PrintT(<<"CX", f, plan.acts, last.ctor>>)
        /\ FALSE
=============================================================================
