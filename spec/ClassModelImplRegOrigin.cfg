SPECIFICATION Spec
CONSTANTS
  ClassLevelPropagate = FALSE
  ParamResolve = TRUE
  InitRestated = TRUE
  OriginFromSuper = TRUE
  AllowModifyBusy = FALSE
  SigCheck = TRUE
  Parent <- Chain3
  Mode = "shape"
  QSels = {{}}
  Vias = {"api"}
  InstKeys = {}
  WithModify = FALSE
  AllFlags = FALSE
  GenDepth = 0
INVARIANT ImplRefinesReq
INVARIANT MappingHolds
INVARIANT GetFullOk
INVARIANT EnumOk
CHECK_DEADLOCK FALSE
