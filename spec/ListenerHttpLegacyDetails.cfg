\* regression configuration (must FAIL): CIMErrorDetails carries the parser message / header value unsanitised
SPECIFICATION Spec
CONSTANTS
  MaxReq = 1
  Alphabet <- UpTo1
  San = FALSE
  ClChk = TRUE
  Threaded = TRUE
  FinalValid = FALSE
  QCap = 0
  Gating = FALSE
  QfRet = TRUE
  Echo = "xml10"
  PName = "exact"
  Deep = "caught"
  LexG = "full"
INVARIANT InvNoHeaderSplitting
CHECK_DEADLOCK FALSE
