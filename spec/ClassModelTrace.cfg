SPECIFICATION TSpec
CONSTANTS
  ClassLevelPropagate = FALSE
  ParamResolve = FALSE
  InitRestated = FALSE
  OriginFromSuper = FALSE
  AllowModifyBusy = FALSE
CHECK_DEADLOCK FALSE
