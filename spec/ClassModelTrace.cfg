SPECIFICATION TSpec
CONSTANTS
  ClassLevelPropagate = FALSE
  ParamResolve = TRUE
  InitRestated = TRUE
  OriginFromSuper = FALSE
  AllowModifyBusy = FALSE
CHECK_DEADLOCK FALSE
