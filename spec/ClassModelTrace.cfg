SPECIFICATION TSpec
CONSTANTS
  ClassLevelPropagate = FALSE
  ParamResolve = TRUE
  InitRestated = TRUE
  OriginFromSuper = FALSE
  AllowModifyBusy = FALSE
  SigCheck = TRUE
CHECK_DEADLOCK FALSE
