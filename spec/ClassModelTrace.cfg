SPECIFICATION TSpec
CONSTANTS
  ClassLevelPropagate = FALSE
  ParamResolve = TRUE
  InitRestated = TRUE
  OriginFromSuper = FALSE
  AllowModifyBusy = FALSE
  SigCheck = FALSE
CHECK_DEADLOCK FALSE
