\* regression: wrong design, provider called before the property validation (must violate ImplRefinesReq)
SPECIFICATION Spec
CONSTANTS
  NsArgFormatBug = FALSE
  ClassnamesAssert = FALSE
  OutOnlyUnchecked = FALSE
  PragmaCaseSensitive = FALSE
  RecompileExisting = FALSE
  Variant = "earlycall"
  Provs <- ProvsIw
  NsArgs <- NsArgsSmall
  SetupBehs = {"ok", "raise"}
  Targets <- TargetsSmall
  KeyU = {1}
  GenDepth = 0
  MaxStore = 1
  IwLevel = "full"
  MethLevel = "off"
INVARIANT ImplRefinesReq
CONSTRAINT StoreBound
CHECK_DEADLOCK FALSE
