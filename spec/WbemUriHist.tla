---------------------------- MODULE WbemUriHist -----------------------------
(***************************************************************************)
(* TLC: histories of Parse / Mutate / Print over a few texts with nested   *)
(* references (see WbemUriHeap).  The code-shaped process heap (cells,     *)
(* addresses, optional cache of from_wbem_uri results: switch V.cache) is  *)
(* run next to the requirement machine: every step produces the event the  *)
(* harness would record from the real code (projection of the result and  *)
(* of all returned objects) and HFails judges it - the same operator that  *)
(* judges the vectors of the real from_wbem_uri / to_wbem_uri.             *)
(*                                                                         *)
(* Universe: an end point Sys, a path Mid that refers to it (depth 2), and *)
(* association paths that refer to Sys / Mid: two different paths with the *)
(* same end point, one path with the same end point twice, depth 3, a      *)
(* class path; printed in HistFmts.  Every text contains the digit token   *)
(* N5, which the harness concretises as a number that is unique for the    *)
(* history (so histories replayed in one process do not share texts).      *)
(* With V.cache = "refs" / "all" the laws must FAIL (regression configs).  *)
(* Every Mutate step observes the object before and after the modification *)
(* (print in 3 formats, parse of the print, canonical text of a new equal  *)
(* path); with V.pcache = "setters" (canonical text cached in the object,  *)
(* cleared by setters / path item access only) the laws must FAIL.         *)
(* `hist` is emitted (PrintT / -simulate) and replayed on the real code.   *)
(***************************************************************************)
EXTENDS WbemUriHeap, Json, FiniteSetsExt

CONSTANTS V,          \* design variant (record, see WbemUri)
          MaxLen,     \* length of the histories
          HistFmts,   \* formats of the texts of the universe
          PrintFmts,  \* formats of the Print step
          ObsSeq      \* formats of the observations around a Mutate step

Str(s) == Val("string", "", s, <<>>)
IntV(s) == Val("int", "py", s, <<>>)
Ref(p) == Val("reference", "", <<>>, <<p>>)
Inst(hh, h, hn, n, c, kb) == Path("inst", hh, h, hn, n, c, kb)

HSys == Inst(FALSE, <<>>, TRUE, <<"a">>, <<"b">>,
             <<KB(<<"a">>, Str(<<"A">>)), KB(<<"b">>, IntV(<<"N5">>))>>)
HMid == Inst(TRUE, <<"a">>, TRUE, <<"a">>, <<"b", "a">>,
             <<KB(<<"a">>, Ref(HSys))>>)
HistPaths ==
  { Inst(FALSE, <<>>, TRUE, <<"a">>, <<"a">>,            \* assoc 1 -> Sys
         <<KB(<<"a">>, Ref(HSys)), KB(<<"b">>, Str(<<"a">>))>>),
    Inst(TRUE, <<"a", "col", "N1">>, TRUE, <<"a", "sl", "b">>, <<"a", "b">>,
         <<KB(<<"a">>, IntV(<<"N1">>)), KB(<<"b">>, Ref(HSys))>>),  \* assoc 2
    Inst(FALSE, <<>>, FALSE, <<>>, <<"b">>,              \* same end point twice
         <<KB(<<"a">>, Ref(HSys)), KB(<<"b">>, Ref(HSys))>>),
    Inst(FALSE, <<>>, TRUE, <<"a">>, <<"a">>,            \* depth 3
         <<KB(<<"b">>, Ref(HMid))>>),
    HSys,                                                \* the end point itself
    Path("class", TRUE, <<"a", "col", "N5">>, TRUE, <<"a">>, <<"b">>, <<>>) }

HistTexts == SetToSeq({[p |-> q, fmt |-> f] : q \in HistPaths, f \in HistFmts})

(* ------------------------------ machine -------------------------------- *)
VARIABLES hist,   \* steps <<kind, n, d, x>> so far
          ist,    \* code shape: process heap
          abs,    \* requirement state
          bad,    \* clauses violated by the last step
          tab,    \* constant: the texts of the universe printed and parsed
          ph      \* 0, or h: object h has been observed, its modification
                  \*   follows (first half of a Mutate step)
vars == <<hist, ist, abs, bad, tab, ph>>

Abs0 == [heap |-> <<>>, texts |-> HistTexts,
         res |-> [i \in DOMAIN HistTexts |-> NoPath]]

(* the texts of the universe, printed and parsed once (constant level)     *)
(* (kept in the state variable `tab`: TLC does not pre-evaluate constant    *)
(* definitions that use RECURSIVE operators)                               *)
HistPrinted == [i \in DOMAIN HistTexts |->
                  LET x == PrintU(V, HistTexts[i].p, HistTexts[i].fmt)
                  IN [text |-> x, r |-> ParseU(V, HistTexts[i].p.kind, x)]]

Init == hist = <<>> /\ ist = IState0 /\ abs = Abs0 /\ bad = {}
        /\ tab = HistPrinted /\ ph = 0

Take(st, e, ist2) ==
  /\ hist' = Append(hist, st)
  /\ bad' = HFails(abs, e)
  /\ abs' = IF bad' = {} THEN HApply(abs, e) ELSE abs
  /\ ist' = ist2
  /\ ph = 0
  /\ UNCHANGED <<tab, ph>>

ParseStep(t) ==
  LET src == abs.texts[t]
      text == IF t \in DOMAIN tab THEN tab[t].text
              ELSE PrintU(V, src.p, src.fmt)
      r == IF t \in DOMAIN tab THEN tab[t].r
           ELSE ParseU(V, src.p.kind, text)
      ist2 == IF r.ok THEN IParse(V, ist, src.p.kind, text) ELSE ist
      q == IF r.ok THEN Deref(ist2.cells, ist2.roots[Len(ist2.roots)])
           ELSE NoPath
  IN Take(<<"parse", t, 0, "">>,
          [kind |-> "hparse", t |-> t,
           outcome |-> IF r.ok THEN "path" ELSE r.err,
           q |-> q, eq |-> r.ok /\ PathApprox(src.p, q),
           heap |-> Snapshot(ist2)],
          ist2)

(* OBSERVATION of object h (event hobs): print it, parse the text, print a *)
(* newly built equal path (canonical).  c = [abs, ist, bad]; the events are *)
(* judged one after the other, the first rejected one ends the history.     *)
ObsAllFmts == <<"standard", "historical", "canonical">>
ObsStdCanon == <<"standard", "canonical">>
ObsCanon == <<"canonical">>
ObsNone == <<>>
ObsOne(c, h, fmt) ==
  IF c.bad # {} THEN c
  ELSE LET a == c.ist.roots[h]
           kind == c.ist.cells[a].kind
           pr == IPrint(V, c.ist, a, fmt)
           r == ParseU(V, kind, pr.text)
           \* the parse allocates (and may go through the cache V.cache)
           al == IF r.ok /\ V.cache # "none"
                 THEN AllocU(V, pr.st, kind, pr.text, FALSE)
                 ELSE [st |-> pr.st, addr |-> 0]
           q == IF ~r.ok THEN NoPath
                ELSE IF V.cache = "none" THEN r.p
                ELSE Deref(al.st.cells, al.addr)
           cur == c.abs.heap[h]
           canon == fmt = "canonical"
           e == [kind |-> "hobs", h |-> h, fmt |-> fmt, printed |-> "ok",
                 text |-> pr.text,
                 outcome |-> IF r.ok THEN "path" ELSE r.err,
                 q |-> q, eq |-> r.ok /\ PathApprox(cur, q),
                 p2 |-> IF canon THEN Twin(cur) ELSE NoPath,
                 same |-> canon => PrintU(V, Twin(cur), fmt) = pr.text]
           b == HFails(c.abs, e)
       IN [abs |-> IF b = {} THEN HApply(c.abs, e) ELSE c.abs,
           ist |-> al.st, bad |-> b]
RECURSIVE ObsFrom(_, _, _)
ObsFrom(c, h, i) == IF i > Len(ObsSeq) THEN c
                    ELSE ObsFrom(ObsOne(c, h, ObsSeq[i]), h, i + 1)
ObsAll(c, h) == ObsFrom(c, h, 1)

(* a modification of object h (operation f at the place d levels down),    *)
(* with an observation of h in every format BEFORE (ObsBefore: first half  *)
(* of the step, shared by all operations on h) and AFTER it                *)
(* (\E over a singleton: TLC evaluates the bound expression once)          *)
ObsBefore(h) ==
  /\ ph = 0
  /\ \E c1 \in {ObsAll([abs |-> abs, ist |-> ist, bad |-> {}], h)} :
        /\ abs' = c1.abs /\ ist' = c1.ist /\ bad' = c1.bad
        /\ ph' = h
        /\ UNCHANGED <<hist, tab>>
MutateStep(h, d, f) ==
  /\ ph = h
  /\ TreeHas(abs.heap[h], d, f)
  /\ IMutOk(ist, h, d, f)
  /\ \E ist2 \in {IMutate(V, ist, h, d, f)} :
     \E e \in {[kind |-> "hmutate", h |-> h, d |-> d, f |-> f,
                heap |-> Snapshot(ist2)]} :
     \E b \in {HFails(abs, e)} :
     \E c3 \in {ObsAll([abs |-> IF b = {} THEN HApply(abs, e) ELSE abs,
                        ist |-> ist2, bad |-> b], h)} :
        /\ hist' = Append(hist, <<"mutate", h, d, f>>)
        /\ abs' = c3.abs /\ ist' = c3.ist /\ bad' = c3.bad
        /\ ph' = 0
        /\ UNCHANGED tab

PrintStep(h, f) ==
  Take(<<"print", h, 0, f>>,
       [kind |-> "hprint", h |-> h, fmt |-> f, printed |-> "ok",
        heap |-> Snapshot(ist)],
       ist)

Next ==
  /\ bad = {} /\ Len(hist) < MaxLen
  /\ \/ \E t \in DOMAIN abs.texts : ParseStep(t)
     \/ \E h \in DOMAIN abs.heap : ObsBefore(h)
     \/ \E h \in DOMAIN abs.heap : \E d \in 0..2 : \E f \in MutFields :
          MutateStep(h, d, f)
     \/ \E h \in DOMAIN abs.heap : \E f \in PrintFmts : PrintStep(h, f)
Spec == Init /\ [][Next]_vars

(* ------------------------------ laws ----------------------------------- *)
(* round trip / printed URI accepted / a parse is a function of the text   *)
HistRoundTrip ==
  bad \cap {"RoundTrip", "RoundTripEq", "PrintedAccepted", "ParserTotal",
            "ParseFunctional", "CanonicalEqual"} = {}
(* returned objects are independent of each other and of later calls       *)
HistIndependent == "Independent" \notin bad
HistWellFormed == bad \cap {"BadHistory", "Printed", "UnknownEvent"} = {}

(* vacuity guards: the universe shares reference texts between different   *)
(* texts, and a mutation d levels down exists                              *)
ASSUME \E i, j \in DOMAIN HistTexts :
         i # j /\ HistTexts[i].p # HistTexts[j].p /\
         TreeHas(HistTexts[i].p, 1, "ns") /\ TreeHas(HistTexts[j].p, 1, "ns")
ASSUME \E i \in DOMAIN HistTexts : TreeHas(HistTexts[i].p, 2, "kbset.dict")
ASSUME \E i \in DOMAIN HistTexts : TreeHas(HistTexts[i].p, 1, "kbdel.item")
ASSUME \A i \in DOMAIN HistTexts : PathSame(HistTexts[i].p,
                                              Twin(HistTexts[i].p))

(* complete histories for the spec -> code replay                          *)
Emit == Len(hist) < MaxLen \/ ph # 0 \/ PrintT(<<"HH", hist>>)

ASSUME "EMIT_FILE" \notin DOMAIN IOEnv \/ IOEnv.EMIT_FILE = "" \/
       /\ JsonSerialize(IOEnv.EMIT_FILE,
            [texts |-> HistTexts,
             newvals |-> [ns |-> NewNs, host |-> NewHost, cls |-> NewCls,
                          key |-> NewKey, str |-> NewStr.s]])
       /\ PrintT(<<"EMITTED", Len(HistTexts)>>)
=============================================================================
