\* regression config: OverflowError of the int -> float conversion of a real32 value is not translated (must violate ImplRefinesReq: OverflowError)
SPECIFICATION Spec
CONSTANTS
  MaxProd = 1
  MaxDepth = 6
  OnlyKinds = {"qualDecl"}
  IncludeGuard = TRUE
  NsNoneCheck = TRUE
  HexBounds = TRUE
  CtxBounds = TRUE
  ValueWrapped = TRUE
  RepoWrapped = TRUE
  EmbFinally = TRUE
  RestoreOnReturn = TRUE
  EmbRestoreAll = TRUE
  SuperCheckFirst = TRUE
  AncestryWalk = TRUE
  GuardCanonical = TRUE
  RegisterAfterCreate = TRUE
  NsCachesInit = TRUE
  EmbNullChecked = TRUE
  OverflowWrapped = FALSE
  InstOffsetAll = TRUE
  OpenPrecheck = TRUE
  EmbLexerClone = TRUE
INVARIANT TypeOK
INVARIANT ImplRefinesReq
INVARIANT PositionFileOK
INVARIANT Reusable

CHECK_DEADLOCK FALSE
