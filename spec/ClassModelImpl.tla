---------------------------- MODULE ClassModelImpl ----------------------------
(***************************************************************************)
(* Code-shaped machine of pywbem_mock's class handling, in lock step with  *)
(* the requirement machine ClassModel.  TLC checks, on every forest        *)
(* reachable by CreateClass / ModifyClass / DeleteClass / CreateInstance   *)
(* in any accepted order over the topology `Parent`:                       *)
(*   ImplRefinesReq   every mutating call's outcome is admissible          *)
(*   GetFullOk        GetClass(LocalOnly=F, IQ=T, ICO=T) = Exposed(c)      *)
(*   GetFilteredOk    every flag / PropertyList combination only removes   *)
(*   EnumOk           EnumerateClassNames/Classes = children / subtree,    *)
(*                    EnumerateInstances(Names) = instances of the subtree *)
(*   MappingHolds     both machines hold the same forest and instances     *)
(* `Mode` selects the universe of class declarations (DeclU).              *)
(* With GenDepth > 0 the module emits random call histories (hist) for the *)
(* harness (-simulate; RandomElement is only used there).                  *)
(***************************************************************************)
EXTENDS ClassModelImplOps

CONSTANTS Parent,      \* topology: class id -> id of its superclass or ""
          Mode,        \* which declaration universe (see DeclU)
          QSels,       \* set of sets of qualifier indices; one is picked in Init
          Vias,        \* creation paths explored: subset of {"api", "mof"}
          InstKeys,    \* keys of instances that may be created per class
          WithModify,  \* BOOLEAN: explore ModifyClass too
          AllFlags,    \* BOOLEAN: check all 27 x 4 flag combinations
          GenDepth     \* > 0: emit call histories of that length

VARIABLES store,       \* class id -> resolved class (the class store)
          ii,          \* instance store: set of <<class id, key>>
          s,           \* requirement machine state
          bad,         \* clauses violated by the last mutating call
          qsel,        \* qualifier indices used in this run
          hist
vars == <<store, ii, s, bad, qsel, hist>>

Classes == DOMAIN Parent
Topo5 == [c \in {"A", "B", "C", "D", "E"} |->
            CASE c = "A" -> "" [] c = "B" -> "A" [] c = "C" -> "B"
              [] c = "D" -> "C" [] c = "E" -> "A"]
Topo4 == [c \in {"A", "B", "C", "D"} |->
            CASE c = "A" -> "" [] c = "B" -> "A" [] c = "C" -> "B" [] c = "D" -> "A"]
Chain4 == [c \in {"A", "B", "C", "D"} |->
            CASE c = "A" -> "" [] c = "B" -> "A" [] c = "C" -> "B" [] c = "D" -> "C"]
Chain3 == [c \in {"A", "B", "C"} |->
            CASE c = "A" -> "" [] c = "B" -> "A" [] c = "C" -> "B"]
TwoRoots == [c \in {"A", "B", "C", "X", "Y"} |->
            CASE c = "A" -> "" [] c = "B" -> "A" [] c = "C" -> "A"
              [] c = "X" -> "" [] c = "Y" -> "X"]
Free6 == [c \in {"A", "B", "C", "D", "E", "F"} |-> ""]   \* Gen mode: ignored

(*----------------------- declaration universes ---------------------------*)
Vals == {"", "1", "2"}
QOne(i, v) == [j \in QI |-> IF j = i THEN v ELSE ""]
QSingle(S) == {Q0} \cup {QOne(i, v) : i \in S, v \in {"1", "2"}}
QAll(S) == {qm \in [QI -> Vals] : \A j \in QI \ S : qm[j] = ""}
EDabs == [present |-> FALSE, ovr |-> FALSE, quals |-> Q0, xquals |-> Q0,
          fl |-> FL0, xfl |-> FL0, pars |-> ""]
ED(o, qm, xm) == [present |-> TRUE, ovr |-> o, quals |-> qm, xquals |-> xm,
                  fl |-> FL0, xfl |-> FL0, pars |-> "x"]
Decl(cq, p, q, m) ==
  [cq |-> cq, cfl |-> FL0, el |-> [k |-> EDabs, p |-> p, q |-> q, m |-> m]]
(* explicit flavors on a qualifier use: all 9 combinations *)
FlTokens == {<<ts, ov>> : ts \in {"", "T", "R"}, ov \in {"", "E", "D"}}
FlOne(i, f) == [j \in QI |-> IF j = i THEN f ELSE NoFl]
Shapes == {EDabs, ED(FALSE, Q0, Q0), ED(TRUE, Q0, Q0)}

DeclU(S) ==
  CASE Mode = "shape" ->     \* presence / override pattern of p and m
         {Decl(Q0, p, EDabs, m) : p \in Shapes, m \in Shapes}
    [] Mode = "shape3" ->
         {Decl(Q0, p, q, m) : p \in Shapes, q \in Shapes, m \in Shapes}
    [] Mode = "propq" ->     \* one property, every value of the qualifiers S
         {Decl(Q0, p, EDabs, EDabs) :
            p \in {EDabs} \cup {ED(o, qm, Q0) : o \in BOOLEAN, qm \in QAll(S)}}
    [] Mode = "propfl" ->    \* one property, one qualifier of S, every value,
                             \* every explicit flavor on the use
         {Decl(Q0, p, EDabs, EDabs) :
            p \in {EDabs} \cup
                 {[ED(o, QOne(i, v), Q0) EXCEPT !.fl = FlOne(i, f)] :
                    o \in BOOLEAN, i \in S, v \in {"1", "2"}, f \in FlTokens}
                 \cup {ED(o, Q0, Q0) : o \in BOOLEAN}}
    [] Mode = "methfl" ->    \* the same on the method and on its parameter
         {Decl(Q0, EDabs, EDabs, m) :
            m \in {EDabs} \cup
                 {[ED(TRUE, QOne(i, v), Q0) EXCEPT !.fl = FlOne(i, f)] :
                    i \in S, v \in {"1", "2"}, f \in FlTokens}
                 \cup {[ED(TRUE, Q0, QOne(i, v)) EXCEPT !.xfl = FlOne(i, f)] :
                    i \in S, v \in {"1", "2"}, f \in FlTokens}
                 \cup {ED(TRUE, Q0, Q0)}}
    [] Mode = "parfl" ->     \* flavors on the qualifiers of the parameter only
         {Decl(Q0, EDabs, EDabs, m) :
            m \in {EDabs, ED(TRUE, Q0, Q0)} \cup
                 {[ED(TRUE, Q0, QOne(i, v)) EXCEPT !.xfl = FlOne(i, f)] :
                    i \in S, v \in {"1", "2"}, f \in FlTokens}}
    [] Mode = "sig" ->       \* parameter lists of overriding methods
         {Decl(Q0, EDabs, EDabs, m) :
            m \in {EDabs} \cup
                 {[ED(o, Q0, Q0) EXCEPT !.pars = ps] :
                    o \in BOOLEAN, ps \in {"x", "xy", "y", ""}}
                 \cup {[ED(o, Q0, QOne(1, "1")) EXCEPT !.pars = ps] :
                    o \in BOOLEAN, ps \in {"x", "xy"}}}
    [] Mode = "clsq" ->      \* class-level qualifiers
         {Decl(qm, EDabs, EDabs, EDabs) : qm \in QAll(S)}
    [] Mode = "methq" ->     \* method and parameter qualifiers
         {Decl(Q0, EDabs, EDabs, m) :
            m \in {EDabs} \cup {ED(o, qm, xm) : o \in BOOLEAN,
                                 qm \in QSingle(S), xm \in QAll(S)}}
    [] Mode = "dyn" ->       \* creation order / modify / delete / instances
         {Decl(Q0, p, EDabs, m) :
            p \in {EDabs, ED(FALSE, QOne(1, "1"), Q0), ED(TRUE, Q0, Q0),
                   ED(TRUE, QOne(1, "2"), Q0)},
            m \in {EDabs, ED(FALSE, Q0, Q0)}}

(* root classes declare the key property k *)
KeyED == [ED(FALSE, QOne(4, "1"), Q0) EXCEPT !.pars = ""]
WithKey(sup, d) == IF sup = "" THEN [d EXCEPT !.el.k = KeyED] ELSE d

(*---------------------------- events --------------------------------------*)
MutEv(op, via, c, sup, d, r) ==
  [op |-> op, via |-> via, name |-> c, super |-> sup, d |-> d,
   ok |-> r.ok, code |-> r.code,
   kind |-> IF r.ok THEN "ok" ELSE IF r.code = E_PYERROR
            THEN "pyerror-AttributeError" ELSE "cimerror"]
GetEv(c, lo, iq, ico, hp, pl) ==
  [op |-> "Get", name |-> c, lo |-> lo, iq |-> iq, ico |-> ico, hp |-> hp,
   pl |-> pl, ok |-> TRUE, code |-> 0,
   cls |-> ImplGet(store, c, lo, iq, ico, hp, pl)]
EnumNamesEv(cn, deep) ==
  [op |-> "EnumClassNames", name |-> cn, deep |-> deep, ok |-> TRUE,
   code |-> 0, names |-> AsSeq(ImplSubNames(store, cn, deep))]
(* _imeth_EnumerateClasses looks up 'IncludeClassOrigin, None)' in the     *)
(* request parameters, so get_class always sees include_classorigin=None   *)
EnumClassesEv(cn, deep, lo, iq, ico) ==
  [op |-> "EnumClasses", name |-> cn, deep |-> deep, lo |-> lo, iq |-> iq,
   ico |-> ico, hp |-> FALSE, pl |-> <<>>, ok |-> TRUE, code |-> 0,
   classes |-> AsSeq({ImplGet(store, x, lo, iq, "N", FALSE, <<>>) :
                        x \in ImplSubNames(store, cn, deep)})]
EnumInstEv(op, cn) ==
  [op |-> op, name |-> cn, ok |-> TRUE, code |-> 0,
   insts |-> AsSeq({x \in ii : x[1] \in ImplDesc(store, cn) \cup {cn}})]

Init == /\ store = <<>> /\ ii = {} /\ s = InitState /\ bad = {}
        /\ qsel \in QSels /\ hist = <<>>

Log(c) == hist' = IF GenDepth > 0 THEN Append(hist, c) ELSE hist

Create(c, sup, d, via, h) ==
  /\ c \notin DOMAIN store
  /\ LET r == ImplResolve(store, c, sup, d, via)
         e == MutEv("Create", via, c, sup, d, r) IN
     /\ store' = IF r.ok THEN (c :> r.cls) @@ store ELSE store
     /\ bad' = JudgeHard(s, e)
     /\ s' = ApplyOp(s, e)
     /\ Log([op |-> "Create", via |-> via, name |-> c, super |-> sup, d |-> d,
             key |-> 0, obj |-> h])
  /\ UNCHANGED <<ii, qsel>>

Modify(c, d, via, h) ==
  /\ c \in DOMAIN store
  /\ LET sup == store[c].super
         r == IF ~AllowModifyBusy /\ ImplChildren(store, c) # {}
              THEN RErr(E_CLASS_HAS_CHILDREN)
              ELSE IF ~AllowModifyBusy /\ \E x \in ii : x[1] = c
              THEN RErr(E_CLASS_HAS_INSTANCES)
              ELSE ImplResolve(store, c, sup, d, via)
         e == MutEv("Modify", via, c, sup, d, r) IN
     /\ store' = IF r.ok THEN [store EXCEPT ![c] = r.cls] ELSE store
     /\ bad' = JudgeHard(s, e)
     /\ s' = ApplyOp(s, e)
     /\ Log([op |-> "Modify", via |-> via, name |-> c, super |-> sup, d |-> d,
             key |-> 0, obj |-> h])
  /\ UNCHANGED <<ii, qsel>>

Delete(c) ==
  /\ c \in DOMAIN store
  /\ LET gone == ImplDesc(store, c) \cup {c}
         st2 == [x \in (DOMAIN store) \ gone |-> store[x]]
         ii2 == {x \in ii : x[1] \notin gone}
         e == [op |-> "Delete", name |-> c, ok |-> TRUE, code |-> 0,
               after |-> AsSeq(DOMAIN st2), iafter |-> AsSeq(ii2)] IN
     /\ store' = st2 /\ ii' = ii2
     /\ bad' = JudgeHard(s, e)
     /\ s' = ApplyOp(s, e)
     /\ Log([op |-> "Delete", via |-> "", name |-> c, super |-> "", d |-> Decl(Q0, EDabs, EDabs, EDabs),
             key |-> 0, obj |-> 0])
  /\ UNCHANGED qsel

CreateInst(c, key) ==
  /\ c \in DOMAIN store /\ <<c, key>> \notin ii
  /\ ii' = ii \cup {<<c, key>>}
  /\ s' = ApplyOp(s, [op |-> "CreateInst", name |-> c, key |-> key, ok |-> TRUE])
  /\ bad' = {}
  /\ Log([op |-> "CreateInst", via |-> "", name |-> c, super |-> "", d |-> Decl(Q0, EDabs, EDabs, EDabs),
          key |-> key, obj |-> 0])
  /\ UNCHANGED <<store, qsel>>

ExhNext ==
  /\ GenDepth = 0
  /\ \/ \E c \in Classes, d \in DeclU(qsel), via \in Vias :
           Create(c, Parent[c], WithKey(Parent[c], d), via, 0)
     \/ /\ WithModify
        /\ \E c \in Classes, d \in DeclU(qsel), via \in Vias :
              c \in DOMAIN store /\ Modify(c, WithKey(store[c].super, d), via, 0)
     \/ \E c \in Classes : Delete(c)
     \/ \E c \in Classes, k \in InstKeys : CreateInst(c, k)

(*------------------- random histories for the harness ---------------------*)
(* (operators with a parameter are not pre-evaluated as constants by TLC) *)
RndVal(z) == <<"", "", "", "1", "1", "2">>[RandomElement(1..6)]
RndQ(z) == <<RndVal(z), RndVal(z), RndVal(z), "">>
Chance(k) == RandomElement(1..10) <= k
(* explicit flavors on about a third of the given qualifiers (never Key) *)
RndFl1(v) == IF v = "" \/ ~Chance(3) THEN NoFl
             ELSE << <<"", "T", "R", "R">>[RandomElement(1..4)],
                     <<"", "E", "D", "D">>[RandomElement(1..4)] >>
RndFl(qm) == <<RndFl1(qm[1]), RndFl1(qm[2]), RndFl1(qm[3]), NoFl>>
RndPars(z) == <<"x", "x", "x", "x", "x", "x", "x", "xy", "y", "">>[RandomElement(1..10)]
RndED(inh, isM) ==
  IF ~Chance(6) THEN EDabs
  ELSE LET qm == RndQ(1)
           ps == IF isM THEN RndPars(1) ELSE ""
           xm == IF isM /\ HasX(ps) THEN RndQ(2) ELSE Q0 IN
       [present |-> TRUE, ovr |-> IF Chance(8) THEN inh ELSE ~inh,
        quals |-> qm, xquals |-> xm, fl |-> RndFl(qm), xfl |-> RndFl(xm),
        pars |-> ps]
RECURSIVE Depth(_, _)
Depth(st, c) == IF c = "" \/ c \notin DOMAIN st THEN 0 ELSE 1 + Depth(st, st[c].super)
InhIn(st, sup, e) == sup \in DOMAIN st /\ st[sup].el[e].present
RndDecl(st, sup) ==
  LET cq == RndQ(0) IN
  [cq |-> cq, cfl |-> RndFl(cq),
   el |-> [k |-> IF sup = "" \/ sup \notin DOMAIN st THEN KeyED ELSE EDabs,
           p |-> RndED(InhIn(st, sup, "p"), FALSE),
           q |-> RndED(InhIn(st, sup, "q"), FALSE),
           m |-> RndED(InhIn(st, sup, "m"), TRUE)]]
(* client objects: the handle of an object is the index of the call that    *)
(* built it; its content is the d of the last call/edit that names it       *)
IsObjCall(j) == hist[j].obj # 0
ObjD(h) == hist[Max({j \in DOMAIN hist : hist[j].obj = h})].d
GenNext ==
  /\ GenDepth > 0
  /\ \/ \E c \in Classes, sup \in (DOMAIN store) \cup {"", "Ghost"} :
           /\ Depth(store, sup) < 4
           /\ sup # "Ghost" \/ Chance(1)
           /\ \E d \in {RndDecl(store, sup)}, via \in {"api", "mof"} :
                 Create(c, sup, d, via, IF via = "api" THEN Len(hist) + 1 ELSE 0)
     \/ \E c \in DOMAIN store :
           /\ Chance(5)
           /\ \E d \in {RndDecl(store, store[c].super)}, via \in {"api", "mof"} :
                 Modify(c, d, via, IF via = "api" THEN Len(hist) + 1 ELSE 0)
     \/ \E j \in DOMAIN hist :        \* the same client object is passed again
           /\ IsObjCall(j) /\ hist[j].name \in DOMAIN store
           /\ store[hist[j].name].super = hist[j].super
           /\ Modify(hist[j].name, ObjD(hist[j].obj), "api", hist[j].obj)
     \/ \E j \in DOMAIN hist :        \* the client edits an object it passed
           /\ IsObjCall(j) /\ hist[j].op # "ClientEdit" /\ Chance(5)
           /\ hist' = Append(hist,
                 [op |-> "ClientEdit", via |-> "", name |-> hist[j].name,
                  super |-> hist[j].super,
                  d |-> RndDecl(store, hist[j].super), key |-> 0,
                  obj |-> hist[j].obj])
           /\ UNCHANGED <<store, ii, s, bad, qsel>>
     \/ \E c \in DOMAIN store : Chance(2) /\ Delete(c)
     \/ \E c \in DOMAIN store, k \in InstKeys : Chance(4) /\ CreateInst(c, k)

Next == ExhNext \/ GenNext
Spec == Init /\ [][Next]_vars

(*----------------------------- invariants ---------------------------------*)
ImplRefinesReq == bad = {}
MappingHolds == /\ DOMAIN store = DOMAIN s.cls /\ ii = s.insts
                /\ \A c \in DOMAIN store : store[c].super = s.cls[c].super
GetFullOk == \A c \in DOMAIN store :
                Judge(s, GetEv(c, "F", "T", "T", FALSE, <<>>)) = {}
Tri == IF AllFlags THEN {"T", "F", "N"} ELSE {"T", "F"}
Plists == {<<>>, <<"p">>, <<"p", "q">>, <<"k", "q">>}
GetFilteredOk ==
  \A c \in DOMAIN store, lo \in Tri, iq \in Tri, ico \in Tri :
     /\ Judge(s, GetEv(c, lo, iq, ico, FALSE, <<>>)) = {}
     /\ \A pl \in Plists : Judge(s, GetEv(c, lo, iq, ico, TRUE, pl)) = {}
EnumOk ==
  \A cn \in (DOMAIN store) \cup {""}, deep \in BOOLEAN :
     /\ Judge(s, EnumNamesEv(cn, deep)) = {}
     /\ \A fl \in {<<"F", "T", "T">>, <<"T", "F", "F">>, <<"N", "N", "N">>} :
          JudgeHard(s, EnumClassesEv(cn, deep, fl[1], fl[2], fl[3])) = {}
     /\ cn = "" \/ (/\ Judge(s, EnumInstEv("EnumInst", cn)) = {}
                    /\ Judge(s, EnumInstEv("EnumInstNames", cn)) = {})
GenConstraint == GenDepth = 0 \/ Len(hist) <= GenDepth
=============================================================================
