\* regression: pinned code, provider_classnames of a wrong type -> AssertionError (must violate ImplRefinesReq)
SPECIFICATION Spec
CONSTANTS
  NsArgFormatBug = FALSE
  ClassnamesAssert = TRUE
  OutOnlyUnchecked = FALSE
  PragmaCaseSensitive = FALSE
  RecompileExisting = FALSE
  Variant = "none"
  Provs <- ProvsIw
  NsArgs <- NsArgsSmall
  SetupBehs = {"ok", "raise"}
  Targets <- TargetsSmall
  KeyU = {1}
  GenDepth = 0
  MaxStore = 1
  IwLevel = "full"
  MethLevel = "off"
INVARIANT ImplRefinesReq
CONSTRAINT StoreBound
CHECK_DEADLOCK FALSE
