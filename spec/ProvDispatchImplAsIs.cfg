\* regression: the five switches as the pinned code is (must violate ImplRefinesReq)
SPECIFICATION Spec
CONSTANTS
  NsArgFormatBug = TRUE
  ClassnamesAssert = TRUE
  OutOnlyUnchecked = TRUE
  PragmaCaseSensitive = TRUE
  RecompileExisting = TRUE
  Variant = "none"
  Provs <- ProvsSmall
  NsArgs <- NsArgsSmall
  SetupBehs = {"ok", "raise"}
  Targets <- TargetsSmall
  KeyU = {1}
  GenDepth = 0
  MaxStore = 1
  IwLevel = "lite"
  MethLevel = "full"
INVARIANT ImplRefinesReq
CONSTRAINT StoreBound
CHECK_DEADLOCK FALSE
