\* behaviour emission: histories of <=4 requests (<=2 deviations each), last one valid
SPECIFICATION Spec
CONSTANTS
  MaxReq = 4
  Alphabet <- UpTo2
  San = FALSE
  ClChk = FALSE
  Threaded = TRUE
  FinalValid = TRUE
  QCap = 0
  Gating = FALSE
  QfRet = TRUE
  Echo = "xml10"
  PName = "exact"
  Deep = "caught"
  LexG = "full"
CHECK_DEADLOCK FALSE
