\* thorough: instance-write side with 4 valid instance-write descriptors + 1 method,
\* 12 namespace arguments, 12 targets, keys {1,2}, <= 2 instances
SPECIFICATION Spec
CONSTANTS
  NsArgFormatBug = FALSE
  ClassnamesAssert = FALSE
  OutOnlyUnchecked = FALSE
  PragmaCaseSensitive = FALSE
  RecompileExisting = FALSE
  Variant = "none"
  Provs <- ProvsBigIw
  NsArgs <- NsArgsBig
  SetupBehs = {"ok", "raise"}
  Targets <- TargetsBig
  KeyU = {1, 2}
  GenDepth = 0
  MaxStore = 2
  IwLevel = "full"
  MethLevel = "lite"
INVARIANT ImplRefinesReq
INVARIANT MappingHolds
INVARIANT ReqWellFormed
CONSTRAINT StoreBound
CHECK_DEADLOCK FALSE
